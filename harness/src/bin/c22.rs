//! C22 — saving and restoring a working store preserves the manifest.
//!
//!   c22 <tier> <seed> <outdir>
//!
//! Implementation level (oracle, independent of the model): a generated builder — definition as
//! in C03 + created/gathered flags, claim thumbnail, generator icon, definition-only ingredients
//! (with and without a caller thumbnail), stream ingredients (unsigned / signed / tampered /
//! fixture assets whose manifest chains are linked by `c2pa_manifest` or `activeManifest`, with
//! and without a caller thumbnail), redactions of an ingredient assertion, settings-driven
//! actions and templates, Create / Edit intents, `no_embed` + `remote_url` — is signed (a)
//! directly and (b) after a chain of 1–3 `to_archive` → `with_archive` round trips (fresh Context
//! each time). The two reports are compared *completely*: every differing JSON path is collected
//! (only what two signings of the same content necessarily differ in is abstracted: the active
//! manifest's own label and instance id, times, hashes, signature members; a resource
//! identifier is replaced by the digest of the bytes it resolves to). Differences are then
//! attributed: a difference is accepted as a known finding only when the *plan* has the feature
//! the finding is about and the differing paths are the ones that finding explains; everything
//! else is `restored-report-differs` (a violation).
//!
//! Model level: the real `Builder` is abstracted into a state line (serialised definition +
//! the ingredients' materialised manifest stores), before and after the round trips, the same
//! way; `C22 chain n=… <state>` must give the restored builder's state (`C2pa.C22.chain`), and
//! `C22 sign n=… <state>` the abstraction of the signed report (`C2pa.C22.sign` + `report`):
//! title, claim thumbnail, generators, embedding mode, redactions, assertions with instance
//! numbers / kinds / created flags / action lists / template counts in claim order, ingredients
//! with label, active manifest, validation results, status count and whether their thumbnail is
//! the claim thumbnail of their own manifest, and the carried manifests with their links. Every
//! witness of Props/C22.lean is replayed (`W-…` cases).

#[path = "../defgen.rs"]
mod defgen;

use std::collections::BTreeSet;
use std::io::Cursor;

use c2pa::{Builder, BuilderIntent, Context, Reader};
use defgen::*;
use serde_json::{json, Value};
use vh::common::{canon_json, fixtures, guarded, hex, main_with, Rng, Run};
use vh::sign::unsigned_sources;

#[derive(Clone)]
struct StreamIng {
    title: String,
    relationship: &'static str,
    format: String,
    data: Vec<u8>,
    kind: &'static str, // unsigned | signed | tampered | nested
    /// labels of the assertions of the asset's active manifest and that manifest's label
    info: Option<(String, Vec<String>)>,
    /// claim version of the asset's active manifest
    claim_v: u8,
    user_thumb: bool,
}

#[derive(Clone, Default)]
struct Extras {
    xa: Vec<&'static str>,
    xt: usize,
    intent: Option<&'static str>,
    no_embed: bool,
    remote: bool,
    /// redaction URIs
    redact: Vec<String>,
    icon: bool,
    def_ing_thumb: Vec<bool>,
    /// replaces the definition's assertion list
    raw_assertions: Option<Vec<Value>>,
}

#[derive(Clone)]
struct Plan {
    supplied: Supplied,
    created: Vec<bool>,
    stream_ings: Vec<StreamIng>,
    x: Extras,
}

fn settings_for(p: &Plan) -> String {
    let mut s: Value = serde_json::from_str(&base_settings()).unwrap();
    if !p.x.xa.is_empty() || p.x.xt > 0 {
        let mut a = json!({});
        if !p.x.xa.is_empty() {
            a["actions"] = Value::Array(p.x.xa.iter().map(|n| if *n == "c2pa.created" { json!({"action": n, "source_type": "http://cv.iptc.org/newscodes/digitalsourcetype/digitalCapture"}) } else { json!({"action": n}) }).collect());
        }
        if p.x.xt > 0 {
            a["templates"] = Value::Array((0..p.x.xt).map(|k| json!({"action": "c2pa.edited", "description": format!("verif template {k}")})).collect());
        }
        s["builder"] = json!({"actions": a});
    }
    s.to_string()
}

fn thumb_bytes(k: usize) -> Vec<u8> {
    // distinct small JPEG-looking resources (only compared by content)
    let mut b = std::fs::read(fixtures().join("thumbnail.jpg")).unwrap_or_else(|_| vec![0xff, 0xd8, 0xff, 0xe0, 0, 4, 1, 2, 0xff, 0xd9]);
    b.truncate(b.len().min(4000));
    b.extend_from_slice(&[0xff, 0xfe, 0, 3, k as u8]);
    b.extend_from_slice(&[0xff, 0xd9]);
    b
}

fn definition_of(p: &Plan) -> Value {
    let mut d = definition_json(&p.supplied);
    if let Some(a) = d["assertions"].as_array_mut() {
        for (i, x) in a.iter_mut().enumerate() {
            if p.created.get(i).copied().unwrap_or(false) {
                x["created"] = json!(true);
            }
        }
    }
    if let Some(raw) = &p.x.raw_assertions {
        d["assertions"] = Value::Array(raw.clone());
    }
    if p.x.icon {
        d["claim_generator_info"][0]["icon"] = json!({"format": "image/jpeg", "identifier": "verif-icon.jpg"});
    }
    for (k, t) in p.x.def_ing_thumb.iter().enumerate() {
        if *t && d["ingredients"].get(k).is_some() {
            d["ingredients"][k]["thumbnail"] = json!({"format": "image/jpeg", "identifier": format!("verif-dthumb-{k}.jpg")});
        }
    }
    if !p.x.redact.is_empty() {
        d["redactions"] = json!(p.x.redact);
    }
    d
}

fn build(p: &Plan, settings: &str) -> c2pa::Result<Builder> {
    let ctx = Context::new().with_settings(settings)?;
    let mut b = Builder::from_context(ctx).with_definition(definition_of(p).to_string().as_str())?;
    if let Some((_, bytes)) = &p.supplied.thumbnail {
        b.add_resource("verif-thumb.jpg", Cursor::new(bytes.clone()))?;
    }
    if p.x.icon {
        b.add_resource("verif-icon.jpg", Cursor::new(thumb_bytes(200)))?;
    }
    for (k, t) in p.x.def_ing_thumb.iter().enumerate() {
        if *t && k < p.supplied.ingredients.len() {
            b.add_resource(&format!("verif-dthumb-{k}.jpg"), Cursor::new(thumb_bytes(100 + k)))?;
        }
    }
    match p.x.intent {
        Some("create") => {
            b.set_intent(BuilderIntent::Create(c2pa::DigitalSourceType::DigitalCapture));
        }
        Some("edit") => {
            b.set_intent(BuilderIntent::Edit);
        }
        _ => {}
    }
    if p.x.no_embed {
        b.set_no_embed(true);
    }
    if p.x.remote {
        b.set_remote_url("http://verif.invalid/manifest.c2pa");
    }
    for (k, ing) in p.stream_ings.iter().enumerate() {
        // a fixed instance id: `from_stream` would otherwise draw a random one per build, and the
        // direct and the restored signing come from two builds of the same plan
        let mut j = json!({"title": ing.title, "relationship": ing.relationship, "instance_id": format!("xmp:iid:verif-stream-{k}")});
        if ing.user_thumb {
            b.add_resource(&format!("verif-sthumb-{k}.jpg"), Cursor::new(thumb_bytes(k)))?;
            j["thumbnail"] = json!({"format": "image/jpeg", "identifier": format!("verif-sthumb-{k}.jpg")});
        }
        b.add_ingredient_from_stream(j.to_string(), &ing.format, &mut Cursor::new(ing.data.clone()))?;
    }
    Ok(b)
}

fn roundtrip(b: Builder, settings: &str) -> c2pa::Result<Builder> {
    let mut ar = Cursor::new(Vec::new());
    b.to_archive(&mut ar)?;
    ar.set_position(0);
    let ctx = Context::new().with_settings(settings)?;
    Builder::from_context(ctx).with_archive(ar)
}

fn sign_builder(mut b: Builder, fmt: &str, src: &[u8], signer_alg: &str) -> c2pa::Result<(Vec<u8>, Vec<u8>)> {
    let mut out = Cursor::new(Vec::new());
    let m = if signer_alg == "ephemeral" {
        let signer = c2pa::EphemeralSigner::new("verif.test")?;
        b.sign(&signer, fmt, &mut Cursor::new(src.to_vec()), &mut out)?
    } else {
        let signer = test_signer(signer_alg)?;
        b.sign(signer.as_ref(), fmt, &mut Cursor::new(src.to_vec()), &mut out)?
    };
    Ok((out.into_inner(), m))
}

fn err_class(e: &c2pa::Error) -> String {
    match e {
        c2pa::Error::BadParam(_) => "badparam".into(),
        c2pa::Error::AssertionRedactionNotFound => "redactionnotfound".into(),
        c2pa::Error::AssertionInvalidRedaction => "invalidredaction".into(),
        c2pa::Error::OtherError(x) if x.to_string().contains("version too new") => "versiontoonew".into(),
        other => {
            let s = format!("{other:?}");
            format!("other-{}", s.split(|c: char| !c.is_ascii_alphanumeric()).next().unwrap_or("x"))
        }
    }
}

// ---------------------------------------------------------------------------------------------
// abstraction shared by request and reply

#[derive(Default)]
struct Names {
    labels: Vec<String>,
}

impl Names {
    fn name(&mut self, label: &str) -> String {
        if let Some(i) = self.labels.iter().position(|l| l == label) {
            return format!("m{i}");
        }
        self.labels.push(label.to_string());
        format!("m{}", self.labels.len() - 1)
    }
}

fn asn_label_with_instance(a: &Value) -> String {
    let l = a["label"].as_str().unwrap_or("?");
    match a.get("instance").and_then(|x| x.as_u64()) {
        Some(n) if n > 0 => format!("{l}__{n}"),
        _ => l.to_string(),
    }
}

/// one manifest of a store as the model's `Man`: name!version!thumb!links!assertion labels
fn man_token(label: &str, m: &Value, names: &mut Names) -> (String, String) {
    let name = names.name(label);
    let ver = if label.contains("urn:c2pa:") { 2 } else { 1 };
    let thumb = m.get("thumbnail").is_some();
    let mut links = vec![];
    for i in m["ingredients"].as_array().into_iter().flatten() {
        if let Some(a) = i.get("active_manifest").and_then(|x| x.as_str()) {
            let via_active = i.get("label").and_then(|x| x.as_str()).map(|l| l.starts_with("c2pa.ingredient.v3")).unwrap_or(false);
            links.push(format!("{}{}", if via_active { "a" } else { "c" }, names.name(a)));
        }
    }
    let asns: Vec<String> = m["assertions"].as_array().into_iter().flatten().map(asn_label_with_instance).collect();
    let tok = format!("{name}!{ver}!{}!{}!{}", if thumb { 1 } else { 0 }, if links.is_empty() { "-".into() } else { links.join("~") }, if asns.is_empty() { "-".into() } else { asns.join("~") });
    (name, tok)
}

fn store_tokens(bytes: &[u8], names: &mut Names, settings: &str) -> String {
    let ctx = match Context::new().with_settings(settings) {
        Ok(c) => c,
        Err(_) => return "unreadable".into(),
    };
    let r = match Reader::from_context(ctx).with_stream("application/c2pa", Cursor::new(bytes.to_vec())) {
        Ok(r) => r,
        Err(e) => return format!("unreadable-{}", err_class(&e)),
    };
    let v: Value = serde_json::from_str(&r.json()).unwrap_or(Value::Null);
    // name the active manifest first so that names do not depend on hash-map order
    let active = v["active_manifest"].as_str().unwrap_or("").to_string();
    names.name(&active);
    let mut labels: Vec<String> = v["manifests"].as_object().map(|m| m.keys().cloned().collect()).unwrap_or_default();
    labels.sort();
    let mut toks: Vec<(String, String)> = labels.iter().map(|l| man_token(l, &v["manifests"][l], names)).collect();
    toks.sort();
    toks.into_iter().map(|t| t.1).collect::<Vec<_>>().join("+")
}

fn actions_of(a: &Value) -> (String, usize) {
    let acts: Vec<String> = a["data"]["actions"].as_array().into_iter().flatten().map(|x| x["action"].as_str().unwrap_or("?").to_string()).collect();
    let nt = a["data"].get("templates").and_then(|t| t.as_array()).map(|t| t.len()).unwrap_or(0);
    (if acts.is_empty() { "-".into() } else { acts.join("+") }, nt)
}

fn asn_token(a: &Value) -> String {
    let l = a["label"].as_str().unwrap_or("?");
    let (acts, nt) = if l.starts_with("c2pa.actions") { actions_of(a) } else { ("-".into(), 0) };
    format!(
        "{l}:{}:{}:{acts}:{nt}",
        if a.get("kind").and_then(|k| k.as_str()) == Some("Json") { "j" } else { "c" },
        if a.get("created").and_then(|k| k.as_bool()).unwrap_or(false) { "c" } else { "g" }
    )
}

fn redaction_token(uri: &str, names: &mut Names) -> String {
    // self#jumbf=/c2pa/<label>/c2pa.assertions/<assertion>
    let rest = uri.trim_start_matches("self#jumbf=/c2pa/");
    match rest.split_once("/c2pa.assertions/") {
        Some((l, a)) => format!("{}!{a}", names.name(l)),
        None => format!("?{uri}"),
    }
}

fn gens_token(d: &Value) -> String {
    let g = d["claim_generator_info"].as_array().cloned().unwrap_or_default();
    format!("{}.{}", g.len(), if g.first().map(|x| x.get("org.contentauth.c2pa_rs").is_some()).unwrap_or(false) { 1 } else { 0 })
}

fn state_of(r: Option<c2pa::ValidationState>) -> &'static str {
    match r {
        None => "-",
        Some(c2pa::ValidationState::Invalid) => "i",
        Some(_) => "v",
    }
}

/// the state line of a builder (request body and `chain` reply)
fn abstract_builder(b: &Builder, names: &mut Names, settings: &str) -> String {
    let v: Value = serde_json::from_str(&b.to_string()).unwrap_or(Value::Null);
    let mut ing = vec![];
    for (k, i) in b.definition.ingredients.iter().enumerate() {
        let j = &v["ingredients"][k];
        let active = i.active_manifest().map(|a| a.to_string());
        let thumb = match i.thumbnail_ref() {
            None => "-".to_string(),
            Some(t) if t.identifier.starts_with("self#jumbf=") => {
                if active.as_deref().map(|a| t.identifier.contains(a)).unwrap_or(false) {
                    if t.hash.is_some() { "ownh".into() } else { "own".into() }
                } else {
                    "outer".into()
                }
            }
            Some(_) => "res".into(),
        };
        let store = match i.manifest_data() {
            Some(d) => {
                if let Some(a) = &active {
                    names.name(a);
                }
                store_tokens(&d, names, settings)
            }
            None => "-".into(),
        };
        let label = match j.get("label").and_then(|x| x.as_str()) {
            None => "-".to_string(),
            Some(l) => match l.split_once("__") {
                Some((base, n)) => format!("{base}#{n}"),
                None => format!("{l}#0"),
            },
        };
        ing.push(format!(
            "{}/{thumb}/{}/{}/{}/{label}/{store}",
            j["relationship"].as_str().unwrap_or("componentOf"),
            state_of(i.validation_results().map(|r| r.validation_state())),
            i.validation_status().map(|s| s.len()).unwrap_or(0),
            active.as_deref().map(|a| names.name(a)).unwrap_or("-".into()),
        ));
    }
    let asn: Vec<String> = v["assertions"].as_array().into_iter().flatten().map(asn_token).collect();
    let red = match v.get("redactions").and_then(|r| r.as_array()) {
        None => "-".to_string(),
        Some(r) if r.is_empty() => "none".into(),
        Some(r) => r.iter().map(|u| redaction_token(u.as_str().unwrap_or(""), names)).collect::<Vec<_>>().join(","),
    };
    let intent = match v.get("intent") {
        None | Some(Value::Null) => "-".to_string(),
        Some(Value::String(s)) => s.clone(),
        Some(Value::Object(o)) => o.keys().next().cloned().unwrap_or("-".into()),
        _ => "?".into(),
    };
    format!(
        "v={} title={} thumb={} gens={} alg={} intent={intent} noembed={} remote={} label={} red={red} asn={} ing={}",
        v.get("claim_version").and_then(|x| x.as_u64()).unwrap_or(2),
        if v.get("title").map(|t| !t.is_null()).unwrap_or(false) { 1 } else { 0 },
        v.get("thumbnail").and_then(|t| t.get("format")).and_then(|f| f.as_str()).unwrap_or("-"),
        gens_token(&v),
        v.get("hash_alg").and_then(|x| x.as_str()).unwrap_or("-"),
        if v.get("no_embed").and_then(|x| x.as_bool()).unwrap_or(false) { 1 } else { 0 },
        if v.get("remote_url").map(|t| !t.is_null()).unwrap_or(false) { 1 } else { 0 },
        if v.get("label").map(|t| !t.is_null()).unwrap_or(false) { 1 } else { 0 },
        if asn.is_empty() { "-".to_string() } else { asn.join(",") },
        if ing.is_empty() { "-".to_string() } else { ing.join(";") },
    )
}

fn resolve(reader: &Reader, id: &str) -> Result<Vec<u8>, String> {
    let mut out = Cursor::new(Vec::new());
    reader.resource_to_stream(id, &mut out).map(|_| out.into_inner()).map_err(|e| err_class(&e))
}

/// what was signed: the asset, the manifest bytes `sign` returned
struct SignedOut {
    asset: Vec<u8>,
    manifest: Vec<u8>,
}

struct ReadOut {
    state: String,
    rep: Value,
    reader: Reader,
    embedded: bool,
    remote: bool,
}

fn read_signed(fmt: &str, s: &SignedOut, src: &[u8], settings: &str) -> Result<ReadOut, String> {
    let ctx = || Context::new().with_settings(settings).map_err(|e| format!("{e:?}"));
    match Reader::from_context(ctx()?).with_stream(fmt, Cursor::new(s.asset.clone())) {
        Ok(r) => {
            let rep: Value = serde_json::from_str(&r.json()).map_err(|e| e.to_string())?;
            Ok(ReadOut { state: format!("{:?}", r.validation_state()), rep, embedded: r.is_embedded(), remote: r.remote_url().is_some(), reader: r })
        }
        Err(e) => {
            // no embedded manifest: read the returned manifest bytes against the signed asset
            let remote = matches!(e, c2pa::Error::RemoteManifestUrl(_));
            let _ = src;
            let r = Reader::from_context(ctx()?)
                .with_manifest_data_and_stream(&s.manifest, fmt, Cursor::new(s.asset.clone()))
                .map_err(|e2| format!("embedded read: {e:?}; manifest-bytes read: {e2:?}"))?;
            let rep: Value = serde_json::from_str(&r.json()).map_err(|e| e.to_string())?;
            Ok(ReadOut { state: format!("{:?}", r.validation_state()), rep, embedded: false, remote, reader: r })
        }
    }
}

/// the `sign` reply: the model's `reportStr`
fn abstract_report(ro: &ReadOut, names: &mut Names) -> String {
    let rep = &ro.rep;
    let active = rep["active_manifest"].as_str().unwrap_or("").to_string();
    let m = &rep["manifests"][&active];
    let asn: Vec<String> = m["assertions"].as_array().into_iter().flatten().map(|a| format!("{}#{}", asn_token(a), a.get("instance").and_then(|x| x.as_u64()).unwrap_or(0))).collect();
    let mut ing = vec![];
    for (k, i) in m["ingredients"].as_array().into_iter().flatten().enumerate() {
        let act = i.get("active_manifest").and_then(|x| x.as_str());
        let label = match i.get("label").and_then(|x| x.as_str()).unwrap_or("?").split_once("__") {
            Some((b, n)) => format!("{b}#{n}"),
            None => format!("{}#0", i.get("label").and_then(|x| x.as_str()).unwrap_or("?")),
        };
        let typed = ro.reader.active_manifest().and_then(|am| am.ingredients().get(k));
        let results = state_of(typed.and_then(|t| t.validation_results()).map(|r| r.validation_state()));
        let nst = i.get("validation_status").and_then(|s| s.as_array()).map(|s| s.len()).unwrap_or(0);
        let thumb = match i.get("thumbnail").and_then(|t| t.get("identifier")).and_then(|x| x.as_str()) {
            None => "-".to_string(),
            Some(id) => match resolve(&ro.reader, id) {
                Err(e) => format!("unresolved-{e}"),
                Ok(bytes) => {
                    let own = act.and_then(|a| rep["manifests"][a].get("thumbnail")).and_then(|t| t.get("identifier")).and_then(|x| x.as_str()).and_then(|oid| resolve(&ro.reader, oid).ok());
                    if own.as_deref() == Some(bytes.as_slice()) { "own".into() } else { "img".into() }
                }
            },
        };
        ing.push(format!("{}/{label}/{}/{results}/{nst}/{thumb}", i["relationship"].as_str().unwrap_or("componentOf"), act.map(|a| names.name(a)).unwrap_or("-".into())));
    }
    let red: Vec<String> = m.get("redactions").and_then(|r| r.as_array()).into_iter().flatten().map(|u| redaction_token(u.as_str().unwrap_or(""), names)).collect();
    let mut labels: Vec<String> = rep["manifests"].as_object().map(|x| x.keys().filter(|k| **k != active).cloned().collect()).unwrap_or_default();
    labels.sort();
    let mut mans: Vec<(String, String)> = labels.iter().map(|l| man_token(l, &rep["manifests"][l], names)).collect();
    mans.sort();
    format!(
        "v={} title={} thumb={} gens={} embedded={} remote={} red={} asn={} ing={} mans={}",
        if active.contains("urn:c2pa:") { 2 } else { 1 },
        if m.get("title").is_some() { 1 } else { 0 },
        m.get("thumbnail").and_then(|t| t.get("format")).and_then(|f| f.as_str()).unwrap_or("-"),
        gens_token(m),
        if ro.embedded { 1 } else { 0 },
        if ro.remote { 1 } else { 0 },
        if red.is_empty() { "-".to_string() } else { red.join(",") },
        if asn.is_empty() { "-".to_string() } else { asn.join(",") },
        if ing.is_empty() { "-".to_string() } else { ing.join(";") },
        if mans.is_empty() { "-".to_string() } else { mans.into_iter().map(|t| t.1).collect::<Vec<_>>().join("+") },
    )
}

// ---------------------------------------------------------------------------------------------
// oracle: complete comparison of the two reports

/// What two signings of the same content necessarily differ in: the active manifest's label
/// (wherever it occurs), its `instance_id`, times, hashes and signature members. Resource
/// identifiers are replaced by the digest of the bytes they resolve to.
fn normalise_report(ro: &ReadOut) -> Value {
    let active = ro.rep.get("active_manifest").and_then(|x| x.as_str()).unwrap_or("").to_string();
    fn go(v: &Value, active: &str, reader: &Reader, top_active: bool) -> Value {
        match v {
            Value::Object(m) => {
                let mut o = serde_json::Map::new();
                for (k, x) in m {
                    let k2 = if active.is_empty() { k.clone() } else { k.replace(active, "<active>") };
                    if ["time", "hash", "cert_serial_number", "signature", "validationTime", "pad", "pad2"].contains(&k.as_str()) {
                        o.insert(k2, Value::String("<volatile>".into()));
                    } else if k == "instance_id" && top_active {
                        o.insert(k2, Value::String("<instance-id>".into()));
                    } else if k == "identifier" && x.is_string() && m.contains_key("format") {
                        let id = x.as_str().unwrap_or("");
                        let d = match resolve(reader, id) {
                            Ok(b) => format!("bytes:{}:{}", b.len(), hex(&defgen::sha("sha256", &[&b])[..8])),
                            Err(e) => format!("unresolvable:{e}"),
                        };
                        o.insert(k2, Value::String(d));
                    } else {
                        o.insert(k2, go(x, active, reader, k == active));
                    }
                }
                Value::Object(o)
            }
            Value::Array(a) => Value::Array(a.iter().map(|x| go(x, active, reader, false)).collect()),
            Value::String(s) => Value::String(if active.is_empty() { s.clone() } else { s.replace(active, "<active>") }),
            other => other.clone(),
        }
    }
    let mut v = go(&ro.rep, &active, &ro.reader, false);
    // The success / informational lists of the active manifest enumerate the hashed URIs of the
    // new claim's own boxes in claim order. Where an ingredient thumbnail is *stored* (referenced
    // in the ingredient's manifest, or copied into a `c2pa.thumbnail.ingredient` assertion / data
    // box of the new claim) is not content — the bytes are compared through the identifier
    // digests above — so the entries about such copies are left out and the lists are compared
    // as multisets. The failure list and everything about ingredients is compared as it is.
    if let Some(am) = v.get_mut("validation_results").and_then(|r| r.get_mut("activeManifest")).and_then(|a| a.as_object_mut()) {
        for k in ["success", "informational"] {
            if let Some(list) = am.get_mut(k).and_then(|l| l.as_array_mut()) {
                list.retain(|e| {
                    let u = e.get("url").and_then(|u| u.as_str()).unwrap_or("");
                    !(u.contains("/c2pa.assertions/c2pa.thumbnail.ingredient") || u.contains("/c2pa.databoxes/"))
                });
                list.sort_by_key(canon_json);
            }
        }
    }
    v
}

/// every differing path between two JSON values
fn all_diffs(a: &Value, b: &Value, path: &str, out: &mut Vec<(String, String)>) {
    let short = |v: &Value| {
        let s = v.to_string();
        s.chars().take(140).collect::<String>()
    };
    match (a, b) {
        (Value::Object(x), Value::Object(y)) => {
            for (k, v) in x {
                match y.get(k) {
                    None => out.push((format!("{path}/{k}"), format!("only in direct ({})", short(v)))),
                    Some(w) => all_diffs(v, w, &format!("{path}/{k}"), out),
                }
            }
            for (k, v) in y {
                if !x.contains_key(k) {
                    out.push((format!("{path}/{k}"), format!("only in restored ({})", short(v))));
                }
            }
        }
        (Value::Array(x), Value::Array(y)) => {
            if x.len() != y.len() {
                out.push((path.to_string(), format!("array length {} vs {} (direct {} restored {})", x.len(), y.len(), short(a), short(b))));
            }
            for (i, (v, w)) in x.iter().zip(y.iter()).enumerate() {
                all_diffs(v, w, &format!("{path}[{i}]"), out);
            }
        }
        _ => {
            if canon_json(a) != canon_json(b) {
                out.push((path.to_string(), format!("direct {} vs restored {}", short(a), short(b))));
            }
        }
    }
}

/// independent of the model: do assertions whose labels contain one another sit in different
/// created/gathered classes? (then `Claim::next_instance` numbers them differently after the
/// created-first reordering of a restored builder)
fn plan_mixes_related_labels(p: &Plan) -> bool {
    if p.supplied.claim_version < 2 {
        return false;
    }
    let norm = |l: &str| if l.starts_with("c2pa.actions") { "c2pa.actions.v2".to_string() } else { l.to_string() };
    let items: Vec<(String, bool)> = match &p.x.raw_assertions {
        Some(raw) => raw.iter().map(|a| (norm(a["label"].as_str().unwrap_or("")), a.get("created").and_then(|c| c.as_bool()).unwrap_or(false))).collect(),
        None => p.supplied.assertions.iter().enumerate().map(|(i, a)| (norm(&a.0), p.created.get(i).copied().unwrap_or(false) && a.0 != "stds.schema-org.CreativeWork")).collect(),
    };
    for (i, a) in items.iter().enumerate() {
        for (j, b) in items.iter().enumerate() {
            if i != j && a.1 != b.1 && b.0.contains(&a.0) {
                return true;
            }
        }
    }
    false
}

fn main() {
    main_with("C22", run);
}

#[derive(Default)]
struct Outcome {
    direct_signed: bool,
    archived: bool,
    restored_signed: bool,
    classes: Vec<String>,
}

fn one_case(run: &mut Run, plan: &Plan, fmt: &str, src: &[u8], signer: &str, n: usize, tag: &str) -> Outcome {
    let mut oc = Outcome::default();
    let settings = settings_for(plan);
    let key = format!(
        "{tag} fmt={fmt} signer={signer} chain={n} v={} alg={:?} n_asn={} def_ing={} stream_ing={:?} thumb={} xa={:?} xt={} intent={:?} noembed={} remote={} red={} icon={}",
        plan.supplied.claim_version,
        plan.supplied.hash_alg,
        plan.supplied.assertions.len(),
        plan.supplied.ingredients.len(),
        plan.stream_ings.iter().map(|i| format!("{}{}", i.kind, if i.user_thumb { "+thumb" } else { "" })).collect::<Vec<_>>(),
        plan.supplied.thumbnail.is_some(),
        plan.x.xa,
        plan.x.xt,
        plan.x.intent,
        plan.x.no_embed,
        plan.x.remote,
        plan.x.redact.len(),
        plan.x.icon
    );
    run.count(&format!("chain:{n}"));
    run.count(&format!("claim_version:{}", plan.supplied.claim_version));
    for i in &plan.stream_ings {
        run.count(&format!("stream-ingredient:{}{}", i.kind, if i.user_thumb { "+user-thumbnail" } else { "" }));
    }
    for (f, on) in [("redaction", !plan.x.redact.is_empty()), ("settings-actions", !plan.x.xa.is_empty() || plan.x.xt > 0), ("intent", plan.x.intent.is_some()), ("no-embed/remote", plan.x.no_embed || plan.x.remote), ("generator-icon", plan.x.icon), ("definition-ingredient-thumbnail", plan.x.def_ing_thumb.iter().any(|t| *t))] {
        if on {
            run.count(&format!("feature:{f}"));
        }
    }
    let mut names = Names::default();
    // the original builder, abstracted (request body)
    let (p0, s0) = (plan.clone(), settings.clone());
    let state0 = match guarded(move || build(&p0, &s0)) {
        Ok(Ok(b)) => abstract_builder(&b, &mut names, &settings),
        Ok(Err(e)) => {
            run.count("skipped:builder-not-constructed");
            run.notes.push(format!("{key}: builder not constructed ({}); not a C22 case", err_class(&e)));
            return oc;
        }
        Err(p) => {
            let idx = run.reqs.len().saturating_sub(1);
            run.fail(idx, "panic", format!("{key}: building panicked: {p}"));
            return oc;
        }
    };
    let tail = format!("{state0} xa={} xt={}", if plan.x.xa.is_empty() { "-".to_string() } else { plan.x.xa.join("+") }, plan.x.xt);
    // (a) direct
    let (p2, s2, src2, f2, sg2) = (plan.clone(), settings.clone(), src.to_vec(), fmt.to_string(), signer.to_string());
    let direct = guarded(move || build(&p2, &s2).and_then(|b| sign_builder(b, &f2, &src2, &sg2)));
    let direct = match direct {
        Ok(Ok(x)) => SignedOut { asset: x.0, manifest: x.1 },
        Ok(Err(e)) => {
            let es = format!("{e:?}");
            run.count("skipped:original-builder-does-not-sign");
            run.count(&format!("skipped:original-builder-does-not-sign:{}", err_class(&e)));
            run.notes.push(format!("{key}: the original builder does not sign ({}); not a C22 case", &es[..es.len().min(120)]));
            return oc;
        }
        Err(p) => {
            let idx = run.reqs.len().saturating_sub(1);
            run.fail(idx, "panic", format!("{key}: direct signing panicked: {p}"));
            return oc;
        }
    };
    oc.direct_signed = true;
    let d = match read_signed(fmt, &direct, src, &settings) {
        Ok(d) => d,
        Err(e) => {
            let idx = run.reqs.len().saturating_sub(1);
            run.fail(idx, "signed-asset-unreadable", format!("{key}: direct: {e}"));
            return oc;
        }
    };
    if d.state == "Invalid" {
        run.count("skipped:original-signs-to-an-invalid-manifest");
        run.notes.push(format!("{key}: the original builder signs to an Invalid manifest; not a C22 case"));
        return oc;
    }
    run.case(format!("C22 sign n=0 {tail}"), abstract_report(&d, &mut names));
    // (b) through the chain
    let (p3, s3) = (plan.clone(), settings.clone());
    let restored = guarded(move || {
        let mut b = build(&p3, &s3)?;
        for _ in 0..n {
            b = roundtrip(b, &s3)?;
        }
        Ok::<Builder, c2pa::Error>(b)
    });
    let restored = match restored {
        Err(p) => {
            let idx = run.case(format!("C22 chain n={n} {tail}"), "panic".into());
            run.fail(idx, "panic", format!("{key}: archive round trip panicked: {p}"));
            return oc;
        }
        Ok(Err(e)) => {
            let c = err_class(&e);
            let idx = run.case(format!("C22 chain n={n} {tail}"), format!("err:{c}"));
            let es = format!("{e:?}");
            let class = if plan.x.intent == Some("edit") && !plan.stream_ings.iter().any(|i| i.relationship == "parentOf") && c == "badparam" {
                // the premise of the property (an archive the builder wrote) is not met
                run.count("archive-not-written:edit-intent-without-parent");
                run.notes.push(format!("{key}: Builder::sign takes the source asset as parent, Builder::to_archive fails ({})", &es[..es.len().min(160)]));
                return oc;
            } else if !plan.x.redact.is_empty() && c == "redactionnotfound" && n >= 2 {
                "restored-sign-failed-redaction-reapplied"
            } else {
                "restore-failed"
            };
            run.fail(idx, class, format!("{key}: to_archive/with_archive failed: {}", &es[..es.len().min(300)]));
            oc.classes.push(class.into());
            return oc;
        }
        Ok(Ok(b)) => b,
    };
    oc.archived = true;
    let idx = run.case(format!("C22 chain n={n} {tail}"), abstract_builder(&restored, &mut names, &settings));
    let (f4, src4, sg4) = (fmt.to_string(), src.to_vec(), signer.to_string());
    let via = match guarded(std::panic::AssertUnwindSafe(move || sign_builder(restored, &f4, &src4, &sg4))) {
        Ok(Ok(x)) => SignedOut { asset: x.0, manifest: x.1 },
        Ok(Err(e)) => {
            let c = err_class(&e);
            run.case(format!("C22 sign n={n} {tail}"), format!("signerr:{c}"));
            let es = format!("{e:?}");
            let two_actions_reordered = plan.x.raw_assertions.as_ref().map(|r| r.iter().filter(|a| a["label"].as_str().unwrap_or("").starts_with("c2pa.actions")).count() >= 2).unwrap_or(false);
            let class = if !plan.x.redact.is_empty() && c == "redactionnotfound" {
                "restored-sign-failed-redaction-reapplied"
            } else if two_actions_reordered && c == "badparam" {
                "restored-sign-failed-actions-reordered"
            } else {
                "restored-sign-failed"
            };
            run.fail(idx, class, format!("{key}: the original builder signs, the restored one does not: {}", &es[..es.len().min(300)]));
            oc.classes.push(class.into());
            return oc;
        }
        Err(p) => {
            run.fail(idx, "panic", format!("{key}: signing the restored builder panicked: {p}"));
            return oc;
        }
    };
    oc.restored_signed = true;
    let r = match read_signed(fmt, &via, src, &settings) {
        Ok(r) => r,
        Err(e) => {
            run.fail(idx, "signed-asset-unreadable", format!("{key}: restored: {e}"));
            return oc;
        }
    };
    run.case(format!("C22 sign n={n} {tail}"), abstract_report(&r, &mut names));
    let mut ok = true;
    let mut fail = |run: &mut Run, class: &str, detail: String, oc: &mut Outcome| {
        run.fail(idx, class, detail);
        oc.classes.push(class.to_string());
    };
    if d.state != r.state {
        ok = false;
        fail(run, "restored-state-differs", format!("{key}: direct {}, restored {}", d.state, r.state), &mut oc);
    }
    if d.embedded != r.embedded || d.remote != r.remote {
        ok = false;
        let class = if plan.x.no_embed || plan.x.remote { "restored-embedding-mode-differs" } else { "restored-report-differs" };
        fail(run, class, format!("{key}: direct embedded={} remote-url={}, restored embedded={} remote-url={}", d.embedded, d.remote, r.embedded, r.remote), &mut oc);
    }
    // complete comparison, then attribution of the differing paths
    let mut diffs = vec![];
    all_diffs(&normalise_report(&d), &normalise_report(&r), "", &mut diffs);
    if std::env::var("C22_DEBUG").map(|t| t == tag).unwrap_or(false) {
        for (w, x) in [("direct", &d), ("restored", &r)] {
            let v = normalise_report(x);
            eprintln!("== {w} success");
            for e in v["validation_results"]["activeManifest"]["success"].as_array().into_iter().flatten() {
                eprintln!("   {} {}", e["code"], e["url"]);
            }
            eprintln!("== {w} assertions {:?}", v["manifests"]["<active>"]["assertions"].as_array().map(|a| a.iter().map(|x| format!("{}#{}:{}", x["label"], x.get("instance").map(|i| i.to_string()).unwrap_or_default(), x.get("created").map(|i| i.to_string()).unwrap_or_default())).collect::<Vec<_>>()));
        }
    }
    let active_path = "/manifests/<active>";
    let ing_thumb_path = |p: &str| p.starts_with(&format!("{active_path}/ingredients[")) && p.contains("]/thumbnail");
    let signed_valid_ing = plan.stream_ings.iter().any(|i| matches!(i.kind, "signed" | "nested"));
    let signed_ing_user_thumb = plan.stream_ings.iter().any(|i| i.user_thumb && i.kind != "unsigned");
    let mixes = plan_mixes_related_labels(plan);
    let archive_label = plan.x.raw_assertions.is_none() && plan.supplied.assertions.iter().any(|a| a.0.starts_with("org.contentauth.archive.metadata"));
    let mut by_class: Vec<(&'static str, Vec<String>)> = vec![];
    let mut push = |class: &'static str, d: String| match by_class.iter_mut().find(|x| x.0 == class) {
        Some(x) => x.1.push(d),
        None => by_class.push((class, vec![d])),
    };
    for (p, what) in &diffs {
        let line = format!("{p}: {what}");
        let class: &'static str = if ing_thumb_path(p) && signed_ing_user_thumb {
            "restored-ingredient-user-thumbnail-replaced"
        } else if ing_thumb_path(p) && plan.supplied.claim_version == 1 && n >= 2 && signed_valid_ing {
            "restored-ingredient-thumbnail-differs-v1-claim"
        } else if (!plan.x.xa.is_empty() || plan.x.xt > 0) && p.starts_with(&format!("{active_path}/assertions[")) && (p.contains("]/data/actions") || p.contains("]/data/templates")) {
            "restored-settings-actions-duplicated"
        } else if archive_label && (p.starts_with(&format!("{active_path}/assertions")) || p.starts_with("/validation_results/activeManifest/success")) {
            "restored-archive-label-assertion-dropped"
        } else if mixes && (p.ends_with("/instance") || ((p.starts_with("/validation_results/activeManifest/success[") || p.starts_with("/validation_results/activeManifest/informational[")) && (p.ends_with("/url") || p.ends_with("/explanation"))) || (p.starts_with(&format!("{active_path}/assertions[")) && p.ends_with("/label"))) {
            "restored-assertion-instances-differ"
        } else {
            "restored-report-differs"
        };
        push(class, line);
    }
    for (class, lines) in by_class {
        ok = false;
        let shown: Vec<String> = lines.iter().take(6).cloned().collect();
        fail(run, class, format!("{key}: {} differing path(s): {}", lines.len(), shown.join(" | ")), &mut oc);
    }
    // the restored signing must itself reflect the definition (C03 oracle), for plans the C03
    // oracle describes (no extras that change the assertion payloads)
    if plan.x.raw_assertions.is_none() && plan.x.xa.is_empty() && plan.x.xt == 0 && plan.x.intent.is_none() && plan.x.redact.is_empty() && !archive_label {
        let mut expect = plan.supplied.clone();
        if expect.claim_version >= 2 {
            let flags: Vec<bool> = (0..expect.assertions.len()).map(|i| plan.created.get(i).copied().unwrap_or(false) && expect.assertions[i].0 != "stds.schema-org.CreativeWork").collect();
            let mut ordered = vec![];
            for want in [true, false] {
                for (i, a) in expect.assertions.iter().enumerate() {
                    if flags[i] == want {
                        ordered.push(a.clone());
                    }
                }
            }
            expect.assertions = ordered;
        }
        let active = r.rep.get("active_manifest").and_then(|x| x.as_str()).unwrap_or("").to_string();
        let n_rep = r.rep["manifests"][&active]["ingredients"].as_array().map(|a| a.len()).unwrap_or(0);
        if n_rep != plan.supplied.ingredients.len() + plan.stream_ings.len() {
            ok = false;
            fail(run, "report-ingredient-count-differs", format!("{key}: supplied {} reported {n_rep}", plan.supplied.ingredients.len() + plan.stream_ings.len()), &mut oc);
        }
        // compare_report describes definition-only ingredients without thumbnails
        let mut rep1b = r.rep.clone();
        if !plan.stream_ings.is_empty() || plan.x.def_ing_thumb.iter().any(|t| *t) {
            expect.ingredients.clear();
            rep1b["manifests"][&active]["ingredients"] = json!([]);
        }
        if plan.x.icon {
            if let Some(g) = rep1b["manifests"][&active]["claim_generator_info"][0].as_object_mut() {
                g.remove("icon");
            }
        }
        for (class, detail) in compare_report(&expect, &rep1b, &r.reader) {
            ok = false;
            fail(run, class, format!("{key} (restored): {detail}"), &mut oc);
        }
    }
    // hash algorithm of the claim (not part of the reported content; recorded, see notes)
    if let (Ok((alg0, _)), Ok((alg1, _))) = (c2pa::verif_hooks::c03::active_data_hashes(&direct.manifest), c2pa::verif_hooks::c03::active_data_hashes(&via.manifest)) {
        if alg0 != alg1 {
            run.count("hash_alg-not-restored");
        } else {
            run.count("hash_alg-same");
        }
    }
    if ok {
        run.nontrivial(key);
    }
    oc
}

fn pool_info(data: &[u8], fmt: &str) -> (Option<(String, Vec<String>)>, u8) {
    let ctx = match Context::new().with_settings(base_settings().as_str()) {
        Ok(c) => c,
        Err(_) => return (None, 0),
    };
    match Reader::from_context(ctx).with_stream(fmt, Cursor::new(data.to_vec())) {
        Ok(r) => {
            let v: Value = serde_json::from_str(&r.json()).unwrap_or(Value::Null);
            let a = v["active_manifest"].as_str().unwrap_or("").to_string();
            let asns = v["manifests"][&a]["assertions"].as_array().into_iter().flatten().map(asn_label_with_instance).collect();
            let cv = if a.contains("urn:c2pa:") { 2 } else { 1 };
            (Some((a, asns)), cv)
        }
        Err(_) => (None, 0),
    }
}

pub fn run(run: &mut Run, rng: &mut Rng) {
    run.rule = "a generated builder (C03 definition generator + created flags + claim thumbnail + generator icon + definition ingredients (± caller thumbnail) + stream ingredients unsigned/signed/tampered/nested-fixture (± caller thumbnail) + redaction + settings-driven actions/templates + Create/Edit intent + no_embed/remote_url) is signed directly and after 1–3 to_archive/with_archive round trips; every differing path of the two reports is collected (abstracted: the active manifest's own label and instance id, times, hashes, signature members; resource identifiers by the digest of what they resolve to) and attributed — accepted as a known finding only when the plan has that finding's feature and the path is one it explains; validation state, embedding mode and the C03 report oracle on the restored signing are checked too; non-trivial = both signings succeeded and every comparison held; distinct by (format, signer, chain length, definition shape, features)".to_string();
    let thorough = run.thorough();
    let sources: Vec<(&'static str, Vec<u8>)> = unsigned_sources().into_iter().filter_map(|(f, n)| std::fs::read(fixtures().join(n)).ok().filter(|d| d.len() <= 110_000).map(|d| (f, d))).collect();
    let small: Vec<&(&'static str, Vec<u8>)> = sources.iter().filter(|(f, d)| d.len() <= 70_000 && !is_bmff(f)).collect();
    // ingredient pool: unsigned, signed (generated: version-2 claims), tampered, fixtures
    let mut pool: Vec<StreamIng> = vec![];
    for (f, d) in small.iter().map(|x| (x.0, &x.1)) {
        pool.push(StreamIng { title: format!("unsigned {f}"), relationship: "componentOf", format: f.to_string(), data: d.clone(), kind: "unsigned", info: None, claim_v: 0, user_thumb: false });
        if let Ok(signed) = vh::sign::sign_asset(f, d, None) {
            let mut t = signed.clone();
            let k = t.len() - 5;
            t[k] ^= 0x55;
            let (info, cv) = pool_info(&signed, f);
            pool.push(StreamIng { title: format!("signed {f}"), relationship: "componentOf", format: f.to_string(), data: signed, kind: "signed", info, claim_v: cv, user_thumb: false });
            pool.push(StreamIng { title: format!("tampered {f}"), relationship: "inputTo", format: f.to_string(), data: t, kind: "tampered", info: None, claim_v: cv, user_thumb: false });
        }
    }
    // fixture assets: CA.jpg / C.jpg (one manifest), XCA.jpg (tampered), and assets whose manifest
    // chains are linked by `c2pa_manifest` (ocsp.jpg, CACAE-uri-CA.jpg, CIE-sig-CA.jpg,
    // legacy_ingredient_hash.jpg) or by `activeManifest` (CACA.jpg)
    let mut fixture_pool: Vec<StreamIng> = vec![];
    for (n, kind) in [("CA.jpg", "signed"), ("C.jpg", "signed"), ("XCA.jpg", "tampered"), ("ocsp.jpg", "nested"), ("CACAE-uri-CA.jpg", "nested"), ("CACA.jpg", "nested"), ("CIE-sig-CA.jpg", "nested"), ("legacy_ingredient_hash.jpg", "nested")] {
        if let Ok(d) = std::fs::read(fixtures().join(n)) {
            let (info, cv) = pool_info(&d, "image/jpeg");
            fixture_pool.push(StreamIng { title: n.to_string(), relationship: "componentOf", format: "image/jpeg".into(), data: d, kind, info, claim_v: cv, user_thumb: false });
        }
    }
    run.obligations.insert("fixture-ingredients-with-nested-manifests-present".into(), fixture_pool.iter().filter(|i| i.kind == "nested").count() >= 3);
    let signers = ["es256", "ps256", "ed25519", "ephemeral", "es384"];
    let cases = if thorough { 2500 } else { 150 };
    for i in 0..cases {
        let mut r = rng.fork();
        let (fmt, src) = *r.pick(&small);
        let mut supplied = gen_supplied(&mut r, fmt, thorough);
        if r.chance(1, 2) {
            supplied.hash_alg = None;
        }
        let created: Vec<bool> = supplied.assertions.iter().enumerate().map(|(k, a)| k == 0 || (r.chance(1, 3) && a.0 != "stds.schema-org.CreativeWork")).collect();
        let mut stream_ings = vec![];
        for _ in 0..r.below(3) {
            // a version-1 claim cannot take a version-2 ingredient: choose among the compatible ones
            let from_fixture = supplied.claim_version == 1 || r.chance(1, 2);
            let cand: Vec<&StreamIng> = if from_fixture { fixture_pool.iter().collect() } else { pool.iter().collect() };
            let cand: Vec<&StreamIng> = cand.into_iter().filter(|c| c.claim_v <= supplied.claim_version && (c.kind != "tampered" || r.chance(1, 3))).collect();
            if !cand.is_empty() {
                let mut ing = (*r.pick(&cand)).clone();
                ing.relationship = *r.pick(&["componentOf", "inputTo"]);
                ing.user_thumb = r.chance(1, 6);
                stream_ings.push(ing);
            }
        }
        let mut x = Extras::default();
        x.icon = r.chance(1, 6);
        x.def_ing_thumb = supplied.ingredients.iter().map(|_| r.chance(1, 3)).collect();
        match r.below(10) {
            0 => {
                x.xa = vec!["c2pa.edited"];
                x.xt = r.below(2) as usize;
            }
            1 => {
                x.no_embed = true;
                x.remote = r.chance(1, 2);
            }
            2 => {
                // redact one assertion of a signed ingredient's active manifest (not its actions)
                for ing in &stream_ings {
                    if let (Some((label, asns)), true) = (&ing.info, ing.kind != "tampered") {
                        if let Some(a) = asns.iter().find(|a| !a.starts_with("c2pa.actions") && !a.starts_with("c2pa.hash")) {
                            x.redact.push(format!("self#jumbf=/c2pa/{label}/c2pa.assertions/{a}"));
                            break;
                        }
                    }
                }
            }
            3 => {
                // Create intent, no actions assertion of its own
                if stream_ings.iter().all(|s| s.relationship != "parentOf") && supplied.claim_version >= 2 {
                    x.intent = Some("create");
                    x.raw_assertions = Some(supplied.assertions.iter().skip(1).map(|(l, d, k)| if *k == "Json" { json!({"label": l, "data": d, "kind": "Json"}) } else { json!({"label": l, "data": d}) }).collect());
                }
            }
            4 => {
                // Edit intent with an explicit parent
                if let (Some(first), true) = (stream_ings.first_mut(), supplied.claim_version >= 2) {
                    first.relationship = "parentOf";
                    x.intent = Some("edit");
                    x.raw_assertions = Some(supplied.assertions.iter().skip(1).map(|(l, d, k)| if *k == "Json" { json!({"label": l, "data": d, "kind": "Json"}) } else { json!({"label": l, "data": d}) }).collect());
                }
            }
            _ => {}
        }
        let plan = Plan { supplied, created, stream_ings, x };
        let n = 1 + (i % 3);
        one_case(run, &plan, fmt, src, signers[i % signers.len()], n, &format!("R{i}"));
    }
    // ------------------------------------------------------------------------------------------
    // witnesses of Props/C22.lean, replayed on the implementation; each one must show what the
    // theorem says (an obligation), and the model must agree case by case (correspondence)
    if let Some((fmt, src)) = sources.iter().find(|s| s.0 == "image/jpeg").map(|x| (x.0, &x.1)) {
        let mut r = rng.fork();
        let mut base = gen_supplied(&mut r, fmt, false);
        base.assertions.truncate(1);
        base.ingredients.clear();
        base.thumbnail = None;
        base.hash_alg = None;
        base.claim_version = 2;
        base.cgi.truncate(1); // a version-2 claim takes exactly one claim_generator_info entry
        let fx = |n: &str| fixture_pool.iter().find(|i| i.title == n).cloned();
        let plain = |s: Supplied| Plan { created: vec![true; s.assertions.len()], supplied: s, stream_ings: vec![], x: Extras::default() };
        // (1) hash_alg
        let mut p = plain(base.clone());
        p.supplied.hash_alg = Some("sha512");
        let before = run.dist.get("hash_alg-not-restored").copied().unwrap_or(0);
        one_case(run, &p, fmt, src, "ephemeral", 1, "W-hash_alg");
        let lost = run.dist.get("hash_alg-not-restored").copied().unwrap_or(0) > before;
        run.notes.push(format!("witness hash_alg=sha512 through one archive round trip: claim alg {} (theorem hash_alg_not_restored; not part of the reported content)", if lost { "falls back to the default" } else { "is kept" }));
        run.obligations.insert("witness:hash_alg_not_restored".into(), lost);
        // (2) archive bookkeeping label
        let mut p = plain(base.clone());
        p.supplied.assertions.push(("org.contentauth.archive.metadata.mine".to_string(), json!({"x": 1}), "Json"));
        p.created = vec![true, false];
        let o = one_case(run, &p, fmt, src, "ephemeral", 1, "W-archive-label");
        run.obligations.insert("witness:archive_label_dropped".into(), o.classes.iter().any(|c| c == "restored-archive-label-assertion-dropped"));
        // (3) no_embed + remote_url
        let mut p = plain(base.clone());
        p.x.no_embed = true;
        p.x.remote = true;
        let o = one_case(run, &p, fmt, src, "ephemeral", 1, "W-embedding-mode");
        run.obligations.insert("witness:embedding_mode_not_restored".into(), o.classes.iter().any(|c| c == "restored-embedding-mode-differs"));
        // (4) redaction
        if let Some(ca) = fx("CA.jpg") {
            if let Some((label, asns)) = &ca.info {
                if let Some(a) = asns.iter().find(|a| !a.starts_with("c2pa.actions")) {
                    let mut p = plain(base.clone());
                    p.stream_ings = vec![ca.clone()];
                    p.x.redact = vec![format!("self#jumbf=/c2pa/{label}/c2pa.assertions/{a}")];
                    let o1 = one_case(run, &p, fmt, src, "es256", 1, "W-redaction");
                    let o2 = one_case(run, &p, fmt, src, "es256", 2, "W-redaction");
                    run.obligations.insert("witness:redaction_resign_fails".into(), o1.direct_signed && o1.archived && !o1.restored_signed && o1.classes.iter().any(|c| c == "restored-sign-failed-redaction-reapplied") && !o2.archived);
                }
            }
        }
        // (5) settings-driven actions / templates, with and without an actions assertion
        let mut p = plain(base.clone());
        p.x.xa = vec!["c2pa.edited"];
        p.x.xt = 1;
        let mut dup = true;
        for n in [1, 2] {
            let o = one_case(run, &p, fmt, src, "ephemeral", n, "W-settings-actions");
            dup &= o.classes.iter().any(|c| c == "restored-settings-actions-duplicated");
        }
        let mut p2 = plain(base.clone());
        p2.x.xa = vec!["c2pa.created", "c2pa.edited"];
        p2.x.raw_assertions = Some(vec![]);
        let o = one_case(run, &p2, fmt, src, "ephemeral", 1, "W-settings-actions-none");
        dup &= o.classes.iter().any(|c| c == "restored-settings-actions-duplicated");
        run.obligations.insert("witness:settings_actions_duplicated".into(), dup);
        // (6) instance numbers
        let mut p = plain(base.clone());
        p.x.raw_assertions = Some(vec![
            json!({"label": "c2pa.actions", "data": {"actions": [{"action": "c2pa.created", "digitalSourceType": "http://cv.iptc.org/newscodes/digitalsourcetype/digitalCapture"}]}, "created": true}),
            json!({"label": "x.y", "data": {"n": 1}}),
            json!({"label": "x.y", "data": {"n": 2}, "created": true}),
        ]);
        let o = one_case(run, &p, fmt, src, "ephemeral", 1, "W-instances");
        run.obligations.insert("witness:instance_numbers_swap".into(), o.classes.iter().any(|c| c == "restored-assertion-instances-differ"));
        // (7) two actions assertions, inception in the gathered one
        let mut p = plain(base.clone());
        p.x.raw_assertions = Some(vec![
            json!({"label": "c2pa.actions", "data": {"actions": [{"action": "c2pa.created", "digitalSourceType": "http://cv.iptc.org/newscodes/digitalsourcetype/digitalCapture"}]}}),
            json!({"label": "c2pa.actions", "data": {"actions": [{"action": "c2pa.edited"}]}, "created": true}),
        ]);
        let o = one_case(run, &p, fmt, src, "ephemeral", 1, "W-actions-reordered");
        run.obligations.insert("witness:actions_reordered_resign_fails".into(), o.direct_signed && o.archived && !o.restored_signed);
        // (8) ingredient thumbnails
        if let Some(ca) = fx("CA.jpg") {
            let mut p = plain(base.clone());
            p.supplied.claim_version = 1;
            p.stream_ings = vec![ca.clone()];
            let o1 = one_case(run, &p, fmt, src, "es256", 1, "W-v1-ingredient-thumbnail");
            let o2 = one_case(run, &p, fmt, src, "es256", 2, "W-v1-ingredient-thumbnail");
            run.obligations.insert("witness:v1_ingredient_thumbnail_lost".into(), o1.restored_signed && o1.classes.is_empty() && o2.classes.iter().any(|c| c == "restored-ingredient-thumbnail-differs-v1-claim"));
            let mut p = plain(base.clone());
            let mut ca2 = ca.clone();
            ca2.user_thumb = true;
            p.stream_ings = vec![ca2];
            let o = one_case(run, &p, fmt, src, "es256", 1, "W-user-ingredient-thumbnail");
            run.obligations.insert("witness:user_ingredient_thumbnail_replaced".into(), o.classes.iter().any(|c| c == "restored-ingredient-user-thumbnail-replaced"));
            // version-1 claim, unsigned ingredient with a caller thumbnail (data box): survives
            if let Some(u) = pool.iter().find(|i| i.kind == "unsigned" && i.format == "image/jpeg") {
                let mut p = plain(base.clone());
                p.supplied.claim_version = 1;
                let mut u2 = u.clone();
                u2.user_thumb = true;
                p.stream_ings = vec![u2];
                let mut good = true;
                for n in [1, 2, 3] {
                    let o = one_case(run, &p, fmt, src, "es256", n, "W-v1-databox-thumbnail");
                    good &= o.restored_signed && o.classes.is_empty();
                }
                run.obligations.insert("witness:v1_databox_thumbnail_survives".into(), good);
            }
        }
        // (9) intents
        let mut p = plain(base.clone());
        p.x.intent = Some("edit");
        p.x.raw_assertions = Some(vec![]);
        let before = run.dist.get("archive-not-written:edit-intent-without-parent").copied().unwrap_or(0);
        let o = one_case(run, &p, fmt, src, "ephemeral", 1, "W-edit-intent");
        run.obligations.insert("witness:edit_intent_archive_fails".into(), o.direct_signed && !o.archived && run.dist.get("archive-not-written:edit-intent-without-parent").copied().unwrap_or(0) > before);
        let mut p = plain(base.clone());
        p.x.intent = Some("create");
        p.x.raw_assertions = Some(vec![]);
        let o = one_case(run, &p, fmt, src, "ephemeral", 2, "W-create-intent");
        run.obligations.insert("witness:intent_baked".into(), o.restored_signed && o.classes.is_empty());
        // (10) chains on the fixture shapes (chain_examples_*): the seeded regression C22-1 lives here
        let mut all = true;
        let mut ran = 0;
        for name in ["ocsp.jpg", "CACAE-uri-CA.jpg", "CACA.jpg", "CIE-sig-CA.jpg", "legacy_ingredient_hash.jpg", "CA.jpg"] {
            if let Some(f) = fx(name) {
                let mut p = plain(base.clone());
                p.stream_ings = vec![f];
                for n in if thorough { vec![1, 2, 3] } else { vec![1, 2] } {
                    let o = one_case(run, &p, fmt, src, "es256", n, &format!("W-nested-{name}"));
                    if o.direct_signed {
                        ran += 1;
                        all &= o.restored_signed && o.classes.is_empty();
                    }
                }
            }
        }
        run.obligations.insert("witness:chain_examples_on_fixture_ingredients".into(), all && ran >= 6);
        // (11) `*.metadata` labels: reported as JSON whatever the supplied kind
        let mut p = plain(base.clone());
        p.supplied.assertions.push(("org.verif.metadata".to_string(), json!({"@context": {"dc": "http://purl.org/dc/elements/1.1/"}, "dc:title": "hello"}), "Json"));
        p.created = vec![true, false];
        one_case(run, &p, fmt, src, "ephemeral", 2, "W-metadata-label");
    }
    // fixtures of the legacy ZIP format
    let ctx = || Context::new().with_settings(base_settings().as_str()).expect("ctx");
    let idx = run.reqs.len().saturating_sub(1);
    match std::fs::read(fixtures().join("old_format_archive.zip")) {
        Ok(d) => match guarded(move || Builder::from_context(ctx()).with_archive(Cursor::new(d)).map(|b| b.to_string())) {
            Ok(Ok(s)) => {
                run.obligations.insert("old-format-archive-loads".into(), !s.is_empty());
                run.nontrivial("old_format_archive.zip".into());
            }
            Ok(Err(e)) => run.fail(idx, "old-format-archive-rejected", format!("old_format_archive.zip: {e:?}")),
            Err(p) => run.fail(idx, "panic", format!("old_format_archive.zip: {p}")),
        },
        Err(_) => run.notes.push("old_format_archive.zip missing".into()),
    }
    match std::fs::read(fixtures().join("bad_path_archive.zip")) {
        // the fixture's manifest.json carries "base_path": "/": it loads, but the path must not be taken over
        Ok(d) => match guarded(move || Builder::from_context(ctx()).with_archive(Cursor::new(d)).map(|b| b.base_path().is_none())) {
            Ok(Ok(true)) => {
                run.obligations.insert("bad-path-archive-base-path-ignored".into(), true);
                run.nontrivial("bad_path_archive.zip".into());
            }
            Ok(Ok(false)) => run.fail(idx, "archive-base-path-taken-over", "bad_path_archive.zip: base_path populated from archive JSON".into()),
            Ok(Err(e)) => run.fail(idx, "old-format-archive-rejected", format!("bad_path_archive.zip: {e:?}")),
            Err(p) => run.fail(idx, "panic", format!("bad_path_archive.zip: {p}")),
        },
        Err(_) => run.notes.push("bad_path_archive.zip missing".into()),
    }
    let _ = BTreeSet::<String>::new();
}
