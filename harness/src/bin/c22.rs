//! C22 — saving and restoring a working store preserves the manifest.
//!
//!   c22 <tier> <seed> <outdir>
//!
//! Implementation level (oracle): a generated builder (definition as in C03 + created/gathered
//! flags, thumbnail resource, definition-only ingredients and stream ingredients — unsigned,
//! signed, tampered C2PA assets) is signed (a) directly and (b) after a chain of 1–3
//! `to_archive` → `with_archive` round trips (fresh Context each time); the two reports must agree
//! after abstraction of what legitimately differs between two signings (manifest ids, instance
//! ids, times, hashes, signature), the restored one must itself reflect the definition (C03
//! oracle), and the ingredient manifests carried along must be the same set. Fixtures:
//! `old_format_archive.zip` must still load; `bad_path_archive.zip` (manifest.json with
//! `"base_path": "/"`) loads without taking the path over.
//!
//! Model level: `C22 chain n=… v=… thumb=… alg=… asn=label:kind:created,…` — the restored
//! builder's definition (serialised) against `C2pa.C22.chain` (Model/C22.lean), including the
//! two witnesses of the Props file (hash_alg not restored; reserved-label assertion dropped).

#[path = "../defgen.rs"]
mod defgen;

use std::io::Cursor;

use c2pa::{Builder, Context};
use defgen::*;
use serde_json::{json, Value};
use vh::common::{canon_json, fixtures, guarded, main_with, Rng, Run};
use vh::sign::unsigned_sources;

#[derive(Clone)]
struct StreamIng {
    title: String,
    relationship: &'static str,
    format: String,
    data: Vec<u8>,
    kind: &'static str, // unsigned | signed | tampered
}

#[derive(Clone)]
struct Plan {
    supplied: Supplied,
    created: Vec<bool>,
    stream_ings: Vec<StreamIng>,
}

fn definition_with_created(p: &Plan) -> Value {
    let mut d = definition_json(&p.supplied);
    if let Some(a) = d["assertions"].as_array_mut() {
        for (i, x) in a.iter_mut().enumerate() {
            if p.created.get(i).copied().unwrap_or(false) {
                x["created"] = json!(true);
            }
        }
    }
    d
}

fn build(p: &Plan, settings: &str) -> c2pa::Result<Builder> {
    let ctx = Context::new().with_settings(settings)?;
    let mut b = Builder::from_context(ctx).with_definition(definition_with_created(p).to_string().as_str())?;
    if let Some((_, bytes)) = &p.supplied.thumbnail {
        b.add_resource("verif-thumb.jpg", Cursor::new(bytes.clone()))?;
    }
    for ing in &p.stream_ings {
        b.add_ingredient_from_stream(json!({"title": ing.title, "relationship": ing.relationship}).to_string(), &ing.format, &mut Cursor::new(ing.data.clone()))?;
    }
    Ok(b)
}

fn roundtrip(b: Builder, settings: &str) -> c2pa::Result<Builder> {
    let mut ar = Cursor::new(Vec::new());
    b.to_archive(&mut ar)?;
    ar.set_position(0);
    let ctx = Context::new().with_settings(settings)?;
    Builder::from_context(ctx).with_archive(ar)
}

fn sign_builder(mut b: Builder, fmt: &str, src: &[u8], signer_alg: &str) -> c2pa::Result<(Vec<u8>, Vec<u8>)> {
    let mut out = Cursor::new(Vec::new());
    let m = if signer_alg == "ephemeral" {
        let signer = c2pa::EphemeralSigner::new("verif.test")?;
        b.sign(&signer, fmt, &mut Cursor::new(src.to_vec()), &mut out)?
    } else {
        let signer = test_signer(signer_alg)?;
        b.sign(signer.as_ref(), fmt, &mut Cursor::new(src.to_vec()), &mut out)?
    };
    Ok((out.into_inner(), m))
}

/// Abstract away what legitimately differs between two signings of the same content: the active
/// manifest's label (everywhere it occurs), `xmp:iid` instance ids, times, hashes, signature
/// dependent members, assertion instance numbers (URIs, not content) and thumbnail identifiers
/// (thumbnails are compared by content separately). Ingredient manifest labels stay as they are.
fn abstract_report(rep: &Value) -> Value {
    let active = rep.get("active_manifest").and_then(|x| x.as_str()).unwrap_or("").to_string();
    fn scrub_str(s: &str, active: &str) -> String {
        let s = if active.is_empty() { s.to_string() } else { s.replace(active, "<active>") };
        // assertion instance suffixes (`label__2`) are numbering, not content
        let s = {
            let mut t = String::with_capacity(s.len());
            let cs: Vec<char> = s.chars().collect();
            let mut i = 0;
            while i < cs.len() {
                if cs[i] == '_' && i + 2 < cs.len() + 0 && cs.get(i + 1) == Some(&'_') && cs.get(i + 2).map(|c| c.is_ascii_digit()).unwrap_or(false) {
                    i += 2;
                    while i < cs.len() && cs[i].is_ascii_digit() {
                        i += 1;
                    }
                } else {
                    t.push(cs[i]);
                    i += 1;
                }
            }
            t
        };
        let mut out = String::with_capacity(s.len());
        let b = s.as_bytes();
        let mut i = 0;
        let is_hex = |c: u8| c.is_ascii_hexdigit() || c == b'-';
        while i < b.len() {
            let rest = &s[i..];
            if rest.starts_with("xmp:iid:") || rest.starts_with("xmp.iid:") {
                out.push_str(&rest[..8]);
                i += 8;
                while i < b.len() && is_hex(b[i]) {
                    i += 1;
                }
                out.push_str("<id>");
            } else {
                let ch = rest.chars().next().unwrap();
                out.push(ch);
                i += ch.len_utf8();
            }
        }
        out
    }
    fn go(v: &Value, active: &str, in_active: bool) -> Value {
        match v {
            Value::Object(m) => {
                let mut o = serde_json::Map::new();
                for (k, x) in m {
                    let k2 = scrub_str(k, active);
                    let here_active = in_active || k == active;
                    if ["time", "hash", "cert_serial_number", "signature", "validationTime", "pad", "pad2"].contains(&k.as_str()) {
                        o.insert(k2, Value::String("<volatile>".into()));
                    } else if k == "instance" && x.is_number() {
                        // assertion instance number
                    } else if k == "thumbnail" && x.get("identifier").is_some() {
                        o.insert(k2, json!({"format": x["format"], "identifier": "<thumbnail>"}));
                    } else if k == "assertions" && in_active && x.is_array() {
                        // order of the assertion list follows claim bookkeeping (created before
                        // gathered, numbering): compared as a multiset of (label, data, kind, created)
                        let mut items: Vec<Value> = x.as_array().unwrap().iter().map(|e| go(e, active, in_active)).collect();
                        items.sort_by_key(canon_json);
                        o.insert(k2, Value::Array(items));
                    } else {
                        o.insert(k2, go(x, active, here_active));
                    }
                }
                Value::Object(o)
            }
            Value::Array(a) => Value::Array(a.iter().map(|x| go(x, active, in_active)).collect()),
            Value::String(s) => Value::String(scrub_str(s, active)),
            other => other.clone(),
        }
    }
    go(rep, &active, false)
}

/// thumbnails of the active manifest (claim + ingredients) by content
fn thumbnails(rep: &Value, reader: &c2pa::Reader) -> Vec<String> {
    let active = rep.get("active_manifest").and_then(|x| x.as_str()).unwrap_or("");
    let m = &rep["manifests"][active];
    let mut ids: Vec<(String, String)> = vec![];
    if let Some(t) = m.get("thumbnail") {
        ids.push(("claim".into(), t["identifier"].as_str().unwrap_or("").to_string()));
    }
    for (i, ing) in m["ingredients"].as_array().into_iter().flatten().enumerate() {
        if let Some(t) = ing.get("thumbnail") {
            ids.push((format!("ingredient{i}"), t["identifier"].as_str().unwrap_or("").to_string()));
        }
    }
    ids.into_iter()
        .map(|(who, id)| {
            let mut out = Cursor::new(Vec::new());
            match reader.resource_to_stream(&id, &mut out) {
                Ok(_) => format!("{who}:{}:{}:{}", out.get_ref().len(), vh::common::hex(&defgen::sha("sha256", &[out.get_ref()])[..8]), if out.get_ref().starts_with(&[0xff, 0xd8]) { "jpeg" } else if out.get_ref().len() > 8 && &out.get_ref()[4..8] == b"jumb" { "JUMBF-not-an-image" } else { "other" }),
                Err(e) => format!("{who}:unreadable:{e:?}"),
            }
        })
        .collect()
}

/// first differing path between two JSON values
fn first_diff(a: &Value, b: &Value, path: &str) -> Option<String> {
    match (a, b) {
        (Value::Object(x), Value::Object(y)) => {
            for (k, v) in x {
                match y.get(k) {
                    None => return Some(format!("{path}/{k}: only in direct ({})", &v.to_string()[..v.to_string().len().min(120)])),
                    Some(w) => {
                        if let Some(d) = first_diff(v, w, &format!("{path}/{k}")) {
                            return Some(d);
                        }
                    }
                }
            }
            for (k, v) in y {
                if !x.contains_key(k) {
                    return Some(format!("{path}/{k}: only in restored ({})", &v.to_string()[..v.to_string().len().min(120)]));
                }
            }
            None
        }
        (Value::Array(x), Value::Array(y)) => {
            if x.len() != y.len() {
                return Some(format!("{path}: array length {} vs {}", x.len(), y.len()));
            }
            for (i, (v, w)) in x.iter().zip(y.iter()).enumerate() {
                if let Some(d) = first_diff(v, w, &format!("{path}[{i}]")) {
                    return Some(d);
                }
            }
            None
        }
        _ => {
            if canon_json(a) == canon_json(b) {
                None
            } else {
                let (sa, sb) = (a.to_string(), b.to_string());
                Some(format!("{path}: direct {} vs restored {}", &sa[..sa.len().min(160)], &sb[..sb.len().min(160)]))
            }
        }
    }
}

/// definition of a builder as the model protocol prints it
fn definition_reply(b: &Builder) -> String {
    let v: Value = serde_json::from_str(&b.to_string()).unwrap_or(Value::Null);
    let d = if v.get("definition").is_some() { &v["definition"] } else { &v };
    let asn: Vec<String> = d["assertions"]
        .as_array()
        .map(|a| {
            a.iter()
                .map(|x| {
                    format!(
                        "{}:{}:{}",
                        x["label"].as_str().unwrap_or("?"),
                        if x.get("kind").and_then(|k| k.as_str()) == Some("Json") { "j" } else { "c" },
                        if x.get("created").and_then(|k| k.as_bool()).unwrap_or(false) { "c" } else { "g" }
                    )
                })
                .collect()
        })
        .unwrap_or_default();
    format!(
        "v={} thumb={} alg={} asn={}",
        d.get("claim_version").and_then(|x| x.as_u64()).unwrap_or(2),
        if d.get("thumbnail").map(|t| !t.is_null()).unwrap_or(false) { 1 } else { 0 },
        d.get("hash_alg").and_then(|x| x.as_str()).unwrap_or("-"),
        if asn.is_empty() { "-".to_string() } else { asn.join(",") }
    )
}

fn manifest_labels(report: &Value) -> Vec<String> {
    let active = report.get("active_manifest").and_then(|x| x.as_str()).unwrap_or("");
    let mut v: Vec<String> = report["manifests"].as_object().map(|m| m.keys().filter(|k| k.as_str() != active).cloned().collect()).unwrap_or_default();
    v.sort();
    v
}

fn main() {
    main_with("C22", run);
}

fn one_case(run: &mut Run, plan: &Plan, fmt: &str, src: &[u8], signer: &str, n: usize, tag: &str) {
    let settings = base_settings();
    let key = format!("{tag} fmt={fmt} signer={signer} chain={n} v={} alg={:?} n_asn={} def_ing={} stream_ing={:?} thumb={}", plan.supplied.claim_version, plan.supplied.hash_alg, plan.supplied.assertions.len(), plan.supplied.ingredients.len(), plan.stream_ings.iter().map(|i| i.kind).collect::<Vec<_>>(), plan.supplied.thumbnail.is_some());
    run.count(&format!("chain:{n}"));
    run.count(&format!("claim_version:{}", plan.supplied.claim_version));
    for i in &plan.stream_ings {
        run.count(&format!("stream-ingredient:{}", i.kind));
    }
    let asn: Vec<String> = plan.supplied.assertions.iter().enumerate().map(|(i, (l, _, k))| format!("{l}:{}:{}", if *k == "Json" { "j" } else { "c" }, if plan.created.get(i).copied().unwrap_or(false) { "c" } else { "g" })).collect();
    let req = format!("C22 chain n={n} v={} thumb={} alg={} asn={}", plan.supplied.claim_version, if plan.supplied.thumbnail.is_some() { 1 } else { 0 }, plan.supplied.hash_alg.unwrap_or("-"), if asn.is_empty() { "-".to_string() } else { asn.join(",") });
    // (a) direct
    let (p2, s2, src2, f2, sg2) = (plan.clone(), settings.clone(), src.to_vec(), fmt.to_string(), signer.to_string());
    let direct = guarded(move || build(&p2, &s2).and_then(|b| sign_builder(b, &f2, &src2, &sg2)));
    // (b) through the chain
    let (p3, s3) = (plan.clone(), settings.clone());
    let restored = guarded(move || {
        let mut b = build(&p3, &s3)?;
        for _ in 0..n {
            b = roundtrip(b, &s3)?;
        }
        Ok::<Builder, c2pa::Error>(b)
    });
    let direct = match direct {
        Ok(Ok(x)) => x,
        Ok(Err(e)) => {
            let es = format!("{e:?}");
            run.count("skipped:original-builder-does-not-sign");
            run.notes.push(format!("{key}: the original builder does not sign ({}); not a C22 case", &es[..es.len().min(120)]));
            return;
        }
        Err(p) => {
            let idx = run.reqs.len().saturating_sub(1);
            run.fail(idx, "panic", format!("{key}: direct signing panicked: {p}"));
            return;
        }
    };
    let restored = match restored {
        Err(p) => {
            let idx = run.case(req, "panic".into());
            run.fail(idx, "panic", format!("{key}: archive round trip panicked: {p}"));
            return;
        }
        Ok(Err(e)) => {
            let idx = run.case(req, "restore-error".into());
            let es = format!("{e:?}");
            run.fail(idx, "restore-failed", format!("{key}: to_archive/with_archive failed: {}", &es[..es.len().min(300)]));
            return;
        }
        Ok(Ok(b)) => b,
    };
    let idx = run.case(req, definition_reply(&restored));
    let (f4, src4, sg4) = (fmt.to_string(), src.to_vec(), signer.to_string());
    let via = match guarded(std::panic::AssertUnwindSafe(move || sign_builder(restored, &f4, &src4, &sg4))) {
        Ok(Ok(x)) => x,
        Ok(Err(e)) => {
            let es = format!("{e:?}");
            run.fail(idx, "restored-sign-failed", format!("{key}: the original builder signs, the restored one does not: {}", &es[..es.len().min(300)]));
            return;
        }
        Err(p) => {
            run.fail(idx, "panic", format!("{key}: signing the restored builder panicked: {p}"));
            return;
        }
    };
    let r0 = read(fmt, &direct.0, &settings);
    let r1 = read(fmt, &via.0, &settings);
    let ((st0, rep0, reader0), (st1, rep1, reader1)) = match (r0, r1) {
        (Ok(a), Ok(b)) => (a, b),
        (a, b) => {
            run.fail(idx, "signed-asset-unreadable", format!("{key}: direct {:?} restored {:?}", a.err(), b.err()));
            return;
        }
    };
    if st0 != st1 {
        run.fail(idx, "restored-state-differs", format!("{key}: direct {st0}, restored {st1}"));
    }
    let strip_success = |mut v: Value| -> Value {
        // the success/informational lists of the active manifest enumerate its own assertion
        // URIs (numbering, order); the failures, the state and the ingredient deltas are compared
        if let Some(am) = v.get_mut("validation_results").and_then(|r| r.get_mut("activeManifest")).and_then(|a| a.as_object_mut()) {
            am.remove("success");
            am.remove("informational");
        }
        v
    };
    let (a0, a1) = (strip_success(abstract_report(&rep0)), strip_success(abstract_report(&rep1)));
    let mut ok = true;
    let (t0, t1) = (thumbnails(&rep0, &reader0), thumbnails(&rep1, &reader1));
    if t0 != t1 {
        ok = false;
        let ids = |rep: &Value| -> Vec<String> {
            let a = rep.get("active_manifest").and_then(|x| x.as_str()).unwrap_or("");
            rep["manifests"][a]["ingredients"].as_array().into_iter().flatten().map(|i| i.get("thumbnail").map(|t| t["identifier"].as_str().unwrap_or("").to_string()).unwrap_or("-".into())).collect()
        };
        let class = if plan.supplied.claim_version == 1 { "restored-ingredient-thumbnail-differs-v1-claim" } else { "restored-resources-differ" };
        run.fail(idx, class, format!("{key}: thumbnails direct {t0:?} restored {t1:?}; ingredient thumbnail identifiers direct {:?} restored {:?}", ids(&rep0), ids(&rep1)));
    }
    if let Some(d) = first_diff(&a0, &a1, "") {
        ok = false;
        let class = if plan.supplied.claim_version == 1 && d.contains("/thumbnail") { "restored-ingredient-thumbnail-differs-v1-claim" } else { "restored-report-differs" };
        run.fail(idx, class, format!("{key}: {d}"));
    }
    if manifest_labels(&rep0) != manifest_labels(&rep1) {
        ok = false;
        run.fail(idx, "restored-ingredient-manifests-differ", format!("{key}: direct {:?} restored {:?}", manifest_labels(&rep0), manifest_labels(&rep1)));
    }
    // the restored signing must itself reflect the definition (definition-only ingredients come
    // first, then the stream ingredients)
    let mut expect = plan.supplied.clone();
    if expect.claim_version >= 2 {
        // a version 2 claim lists created assertions before gathered ones
        let flags: Vec<bool> = (0..expect.assertions.len()).map(|i| plan.created.get(i).copied().unwrap_or(false)).collect();
        let mut ordered = vec![];
        for want in [true, false] {
            for (i, a) in expect.assertions.iter().enumerate() {
                if flags[i] == want {
                    ordered.push(a.clone());
                }
            }
        }
        expect.assertions = ordered;
    }
    if !plan.stream_ings.is_empty() {
        // compare_report checks definition ingredients only; skip the count check by trimming
        let active = rep1.get("active_manifest").and_then(|x| x.as_str()).unwrap_or("").to_string();
        let n_rep = rep1["manifests"][&active]["ingredients"].as_array().map(|a| a.len()).unwrap_or(0);
        if n_rep != plan.supplied.ingredients.len() + plan.stream_ings.len() {
            ok = false;
            run.fail(idx, "report-ingredient-count-differs", format!("{key}: supplied {} reported {n_rep}", plan.supplied.ingredients.len() + plan.stream_ings.len()));
        }
        expect.ingredients.clear();
        let mut rep1b = rep1.clone();
        rep1b["manifests"][&active]["ingredients"] = json!([]);
        for (class, detail) in compare_report(&expect, &rep1b, &reader1) {
            if class == "report-assertion-order-differs" {
                continue; // order is claim bookkeeping (see abstract_report)
            }
            ok = false;
            run.fail(idx, class, format!("{key} (restored): {detail}"));
        }
    } else {
        for (class, detail) in compare_report(&expect, &rep1, &reader1) {
            if class == "report-assertion-order-differs" {
                continue;
            }
            ok = false;
            run.fail(idx, class, format!("{key} (restored): {detail}"));
        }
    }
    // hash algorithm of the claim (not part of the reported content; recorded, see notes)
    if let (Ok((alg0, _)), Ok((alg1, _))) = (c2pa::verif_hooks::c03::active_data_hashes(&direct.1), c2pa::verif_hooks::c03::active_data_hashes(&via.1)) {
        if alg0 != alg1 {
            run.count("hash_alg-not-restored");
        } else {
            run.count("hash_alg-same");
        }
    }
    if ok {
        run.nontrivial(key);
    }
}

pub fn run(run: &mut Run, rng: &mut Rng) {
    run.rule = "a generated builder (C03 definition generator + created flags + thumbnail resource + definition ingredients + stream ingredients unsigned/signed/tampered) is signed directly and after 1–3 to_archive/with_archive round trips; the abstracted reports (ids, instance ids, times, hashes, signature scrubbed), validation states and carried ingredient manifest labels must agree and the restored signing must reflect the definition; non-trivial = both signings succeeded and every comparison held; distinct by (format, signer, chain length, definition shape)".to_string();
    let thorough = run.thorough();
    let sources: Vec<(&'static str, Vec<u8>)> = unsigned_sources().into_iter().filter_map(|(f, n)| std::fs::read(fixtures().join(n)).ok().filter(|d| d.len() <= 110_000).map(|d| (f, d))).collect();
    let small: Vec<&(&'static str, Vec<u8>)> = sources.iter().filter(|(f, d)| d.len() <= 70_000 && !is_bmff(f)).collect();
    // ingredient pool: unsigned, signed, tampered
    let mut pool: Vec<StreamIng> = vec![];
    for (f, d) in small.iter().map(|x| (x.0, &x.1)) {
        pool.push(StreamIng { title: format!("unsigned {f}"), relationship: "componentOf", format: f.to_string(), data: d.clone(), kind: "unsigned" });
        if let Ok(signed) = vh::sign::sign_asset(f, d, None) {
            let mut t = signed.clone();
            // flip one byte near the end of the asset (outside the manifest for these formats)
            let k = t.len() - 5;
            t[k] ^= 0x55;
            pool.push(StreamIng { title: format!("signed {f}"), relationship: "componentOf", format: f.to_string(), data: signed, kind: "signed" });
            pool.push(StreamIng { title: format!("tampered {f}"), relationship: "inputTo", format: f.to_string(), data: t, kind: "tampered" });
        }
    }
    for n in ["CA.jpg", "C.jpg", "XCA.jpg"] {
        if let Ok(d) = std::fs::read(fixtures().join(n)) {
            pool.push(StreamIng { title: n.to_string(), relationship: "componentOf", format: "image/jpeg".into(), data: d, kind: if n == "XCA.jpg" { "tampered" } else { "signed" } });
        }
    }
    let signers = ["es256", "ps256", "ed25519", "ephemeral", "es384"];
    let cases = if thorough { 6000 } else { 150 };
    for i in 0..cases {
        let mut r = rng.fork();
        let (fmt, src) = *r.pick(&small);
        let mut supplied = gen_supplied(&mut r, fmt, thorough);
        if r.chance(1, 2) {
            supplied.hash_alg = None;
        }
        // (`stds.schema-org.CreativeWork` is always added as gathered by to_claim)
        let created: Vec<bool> = supplied.assertions.iter().enumerate().map(|(k, a)| k == 0 || (r.chance(1, 3) && a.0 != "stds.schema-org.CreativeWork")).collect();
        let mut stream_ings = vec![];
        for _ in 0..r.below(3) {
            if !pool.is_empty() {
                let mut ing = r.pick(&pool).clone();
                ing.relationship = *r.pick(&["componentOf", "inputTo"]);
                stream_ings.push(ing);
            }
        }
        let plan = Plan { supplied, created, stream_ings };
        let n = 1 + (i % 3);
        one_case(run, &plan, fmt, src, signers[i % signers.len()], n, &format!("R{i}"));
    }
    // witnesses of Props/C22.lean, replayed (model correspondence: the reply must match)
    if let Some((fmt, src)) = small.first().map(|x| (x.0, &x.1)) {
        let mut r = rng.fork();
        let mut supplied = gen_supplied(&mut r, fmt, false);
        supplied.assertions.truncate(1);
        supplied.ingredients.clear();
        supplied.thumbnail = None;
        supplied.hash_alg = Some("sha512");
        // (1) hash_alg
        let plan = Plan { supplied: supplied.clone(), created: vec![true], stream_ings: vec![] };
        let before = run.dist.get("hash_alg-not-restored").copied().unwrap_or(0);
        one_case(run, &plan, fmt, src, "ephemeral", 1, "W-hash_alg");
        let lost = run.dist.get("hash_alg-not-restored").copied().unwrap_or(0) > before;
        run.notes.push(format!("witness hash_alg=sha512 through one archive round trip: claim alg {} (theorem archive_roundtrip_full_false: the definition's hash_alg is not restored; not part of the reported content)", if lost { "falls back to the default" } else { "is kept" }));
        // (2) reserved label: model correspondence only
        let mut s2 = supplied.clone();
        s2.hash_alg = None;
        s2.assertions.push(("org.contentauth.archive.metadata.mine".to_string(), json!({"x": 1}), "Json"));
        let plan = Plan { supplied: s2, created: vec![true, false], stream_ings: vec![] };
        let req = "C22 chain n=1 v=".to_string() + &plan.supplied.claim_version.to_string() + " thumb=0 alg=- asn=c2pa.actions:c:c,org.contentauth.archive.metadata.mine:j:g";
        match guarded(move || build(&plan, &base_settings()).and_then(|b| roundtrip(b, &base_settings()))) {
            Ok(Ok(b)) => {
                run.case(req, definition_reply(&b));
                run.count("witness:reserved-label");
            }
            other => run.notes.push(format!("reserved-label witness not replayed: {:?}", other.map(|r| r.map(|_| ()))))
        }
    }
    // fixtures
    let ctx = || Context::new().with_settings(base_settings().as_str()).expect("ctx");
    let idx = run.reqs.len().saturating_sub(1);
    match std::fs::read(fixtures().join("old_format_archive.zip")) {
        Ok(d) => match guarded(move || Builder::from_context(ctx()).with_archive(Cursor::new(d)).map(|b| b.to_string())) {
            Ok(Ok(s)) => {
                run.obligations.insert("old-format-archive-loads".into(), !s.is_empty());
                run.nontrivial("old_format_archive.zip".into());
            }
            Ok(Err(e)) => run.fail(idx, "old-format-archive-rejected", format!("old_format_archive.zip: {e:?}")),
            Err(p) => run.fail(idx, "panic", format!("old_format_archive.zip: {p}")),
        },
        Err(_) => run.notes.push("old_format_archive.zip missing".into()),
    }
    match std::fs::read(fixtures().join("bad_path_archive.zip")) {
        // the fixture's manifest.json carries "base_path": "/": it loads, but the path must not be taken over
        Ok(d) => match guarded(move || Builder::from_context(ctx()).with_archive(Cursor::new(d)).map(|b| b.base_path().is_none())) {
            Ok(Ok(true)) => {
                run.obligations.insert("bad-path-archive-base-path-ignored".into(), true);
                run.nontrivial("bad_path_archive.zip".into());
            }
            Ok(Ok(false)) => run.fail(idx, "archive-base-path-taken-over", "bad_path_archive.zip: base_path populated from archive JSON".into()),
            Ok(Err(e)) => run.fail(idx, "old-format-archive-rejected", format!("bad_path_archive.zip: {e:?}")),
            Err(p) => run.fail(idx, "panic", format!("bad_path_archive.zip: {p}")),
        },
        Err(_) => run.notes.push("bad_path_archive.zip missing".into()),
    }
}
