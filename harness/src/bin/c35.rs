//! C35 — results do not depend on stream chunking, and I/O errors are never hidden.
//!
//! Model-level requests (see lean/C2paModel/Model/C35.lean):
//!   C35 sniff pdf=<0|1> sched=<k,k,…|-> data=<hex>           -> <detected|->           (container_from_stream)
//!   C35 header sched=<…> data=<hex>                           -> ok <type> <size> | eof | err
//!   C35 tovec pos=<n> len=<n> sched=<…> data=<hex>            -> ok <hex> | err
//! `sched` lists, per `read` call, the maximum number of bytes that call returns (0 = I/O error).
//! After the list is exhausted reads are full.
//!
//! Implementation-level sweeps (oracle only): every signed asset × {chunked read, chunked sign,
//! fault at op k} — see `run`.

use std::io::{Cursor, Read, Seek, SeekFrom, Write};

use c2pa::{verif_hooks::c11 as hook11, verif_hooks::c35 as hook, Builder, Context, EphemeralSigner, Reader};
use vh::common::{canon_json, fixtures, guarded, hex, main_with, Rng, Run};
use vh::sign::{definition, sign_asset, unsigned_sources};

fn main() {
    main_with("C35", run);
}

/// What one `read`/`write` call of a scheduled stream does.
#[derive(Clone, Copy, PartialEq, Debug)]
enum Ev {
    /// transfer at most this many bytes (≥ 1)
    Cap(usize),
    /// hard I/O error
    Fault,
    /// `ErrorKind::Interrupted`
    Intr,
}

/// Stream whose `read`/`write` calls follow a schedule and whose `seek` calls (rewind and the
/// default `stream_position` included) follow a seek schedule (`true` = that call fails).
struct Sched<T> {
    inner: T,
    sched: Vec<Ev>,
    i: usize,
    seeks: Vec<bool>,
    j: usize,
    /// after the explicit schedule: cap every transfer at `tail_cap` (0 = unlimited)
    tail_cap: usize,
    rng: Option<Rng>,
    /// hard read/write faults and failing seeks delivered so far
    hard_faults: u32,
    /// `Interrupted` delivered so far
    intrs: u32,
    /// the very first read/write call was answered with `Interrupted`
    first_was_intr: bool,
    /// random tail: one call in `intr_den` is answered with `Interrupted` (0 = never)
    intr_den: u64,
}

impl<T> Sched<T> {
    fn new(inner: T, sched: Vec<Ev>) -> Self {
        Sched { inner, sched, i: 0, seeks: vec![], j: 0, tail_cap: 0, rng: None, hard_faults: 0, intrs: 0, first_was_intr: false, intr_den: 0 }
    }

    fn with_seeks(mut self, seeks: Vec<bool>) -> Self {
        self.seeks = seeks;
        self
    }

    fn random(inner: T, seed: u64, cap: usize) -> Self {
        let mut s = Sched::new(inner, vec![]);
        s.tail_cap = cap;
        s.rng = Some(Rng::new(seed));
        s
    }

    /// `Ok(cap)` or the injected error
    fn next_cap(&mut self, what: &str) -> std::io::Result<usize> {
        if self.i < self.sched.len() {
            let e = self.sched[self.i];
            self.i += 1;
            return match e {
                Ev::Cap(k) => Ok(k.max(1)),
                Ev::Fault => {
                    self.hard_faults += 1;
                    Err(std::io::Error::other(format!("injected {what} fault")))
                }
                Ev::Intr => {
                    self.intrs += 1;
                    if self.i == 1 {
                        self.first_was_intr = true;
                    }
                    Err(std::io::Error::new(std::io::ErrorKind::Interrupted, "injected interrupt"))
                }
            };
        }
        if let Some(r) = self.rng.as_mut() {
            if self.intr_den > 0 && r.chance(1, self.intr_den) {
                self.intrs += 1;
                return Err(std::io::Error::new(std::io::ErrorKind::Interrupted, "injected interrupt"));
            }
            return Ok(r.range(1, self.tail_cap as u64) as usize);
        }
        Ok(usize::MAX)
    }
}

impl<T: Read> Read for Sched<T> {
    fn read(&mut self, buf: &mut [u8]) -> std::io::Result<usize> {
        if buf.is_empty() {
            return Ok(0);
        }
        let k = self.next_cap("read")?;
        let n = buf.len().min(k);
        self.inner.read(&mut buf[..n])
    }
}

impl<T: Write> Write for Sched<T> {
    fn write(&mut self, buf: &[u8]) -> std::io::Result<usize> {
        if buf.is_empty() {
            return Ok(0);
        }
        let k = self.next_cap("write")?;
        let n = buf.len().min(k);
        self.inner.write(&buf[..n])
    }

    fn flush(&mut self) -> std::io::Result<()> {
        self.inner.flush()
    }
}

impl<T: Seek> Seek for Sched<T> {
    fn seek(&mut self, pos: SeekFrom) -> std::io::Result<u64> {
        if self.j < self.seeks.len() {
            let f = self.seeks[self.j];
            self.j += 1;
            if f {
                self.hard_faults += 1;
                return Err(std::io::Error::other("injected seek fault"));
            }
        }
        self.inner.seek(pos)
    }
}

/// Stream that fails at the k-th operation (reads, writes and seeks counted together).
struct Fault<T> {
    inner: T,
    ops: u64,
    fail_at: Option<u64>,
    sticky: bool,
    failed: bool,
    kinds: (bool, bool, bool), // fail on read / write / seek
    /// alternatively: fail at the j-th operation of one kind ("read" / "write" / "seek")
    kind_at: Option<(&'static str, u64)>,
    /// operations seen per kind: read / write / seek
    per_kind: (u64, u64, u64),
    hit: Option<&'static str>,
    /// innermost `c2pa::` function on the call stack when the fault was delivered
    site: Option<String>,
}

/// The innermost frame of the SDK (`c2pa::…`, generics and hash suffix stripped) on the current
/// call stack: names the call site that received an injected fault.
fn sdk_call_site() -> String {
    let bt = std::backtrace::Backtrace::force_capture().to_string();
    let mut chain: Vec<String> = vec![];
    for line in bt.lines() {
        let l = line.trim();
        // frame lines look like `12: c2pa::asset_handlers::png_io::get_png_chunk_positions`
        let name = match l.split_once(": ") {
            Some((n, rest)) if n.chars().all(|c| c.is_ascii_digit()) => rest,
            _ => continue,
        };
        if !name.contains("c2pa::") || name.contains("c2pa::verif_hooks") {
            continue;
        }
        let f = simplify_frame(name);
        if chain.last() != Some(&f) {
            chain.push(f);
        }
        if chain.len() == 7 {
            break;
        }
    }
    if chain.is_empty() {
        "unknown".to_string()
    } else {
        chain.join("<-")
    }
}

/// `<c2pa::a::b::T as c2pa::x::Trait>::method::<G>::h0123…` -> `T::method`; plain paths keep their
/// last two segments; closures are attributed to the enclosing function.
fn simplify_frame(name: &str) -> String {
    // drop generic arguments (balanced angle brackets), but keep `<T as Trait>` heads
    let mut s = name.to_string();
    if let Some(j) = s.rfind("::h") {
        if s[j + 3..].len() == 16 && s[j + 3..].chars().all(|c| c.is_ascii_hexdigit()) {
            s.truncate(j);
        }
    }
    let s = s.replace("::{{closure}}", "").replace("{{closure}}", "");
    let (head, method) = if let Some(rest) = s.strip_prefix('<') {
        // <Type as Trait>::method…
        let mut depth = 1;
        let mut end = 0;
        for (i, c) in rest.char_indices() {
            match c {
                '<' => depth += 1,
                '>' => {
                    depth -= 1;
                    if depth == 0 {
                        end = i;
                        break;
                    }
                }
                _ => {}
            }
        }
        let inside = &rest[..end];
        let ty = inside.split(" as ").next().unwrap_or(inside);
        (ty.to_string(), rest[end + 1..].trim_start_matches("::").to_string())
    } else {
        (s.clone(), String::new())
    };
    let strip_generics = |t: &str| -> String {
        let mut out = String::new();
        let mut depth = 0;
        for c in t.chars() {
            match c {
                '<' => depth += 1,
                '>' => depth -= 1,
                _ if depth == 0 => out.push(c),
                _ => {}
            }
        }
        out
    };
    let head = strip_generics(&head);
    let method = strip_generics(&method);
    let mut segs: Vec<&str> = head.split("::").filter(|x| !x.is_empty() && *x != "&mut" && *x != "&").collect();
    if !method.is_empty() {
        let ty = segs.last().copied().unwrap_or("?").trim_start_matches("&mut ").trim_start_matches('&').to_string();
        let m = method.split("::").next().unwrap_or("");
        return format!("{ty}::{m}");
    }
    if segs.len() > 2 {
        segs = segs[segs.len() - 2..].to_vec();
    }
    segs.join("::")
}

impl<T> Fault<T> {
    fn new(inner: T, fail_at: Option<u64>, sticky: bool) -> Self {
        Fault { inner, ops: 0, fail_at, sticky, failed: false, kinds: (true, true, true), kind_at: None, per_kind: (0, 0, 0), hit: None, site: None }
    }

    fn at_kind(inner: T, kind: &'static str, j: u64, sticky: bool) -> Self {
        let mut f = Fault::new(inner, None, sticky);
        f.kind_at = Some((kind, j));
        f
    }

    fn tick(&mut self, kind: &'static str) -> std::io::Result<()> {
        let k = self.ops;
        self.ops += 1;
        let enabled = match kind {
            "read" => self.kinds.0,
            "write" => self.kinds.1,
            _ => self.kinds.2,
        };
        let slot = match kind {
            "read" => &mut self.per_kind.0,
            "write" => &mut self.per_kind.1,
            _ => &mut self.per_kind.2,
        };
        let j = *slot;
        *slot += 1;
        let kind_hit = matches!(self.kind_at, Some((kk, jj)) if kk == kind && jj == j);
        if (self.failed && self.sticky) || (self.fail_at == Some(k) && enabled) || kind_hit {
            self.failed = true;
            if self.hit.is_none() {
                self.hit = Some(kind);
                self.site = Some(sdk_call_site());
            }
            return Err(std::io::Error::other("injected fault"));
        }
        Ok(())
    }
}

impl<T: Read> Read for Fault<T> {
    fn read(&mut self, buf: &mut [u8]) -> std::io::Result<usize> {
        self.tick("read")?;
        self.inner.read(buf)
    }
}

impl<T: Write> Write for Fault<T> {
    fn write(&mut self, buf: &[u8]) -> std::io::Result<usize> {
        self.tick("write")?;
        self.inner.write(buf)
    }

    fn flush(&mut self) -> std::io::Result<()> {
        self.inner.flush()
    }
}

impl<T: Seek> Seek for Fault<T> {
    fn seek(&mut self, pos: SeekFrom) -> std::io::Result<u64> {
        self.tick("seek")?;
        self.inner.seek(pos)
    }
}

fn sched_str(s: &[Ev]) -> String {
    if s.is_empty() {
        "-".to_string()
    } else {
        s.iter()
            .map(|e| match e {
                Ev::Cap(k) => k.to_string(),
                Ev::Fault => "0".to_string(),
                Ev::Intr => "i".to_string(),
            })
            .collect::<Vec<_>>()
            .join(",")
    }
}

fn seeks_str(s: &[bool]) -> String {
    if s.is_empty() {
        "-".to_string()
    } else {
        s.iter().map(|f| if *f { "1" } else { "0" }).collect::<Vec<_>>().join(",")
    }
}

fn gen_sched(r: &mut Rng) -> Vec<Ev> {
    let n = r.below(6) as usize;
    (0..n)
        .map(|_| match r.below(10) {
            0 => Ev::Fault,
            1 => Ev::Cap(1),
            2 => Ev::Cap(2),
            3 => Ev::Cap(7),
            4 => Ev::Cap(8),
            5 => Ev::Cap(15),
            6 => Ev::Cap(16),
            7 => Ev::Intr,
            _ => Ev::Cap(r.range(1, 40) as usize),
        })
        .collect()
}

/// Mostly no seek faults; otherwise up to five entries with one or two failing calls.
fn gen_seeks(r: &mut Rng) -> Vec<bool> {
    if !r.chance(1, 5) {
        return vec![];
    }
    let n = r.range(1, 5) as usize;
    let mut v = vec![false; n];
    let k = r.below(n as u64) as usize;
    v[k] = true;
    if r.chance(1, 6) {
        let k2 = r.below(n as u64) as usize;
        v[k2] = true;
    }
    v
}

/// The Lean witnesses (`sniff_id3_fault_hidden`, `sniff_id3_seek_fault_hidden`,
/// `format_hides_sniff_fault`) replayed on the implementation.
const ID3_FLAC: &[u8] = &[0x49, 0x44, 0x33, 4, 0, 0, 0, 0, 0, 2, 0x78, 0x78, 0x66, 0x4c, 0x61, 0x43];

fn sniff_case(run: &mut Run, pdf: bool, data: &[u8], sched: &[Ev], seeks: &[bool]) {
    let mut s = Sched::new(Cursor::new(data.to_vec()), sched.to_vec()).with_seeks(seeks.to_vec());
    let d = hook11::container_from_stream(&mut s);
    let req = format!("C35 sniff pdf={} sched={} seeks={} data={}", pdf as u8, sched_str(sched), seeks_str(seeks), hex(data));
    let imp = d.unwrap_or("-").to_string();
    // oracle: detection must equal detection on a full-read stream unless a hard fault was
    // delivered; with a fault: nothing, or still the full-read detection — never another container
    let full = hook11::container_from_stream(&mut Cursor::new(data.to_vec()));
    let faulted = s.hard_faults > 0;
    if !faulted && (sched.iter().take(s.i).any(|e| matches!(e, Ev::Cap(k) if *k < 16)) || s.intrs > 0) {
        run.nontrivial(req.clone());
    }
    run.count(if faulted { "sniff_fault" } else if s.intrs > 0 { "sniff_interrupted" } else { "sniff_chunked" });
    if s.j > 0 && !seeks.is_empty() {
        run.count("sniff_seek_schedule");
    }
    let idx = run.case(req.clone(), imp);
    if !faulted && d != full {
        run.fail(idx, "sniff-depends-on-chunking", format!("short reads {:?}: detected {:?}, full read {:?}", sched, d, full));
    }
    if faulted && d.is_some() && d != full {
        if d == Some("mp3") && full == Some("flac") {
            run.nontrivial(format!("id3-probe-fault {req}"));
            run.fail(idx, "sniff-id3-probe-error-hidden", format!("container_from_stream: the ID3 probe's seek/read failed (sched {}, seeks {}) and a FLAC stream behind an ID3 tag was reported as mp3", sched_str(sched), seeks_str(seeks)));
        } else {
            run.fail(idx, "sniff-fault-foreign-container", format!("a fault (sched {}, seeks {}) made container_from_stream report {:?}; full read {:?}", sched_str(sched), seeks_str(seeks), d, full));
        }
    }
}

fn format_case(run: &mut Run, pdf: bool, hint: &str, data: &[u8], sched: &[Ev], seeks: &[bool]) {
    let mut s = Sched::new(Cursor::new(data.to_vec()), sched.to_vec()).with_seeks(seeks.to_vec());
    let got = hook11::format_from_stream(hint, &mut s);
    let fam = hook11::container_from_format(hint);
    let req = format!(
        "C35 format pdf={} hint={} fam={} sched={} seeks={} data={}",
        pdf as u8,
        if hint.is_empty() { "-".to_string() } else { hex(hint.as_bytes()) },
        fam.unwrap_or("-"),
        sched_str(sched),
        seeks_str(seeks),
        hex(data)
    );
    let full = hook11::format_from_stream(hint, &mut Cursor::new(data.to_vec()));
    let faulted = s.hard_faults > 0;
    run.count(if faulted { "format_fault" } else { "format" });
    let idx = run.case(req.clone(), hex(got.as_bytes()));
    if !faulted && got != full {
        run.fail(idx, "sniff-depends-on-chunking", format!("format_from_stream({hint:?}) under short reads {:?}: {got:?}, full read {full:?}", sched));
    }
    if faulted && got != full {
        // the function returns a String: the I/O error cannot be reported and changes the answer
        run.nontrivial(format!("format-fault {req}"));
        let full_d = hook11::container_from_stream(&mut Cursor::new(data.to_vec()));
        let class = if full_d == Some("flac") && got == "mp3" { "sniff-id3-probe-error-hidden" } else { "format-from-stream-hides-io-error" };
        run.fail(idx, class, format!("format_from_stream({hint:?}): an injected fault (sched {}, seeks {}) changed the answer from {full:?} to {got:?} and no error is reported", sched_str(sched), seeks_str(seeks)));
    }
}

fn model_cases(run: &mut Run, rng: &mut Rng) {
    let pdf = hook11::pdf_enabled();
    let n = if run.thorough() { 120_000 } else { 15_000 };
    let magics: Vec<Vec<u8>> = vec![
        vec![0xff, 0xd8, 0xff, 0xe0, 0, 16],
        vec![0x89, 0x50, 0x4e, 0x47, 0x0d, 0x0a, 0x1a, 0x0a, 0, 0, 0, 13],
        b"GIF89a\x01\x00\x01\x00".to_vec(),
        vec![0x49, 0x49, 0x2A, 0x00, 8, 0, 0, 0],
        vec![0x00, 0x00, 0x00, 0x0c, 0x4a, 0x58, 0x4c, 0x20, 0x0d, 0x0a, 0x87, 0x0a, 0, 0, 0, 20],
        b"RIFF\x10\x00\x00\x00WEBP".to_vec(),
        b"\x00\x00\x00\x18ftypmp42\x00\x00\x00\x00".to_vec(),
        b"fLaC\x00\x00\x00\x22".to_vec(),
        b"ID3\x04\x00\x00\x00\x00\x00\x02xxfLaC".to_vec(),
        b"ID3\x04\x00\x00\x00\x00\x00\x02xxxxxx".to_vec(),
        b"ID3\x04ftyp\x00\x02xxfLaC".to_vec(),
        b"ID3\x04\x00\x00\x00\x00\x00\x09xxfL".to_vec(),
        vec![0xff, 0xfb, 0x90, 0x00],
        b"%PDF-1.7\n".to_vec(),
        b"<svg xmlns=''/>".to_vec(),
    ];
    let hints = ["jpg", "image/png", "flac", "audio/flac", "mp3", "audio/mpeg", "tif", "dng", "application/octet-stream", "xyz", " JPG ", "mp4", ""];
    // the Lean witnesses, replayed
    sniff_case(run, pdf, ID3_FLAC, &[Ev::Cap(16), Ev::Fault], &[]);
    sniff_case(run, pdf, ID3_FLAC, &[], &[false, false, true]);
    format_case(run, pdf, "png", &[0xff, 0xd8, 0xff, 0xe0], &[Ev::Fault], &[]);
    format_case(run, pdf, "audio/flac", ID3_FLAC, &[Ev::Cap(16), Ev::Fault], &[]);
    for _ in 0..n {
        let mut r = rng.fork();
        let sched = gen_sched(&mut r);
        match r.below(4) {
            0 | 3 => {
                // sniff / format_from_stream
                let mut data = r.pick(&magics).clone();
                if r.chance(1, 4) {
                    let k = r.below(data.len() as u64 + 1) as usize;
                    data.truncate(k);
                }
                let extra = r.below(12) as usize;
                data.extend(r.bytes(extra));
                let seeks = gen_seeks(&mut r);
                if r.chance(1, 3) {
                    let hint = *r.pick(&hints);
                    format_case(run, pdf, hint, &data, &sched, &seeks);
                } else {
                    sniff_case(run, pdf, &data, &sched, &seeks);
                }
            }
            1 => {
                // box header, from a stream position
                let mut data = match r.below(4) {
                    0 => {
                        let k = r.below(8) as usize;
                        r.bytes(k)
                    }
                    1 => {
                        let mut v = vec![0, 0, 0, 1];
                        v.extend(b"jumb");
                        let k = r.below(10) as usize;
                        v.extend(r.bytes(k));
                        v
                    }
                    _ => {
                        let mut v = (r.below(70000) as u32).to_be_bytes().to_vec();
                        v.extend(*r.pick(&[b"jumb", b"jumd", b"json", b"cbor", b"free", b"xxxx", b"uuid", b"brob"]));
                        let k = r.below(6) as usize;
                        v.extend(r.bytes(k));
                        v
                    }
                };
                if r.chance(1, 10) {
                    data.clear();
                }
                let pos = if r.chance(1, 2) { 0 } else { r.below(6) as usize };
                let mut all = r.bytes(pos);
                all.extend(&data);
                let at = |c: Vec<u8>| {
                    let mut c = Cursor::new(c);
                    c.set_position(pos as u64);
                    c
                };
                let mut s = Sched::new(at(all.clone()), sched.clone());
                let res = hook::read_box_header(&mut s);
                let canon = |res: &Result<(String, u64), String>| match res {
                    Ok((name, size)) => format!("ok {} {}", name.replace(' ', ""), size),
                    Err(e) if e.contains("UnexpectedEof") || e.contains("UnexpectedEOF") => "eof".to_string(),
                    Err(_) => "err".to_string(),
                };
                let req = format!("C35 header pos={} sched={} data={}", pos, sched_str(&sched), hex(&all));
                let imp = canon(&res);
                let full = canon(&hook::read_box_header(&mut at(all.clone())));
                let faulted = s.hard_faults > 0;
                run.count(if faulted { "header_fault" } else if s.first_was_intr { "header_interrupted_first" } else { "header" });
                if !faulted && !s.first_was_intr && (s.intrs > 0 || sched.iter().take(s.i).any(|e| matches!(e, Ev::Cap(k) if *k < 8))) {
                    run.nontrivial(req.clone());
                }
                let idx = run.case(req, imp.clone());
                // oracle: chunk independence; after a fault: the error, or exactly the full-read header
                if !faulted && !s.first_was_intr && imp != full {
                    run.fail(idx, "read-depends-on-chunking", format!("read_header under short reads {}: {imp}, full read {full}", sched_str(&sched)));
                }
                if (faulted || s.first_was_intr) && imp != "err" && imp != full {
                    run.fail(idx, "io-error-hidden", format!("read_header after a fault ({}) returned {imp}; full read {full}", sched_str(&sched)));
                }
            }
            _ => {
                // read_to_vec
                let len = if r.chance(1, 12) { r.range(40, 300) as usize } else { r.below(40) as usize };
                let data = r.bytes(len);
                let pos = match r.below(5) {
                    0 => len as u64,
                    _ => r.below(len as u64 + 3),
                };
                let want = match r.below(6) {
                    0 => 0,
                    1 => len as u64,
                    2 => u64::MAX - r.below(3),
                    _ => r.below(len as u64 + 4),
                };
                let seeks = gen_seeks(&mut r);
                let mut s = Sched::new(
                    {
                        let mut c = Cursor::new(data.clone());
                        c.set_position(pos);
                        c
                    },
                    sched.clone(),
                )
                .with_seeks(seeks.clone());
                let res = hook::read_to_vec(&mut s, want);
                let faulted = s.hard_faults > 0;
                let req = format!("C35 tovec pos={} len={} sched={} seeks={} data={}", pos, want, sched_str(&sched), seeks_str(&seeks), hex(&data));
                let imp = match &res {
                    Ok(v) => format!("ok {}", hex(v)),
                    Err(_) => "err".to_string(),
                };
                run.count(if faulted { "tovec_fault" } else { "tovec" });
                if !faulted && res.is_ok() && (s.intrs > 0 || sched.iter().take(s.i).any(|e| matches!(e, Ev::Cap(k) if (*k as u64) < want))) {
                    run.nontrivial(req.clone());
                }
                let idx = run.case(req, imp);
                // oracle: chunk independence and error propagation
                let full = hook::read_to_vec(
                    &mut {
                        let mut c = Cursor::new(data.clone());
                        c.set_position(pos);
                        c
                    },
                    want,
                );
                match (&res, &full, faulted) {
                    (Ok(a), Ok(b), false) if a != b => run.fail(idx, "read-depends-on-chunking", format!("read_to_vec differs under short reads {}", sched_str(&sched))),
                    (Err(_), Ok(_), false) | (Ok(_), Err(_), false) => run.fail(idx, "read-depends-on-chunking", format!("read_to_vec ok/err differs under short reads {}", sched_str(&sched))),
                    // a fault delivered after the last needed byte cannot happen (std stops asking);
                    // Ok after a delivered fault means the error was dropped
                    (Ok(_), _, true) => run.fail(idx, "io-error-hidden", "read_to_vec returned Ok although a read or seek failed".to_string()),
                    _ => {}
                }
            }
        }
    }
}

fn settings() -> &'static str {
    r#"{"verify":{"remote_manifest_fetch":false,"ocsp_fetch":false}}"#
}

fn read_report<S: Read + Seek + Send>(format: &str, stream: S) -> Result<String, String> {
    let ctx = Context::new().with_settings(settings()).map_err(|e| format!("{e:?}"))?;
    match Reader::from_context(ctx).with_stream(format, stream) {
        Err(e) => {
            let d = format!("{e:?}");
            let cls: String = d.chars().take_while(|c| c.is_ascii_alphanumeric()).collect();
            Err(cls)
        }
        Ok(reader) => {
            let mut v: serde_json::Value = serde_json::from_str(&reader.json()).unwrap_or(serde_json::Value::Null);
            if let Some(o) = v.as_object_mut() {
                if let Some(vr) = o.get_mut("validation_results").and_then(|x| x.as_object_mut()) {
                    vr.remove("validationTime");
                }
            }
            let fails: Vec<String> = reader
                .validation_results()
                .and_then(|r| r.active_manifest())
                .map(|a| a.failure().iter().map(|s| s.code().to_string()).collect())
                .unwrap_or_default();
            Ok(format!("{:?}:{}:{}", reader.validation_state(), fails.join(","), canon_json(&v)))
        }
    }
}

fn sign_with<R: Read + Seek + Send, W: Read + Write + Seek + Send>(format: &str, src: &mut R, dst: &mut W) -> c2pa::Result<()> {
    let signer = EphemeralSigner::new("verif.test")?;
    let ctx = Context::new().with_settings(settings())?.with_signer(signer);
    let mut builder = Builder::from_context(ctx).with_definition(definition("verif asset", format).as_str())?;
    builder.save_to_stream(format, src, dst)?;
    Ok(())
}

fn ks(total: u64, r: &mut Rng, dense: u64, samples: u64, exhaustive: bool) -> Vec<u64> {
    if exhaustive || total <= dense + samples {
        return (0..total).collect();
    }
    let mut v: Vec<u64> = (0..dense).collect();
    for _ in 0..samples {
        v.push(r.range(dense, total - 1));
    }
    v.push(total - 1);
    v.sort();
    v.dedup();
    v
}

fn e2e(run: &mut Run, rng: &mut Rng) {
    let thorough = run.thorough();
    let max_src = 2_600_000;
    let sweep_max = if thorough { 2_600_000 } else { 450_000 };
    let mut chunk_reads = 0u64;
    let mut fault_runs = 0u64;
    for (fmt, name) in unsigned_sources() {
        let src = match std::fs::read(fixtures().join(name)) {
            Ok(s) if s.len() <= max_src => s,
            _ => continue,
        };
        let signed = match guarded(|| sign_asset(fmt, &src, Some(settings()))) {
            Ok(Ok(s)) => s,
            other => {
                run.notes.push(format!("could not sign {name}: {:?}", other.map(|r| r.map(|v| v.len()))));
                continue;
            }
        };
        let baseline = match read_report(fmt, Cursor::new(signed.clone())) {
            Ok(b) => b,
            Err(e) => {
                run.notes.push(format!("baseline read of signed {name} failed: {e}"));
                continue;
            }
        };
        run.count(&format!("asset_{fmt}"));

        // (1) chunked reads: random short reads with several caps
        for cap in [1usize, 2, 3, 7, 16, 61, 4096] {
            if cap < 3 && signed.len() > 300_000 && !thorough {
                continue;
            }
            let seed = rng.next();
            let rep = guarded(|| read_report(fmt, Sched::random(Cursor::new(signed.clone()), seed, cap)));
            chunk_reads += 1;
            let idx = run.reqs.len().saturating_sub(1);
            match rep {
                Ok(Ok(r)) if r == baseline => {
                    run.nontrivial(format!("chunkread {name} cap={cap}"));
                }
                Ok(Ok(_)) => run.fail(idx, "report-depends-on-chunking", format!("{name}: reading with short reads (cap {cap}, seed {seed}) gives a different report")),
                Ok(Err(e)) => run.fail(idx, if id3_family(fmt) && e == "JumbfNotFound" { "id3-header-short-read" } else { "report-depends-on-chunking" }, format!("{name}: reading with short reads (cap {cap}, seed {seed}) fails with {e} while a full-read stream validates")),
                Err(p) => run.fail(idx, "panic", format!("{name}: panic with short reads cap {cap}: {p}")),
            }
            // wrong hint + short reads (the sniff path)
            let rep = guarded(|| read_report("application/octet-stream", Sched::random(Cursor::new(signed.clone()), seed, cap)));
            chunk_reads += 1;
            if fmt != "image/svg+xml" {
                match rep {
                    Ok(Ok(r)) if r == baseline => {
                        run.nontrivial(format!("chunkread-nohint {name} cap={cap}"));
                    }
                    Ok(Ok(_)) => run.fail(idx, "report-depends-on-chunking", format!("{name}: unknown hint + short reads (cap {cap}) gives a different report")),
                    Ok(Err(e)) => run.fail(idx, if id3_family(fmt) && e == "JumbfNotFound" { "id3-header-short-read" } else { "sniff-depends-on-chunking" }, format!("{name}: unknown hint + short reads (cap {cap}, seed {seed}) fails with {e}; with full reads the container is detected and the asset validates")),
                    Err(p) => run.fail(idx, "panic", format!("{name}: panic {p}")),
                }
            }
        }

        // (1b) short reads with `Interrupted` sprinkled in: callers are expected to retry; a caller
        // that does not must return the error — never a different report
        for cap in [7usize, 61] {
            let seed = rng.next();
            let rep = guarded(|| {
                let mut s = Sched::random(Cursor::new(signed.clone()), seed, cap);
                s.intr_den = 5;
                read_report(fmt, s)
            });
            chunk_reads += 1;
            let idx = run.reqs.len().saturating_sub(1);
            match rep {
                Ok(Ok(r)) if r == baseline => {
                    run.nontrivial(format!("interrupted-read {name} cap={cap}"));
                    run.count("interrupted_read_same_report");
                }
                Ok(Ok(_)) => run.fail(idx, "interrupted-read-changes-report", format!("{name}: short reads (cap {cap}, seed {seed}) with Interrupted injected give a different report")),
                Ok(Err(e)) => {
                    // an error is an acceptable outcome for the statement; recorded for the evidence
                    run.count(&format!("interrupted_read_error_{e}"));
                }
                Err(p) => run.fail(idx, "panic", format!("{name}: panic with Interrupted injected (cap {cap}): {p}")),
            }
        }

        // (2) chunked sign: short reads on the source and short writes on the destination
        for cap in [1usize, 5, 64, 1000] {
            if cap < 64 && src.len() > 200_000 && !thorough {
                continue;
            }
            let seed = rng.next();
            let out = guarded(|| {
                let mut s = Sched::random(Cursor::new(src.clone()), seed, cap);
                let mut d = Sched::random(Cursor::new(Vec::new()), seed ^ 0x55, cap.max(3));
                sign_with(fmt, &mut s, &mut d).map(|_| d.inner.into_inner())
            });
            let idx = run.reqs.len().saturating_sub(1);
            match out {
                Ok(Ok(bytes)) => match read_report(fmt, Cursor::new(bytes.clone())) {
                    Ok(r) if r.starts_with("Valid") || r.starts_with("Trusted") => {
                        // sizes may differ by a few bytes between two signings (ephemeral certificate
                        // serial/timestamps), so only validity is compared
                        run.nontrivial(format!("chunksign {name} cap={cap}"));
                    }
                    Ok(r) => run.fail(idx, "sign-depends-on-chunking", format!("{name}: asset signed through short reads/writes (cap {cap}) reads back {}", &r[..r.len().min(80)])),
                    Err(e) => run.fail(idx, "sign-depends-on-chunking", format!("{name}: asset signed through short reads/writes (cap {cap}) fails to read: {e}")),
                },
                Ok(Err(e)) => run.fail(idx, "sign-depends-on-chunking", format!("{name}: signing through short reads/writes (cap {cap}, seed {seed}) fails: {e:?}")),
                Err(p) => run.fail(idx, "panic", format!("{name}: panic signing with short transfers: {p}")),
            }
        }

        if src.len() > sweep_max {
            continue;
        }
        // (3) fault at op k while reading
        let total = {
            let mut f = Fault::new(Cursor::new(signed.clone()), None, false);
            let _ = read_report(fmt, &mut f);
            f.ops
        };
        // exhaustive in k whenever affordable: the set of call sites that absorb a transient fault
        // must not depend on the seed
        let exhaustive = total < 800 || (thorough && total < 6000);
        // plan: (None, k) = fail at op k counting all kinds together; (Some(kind), j) = fail at the
        // j-th seek (every reader seeks far less often than it reads, so seeks get their own sweep)
        let n_seeks = {
            let mut f = Fault::new(Cursor::new(signed.clone()), None, false);
            let _ = read_report(fmt, &mut f);
            f.per_kind.2
        };
        let mut plan: Vec<(Option<&'static str>, u64)> = ks(total, rng, 48, if thorough { 400 } else { 40 }, exhaustive).into_iter().map(|k| (None, k)).collect();
        if !exhaustive {
            plan.extend(ks(n_seeks, rng, 16, if thorough { 200 } else { 24 }, thorough && n_seeks < 3000).into_iter().map(|j| (Some("seek"), j)));
        }
        for sticky in [true, false] {
            for &(by_kind, k) in &plan {
                let mut f = match by_kind {
                    None => Fault::new(Cursor::new(signed.clone()), Some(k), sticky),
                    Some(kind) => Fault::at_kind(Cursor::new(signed.clone()), kind, k, sticky),
                };
                if by_kind.is_some() {
                    run.count("read_seek_fault_runs");
                }
                let rep = guarded(std::panic::AssertUnwindSafe(|| read_report(fmt, &mut f)));
                fault_runs += 1;
                let idx = run.reqs.len().saturating_sub(1);
                let kind = f.hit.unwrap_or("none");
                match rep {
                    Err(p) => run.fail(idx, "panic", format!("{name}: panic when {kind} op {k} fails: {p}")),
                    Ok(Err(_)) => {
                        run.nontrivial(format!("faultread {name} {k} {sticky}"));
                    }
                    Ok(Ok(r)) => {
                        // Fail-stop (sticky) streams: the operation must return an error. A transient
                        // fault may be absorbed by a retry/optional probe only if the result is
                        // exactly the fault-free report (nothing was lost or mis-reported).
                        if f.hit.is_some() {
                            let site = f.site.clone().unwrap_or_else(|| "unknown".to_string());
                            // A fail-stop stream, or a result that differs from the fault-free report,
                            // is an I/O error turned into a (wrong) verdict. A single transient fault
                            // that is absorbed with an unchanged report is still an I/O error that was
                            // not returned: it is classed by the SDK call site that swallowed it, so
                            // that the reviewed optional probes can be listed one by one.
                            let class = if sticky || r != baseline {
                                "io-error-hidden-read".to_string()
                            } else {
                                format!("transient-io-absorbed:{site}")
                            };
                            run.fail(idx, &class, format!("{name}: {kind} op {k} of {total} failed ({}) in {site} but the read returned Ok ({})", if sticky { "sticky" } else { "transient" }, &r[..r.len().min(90)]));
                        }
                    }
                }
            }
        }

        // (4) fault at op k while signing: source faults and destination faults (reads, writes and
        // seeks), fail-stop and transient; by global op index and by the j-th op of each kind
        if src.len() <= 450_000 || thorough {
            let (src_total, dst_total, src_kinds, dst_kinds) = {
                let mut s = Fault::new(Cursor::new(src.clone()), None, false);
                let mut d = Fault::new(Cursor::new(Vec::new()), None, false);
                let _ = sign_with(fmt, &mut s, &mut d);
                (s.ops, d.ops, s.per_kind, d.per_kind)
            };
            for (side, total, kinds) in [("src", src_total, src_kinds), ("dst", dst_total, dst_kinds)] {
                let exhaustive = thorough && total < 3000;
                let mut plan: Vec<(Option<&'static str>, u64)> = ks(total, rng, 24, if thorough { 200 } else { 24 }, exhaustive).into_iter().map(|k| (None, k)).collect();
                for (kind, n_kind) in [("read", kinds.0), ("write", kinds.1), ("seek", kinds.2)] {
                    if n_kind == 0 || (kind == "read" && side == "src") {
                        // source reads dominate the source's global sweep already
                        continue;
                    }
                    plan.extend(ks(n_kind, rng, 10, if thorough { 120 } else { 14 }, thorough && n_kind < 1500).into_iter().map(|j| (Some(kind), j)));
                }
                for sticky in [true, false] {
                    for &(by_kind, k) in &plan {
                        if !sticky && by_kind.is_none() && !thorough && k >= 24 {
                            // quick: the transient sweep keeps the dense prefix and the per-kind samples
                            continue;
                        }
                        let mk = |on: bool, data: Vec<u8>| -> Fault<Cursor<Vec<u8>>> {
                            if !on {
                                return Fault::new(Cursor::new(data), None, sticky);
                            }
                            match by_kind {
                                None => Fault::new(Cursor::new(data), Some(k), sticky),
                                Some(kind) => Fault::at_kind(Cursor::new(data), kind, k, sticky),
                            }
                        };
                        let mut s = mk(side == "src", src.clone());
                        let mut d = mk(side == "dst", Vec::new());
                        let res = guarded(std::panic::AssertUnwindSafe(|| sign_with(fmt, &mut s, &mut d)));
                        fault_runs += 1;
                        run.count(&format!("sign_fault_{side}_{}", by_kind.unwrap_or("any")));
                        let idx = run.reqs.len().saturating_sub(1);
                        let (hit, site) = if side == "src" { (s.hit, s.site.clone()) } else { (d.hit, d.site.clone()) };
                        let what = match by_kind {
                            None => format!("op {k} of {total}"),
                            Some(kind) => format!("{kind} #{k}"),
                        };
                        match res {
                            Err(p) => run.fail(idx, "panic", format!("{name}: panic when {side} {what} fails during sign: {p}")),
                            Ok(Err(_)) => {
                                run.nontrivial(format!("faultsign {name} {side} {what} {sticky}"));
                            }
                            Ok(Ok(())) => {
                                if let Some(kind) = hit {
                                    let site = site.unwrap_or_else(|| "unknown".to_string());
                                    // Fail-stop: signing must fail. Transient: an absorbed fault is
                                    // tolerable only if the written asset is intact (reads back
                                    // Valid); it is still classed by the call site that dropped it.
                                    let out = d.inner.get_ref().clone();
                                    let intact = matches!(read_report(fmt, Cursor::new(out)), Ok(r) if r.starts_with("Valid") || r.starts_with("Trusted"));
                                    let class = if sticky || !intact { "io-error-hidden-sign".to_string() } else { format!("transient-io-absorbed-sign:{site}") };
                                    run.fail(idx, &class, format!("{name}: {side} {kind} {what} failed ({}) in {site} but signing returned Ok (output {})", if sticky { "sticky" } else { "transient" }, if intact { "validates" } else { "does NOT validate" }));
                                }
                            }
                        }
                    }
                }
            }
        }
    }
    run.notes.push(format!("end-to-end: chunked reads {chunk_reads}, fault-injected runs {fault_runs}"));
}

/// Regression guard for fixes/C35-id3-tag-read-io-error.patch, cheap enough for the quick tier:
/// a short MP3 (the first 60 kB of sample1.mp3: ID3v2 tag with a TSSE frame + audio frames) is
/// signed with one transient fault at every source operation. If signing succeeds although the
/// fault was delivered, the written tag must still carry the source's frames.
fn id3_frames_kept(run: &mut Run) {
    let fmt = "audio/mpeg";
    let src = match std::fs::read(fixtures().join("sample1.mp3")) {
        Ok(s) if s.len() > 60_000 && s.windows(4).take(200).any(|w| w == b"TSSE") => s[..60_000].to_vec(),
        _ => {
            run.notes.push("id3_frames_kept: sample1.mp3 missing or without a TSSE frame".to_string());
            return;
        }
    };
    let total = {
        let mut s = Fault::new(Cursor::new(src.clone()), None, false);
        let mut d = Cursor::new(Vec::new());
        if let Err(e) = sign_with(fmt, &mut s, &mut d) {
            run.notes.push(format!("id3_frames_kept: fault-free signing of the short mp3 failed: {e:?}"));
            return;
        }
        s.ops
    };
    let mut absorbed = 0;
    for k in 0..total.min(600) {
        let mut s = Fault::new(Cursor::new(src.clone()), Some(k), false);
        let mut d = Cursor::new(Vec::new());
        let res = guarded(std::panic::AssertUnwindSafe(|| sign_with(fmt, &mut s, &mut d)));
        run.count("id3_frames_kept_runs");
        let idx = run.reqs.len().saturating_sub(1);
        match res {
            Err(p) => run.fail(idx, "panic", format!("short mp3: panic when src op {k} fails during sign: {p}")),
            Ok(Err(_)) => {
                run.nontrivial(format!("id3-frames-kept {k}"));
            }
            Ok(Ok(())) => {
                if let Some(kind) = s.hit {
                    let site = s.site.clone().unwrap_or_else(|| "unknown".to_string());
                    let out = d.into_inner();
                    let frames_kept = out.windows(4).take(4096).any(|w| w == b"TSSE");
                    let intact = matches!(read_report(fmt, Cursor::new(out)), Ok(r) if r.starts_with("Valid") || r.starts_with("Trusted"));
                    absorbed += 1;
                    let class = if !frames_kept {
                        "id3-frames-lost-on-io-error".to_string()
                    } else if !intact {
                        "io-error-hidden-sign".to_string()
                    } else {
                        format!("transient-io-absorbed-sign:{site}")
                    };
                    run.fail(idx, &class, format!("short mp3: src {kind} op {k} of {total} failed (transient) in {site} but signing returned Ok (frames {}, output {})", if frames_kept { "kept" } else { "LOST" }, if intact { "validates" } else { "does NOT validate" }));
                }
            }
        }
    }
    run.notes.push(format!("id3_frames_kept: {} source ops swept, {absorbed} absorbed", total.min(600)));
}

/// Inventory of bare `.read(&mut` call sites (a `read` whose byte count is consumed without a
/// loop). Every site must be one of the reviewed ones.
fn single_read_inventory(run: &mut Run) {
    let reviewed: &[(&str, &str)] = &[
        ("jumbf_io.rs", "container_from_stream sniff buffer (user stream) — modelled: sniff"),
        ("jumbf/boxes.rs", "BoxReader::read_header (in-memory cursor only) — modelled: header"),
        ("jumbf/boxes.rs", "BoxReader::read_desc_box uuid (in-memory cursor only)"),
    ];
    let mut found: Vec<(String, usize, String)> = vec![];
    fn walk(dir: &std::path::Path, out: &mut Vec<std::path::PathBuf>) {
        if let Ok(rd) = std::fs::read_dir(dir) {
            for e in rd.flatten() {
                let p = e.path();
                if p.is_dir() {
                    walk(&p, out);
                } else if p.extension().map(|x| x == "rs").unwrap_or(false) {
                    out.push(p);
                }
            }
        }
    }
    let mut files = vec![];
    walk(std::path::Path::new("/repo/sdk/src"), &mut files);
    files.sort();
    for f in files {
        let rel = f.strip_prefix("/repo/sdk/src").unwrap().to_string_lossy().to_string();
        if rel.starts_with("verif_hooks") {
            continue;
        }
        let text = std::fs::read_to_string(&f).unwrap_or_default();
        // stop at the test module
        let body = match text.find("#[cfg(test)]") {
            Some(i) => &text[..i],
            None => &text[..],
        };
        for (ln, line) in body.lines().enumerate() {
            let t = line.trim();
            if t.starts_with("//") {
                continue;
            }
            if t.contains(".read(&mut") && !t.contains("fn read") {
                found.push((rel.clone(), ln + 1, t.to_string()));
            }
        }
    }
    let mut ok = true;
    for (file, ln, text) in &found {
        if !reviewed.iter().any(|(f, _)| f == file) {
            ok = false;
            run.notes.push(format!("UNREVIEWED single read: {file}:{ln}: {text}"));
        }
    }
    let per_file = |f: &str| found.iter().filter(|x| x.0 == f).count();
    if per_file("jumbf_io.rs") > 1 || per_file("jumbf/boxes.rs") > 2 {
        ok = false;
        run.notes.push("more single-read sites than reviewed in jumbf_io.rs / jumbf/boxes.rs".to_string());
    }
    run.notes.push(format!("single-read inventory: {} sites: {:?}", found.len(), found.iter().map(|x| format!("{}:{}", x.0, x.1)).collect::<Vec<_>>()));
    run.obligations.insert("single_reads_all_reviewed".to_string(), ok);
}

pub fn run(run: &mut Run, rng: &mut Rng) {
    run.rule = "model level: magic-prefixed streams / box headers / read_to_vec requests under read schedules (per-call caps, 0 = fault); non-trivial = at least one consumed cap shorter than the request. implementation level: every freshly signed asset (one per writable container) read through randomly short reads (7 caps, right and unknown hint), signed through short reads+writes, and with an I/O fault injected at op k (dense first ops + sampled, exhaustive in thorough for short traces), sticky and transient; non-trivial = the faulted/short op was reached".to_string();
    model_cases(run, rng);
    single_read_inventory(run);
    id3_frames_kept(run);
    e2e(run, rng);
}

/// MP3 and FLAC are parsed through the third-party `id3` crate, whose tag-header decode does a
/// single 10-byte `read` (known finding `id3-header-short-read`).
fn id3_family(fmt: &str) -> bool {
    matches!(fmt, "audio/mpeg" | "audio/flac")
}
