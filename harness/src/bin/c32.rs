//! C32 — c2patool never clobbers outputs and its signed files validate.
//!
//! The binary is rebuilt from /repo/cli's current working tree at start-up (plain build, no
//! verif cfg) and run over a finite configuration space in scratch directories. For every
//! run the directory tree is snapshotted before and after (paths, kinds, content hashes) and
//! canonicalised to the reply of the Lean model:
//!
//!   C32 run path=<p|-> out=<p|-> msrc=<n|f|c> flags=<letters|-> cmd=<-|trust|frag:<0|1>:<rend;…>>
//!       facts=<letters|-> [alias=<path>><location>;…] fs=<path:f|path:d,…>
//!                                                            -> <outcome> <path:change,…|->
//!
//! `alias` names the path strings whose location is not the lexical one: `sub/../in.jpg`,
//! `@/in.jpg` (`@` = the absolute path of the case directory), `ln/in.jpg` (`ln` a symlink to
//! `.`), and an input read through a file symlink. The model takes the location from there and
//! the string functions (`PathBuf ==`, file_name, extension, with_extension) from the spelling.
//!
//! flags: p parent, s sidecar, r remote, f force, i ingredient, d detailed, e early (--info/--tree/--certs)
//! facts: F format check of the branch passes, S signing / ingredient loading succeeds on the
//!        source, U set-up (manifest JSON, signer) succeeds, M the source holds a manifest store,
//!        R the closing report can read the output (false offline for --sidecar --remote),
//!        G fragments parse.
//!
//! Oracle on the implementation (independent of the model):
//!   * without --force no entry that existed before the run changed or vanished;
//!   * with --force every changed pre-existing entry is the declared output, the sidecar next
//!     to it, or lies inside the declared output folder (folder modes only: in signing mode
//!     `-o .` declares nothing below the working directory);
//!   * a run without `-o` changes nothing at all (no entry changed, vanished or appeared);
//!   * exit status 0 of a signing run: the output reads back Valid or Trusted with the SDK.

use std::{
    collections::BTreeMap,
    fs,
    io::Cursor,
    path::{Path, PathBuf},
    process::Command,
    sync::{Arc, Mutex},
    thread,
};

use c2pa::{validation_results::ValidationState, Context, Reader};
use sha2::{Digest, Sha256};
use vh::common::{main_with, scratch, Rng, Run};

const CLI_TARGET: &str = "/verif/.build/cli-target";
const REMOTE_URL: &str = "http://127.0.0.1:9/m.c2pa";
const REPORT_NAMES: [&str; 3] = ["ingredient.json", "detailed.json", "manifest_store.json"];

fn main() {
    main_with("C32", run);
}

/* ---------- building the tool from the working tree ---------- */

fn cli_package_name() -> String {
    let txt = fs::read_to_string("/repo/cli/Cargo.toml").unwrap_or_default();
    let v: toml::Value = toml::from_str(&txt).unwrap_or(toml::Value::Boolean(false));
    v.get("package")
        .and_then(|p| p.get("name"))
        .and_then(|n| n.as_str())
        .unwrap_or("c2patool")
        .to_string()
}

fn build_cli() -> PathBuf {
    let pkg = cli_package_name();
    let out = Command::new("cargo")
        .args(["build", "--offline", "-p", &pkg])
        .current_dir("/repo")
        .env("CARGO_TARGET_DIR", CLI_TARGET)
        .env("CARGO_NET_OFFLINE", "true")
        .env_remove("RUSTFLAGS")
        .env_remove("CARGO_ENCODED_RUSTFLAGS")
        .env_remove("CARGO_BUILD_RUSTFLAGS")
        .env_remove("RUSTC_WRAPPER")
        .output();
    match out {
        Ok(o) if o.status.success() => {}
        Ok(o) => {
            let e = String::from_utf8_lossy(&o.stderr);
            let tail: String = e.lines().rev().take(40).collect::<Vec<_>>().into_iter().rev().collect::<Vec<_>>().join("\n");
            eprintln!("c2patool does not build from /repo/cli:\n{tail}");
            std::process::exit(3);
        }
        Err(e) => {
            eprintln!("cannot run cargo: {e}");
            std::process::exit(3);
        }
    }
    let bin = PathBuf::from(CLI_TARGET).join("debug").join(&pkg);
    if !bin.exists() {
        eprintln!("built binary not found at {bin:?}");
        std::process::exit(3);
    }
    bin
}

/* ---------- scenarios ---------- */

#[derive(Clone)]
enum Pre {
    Dir,
    /// distinctive content `PRE:<path>`
    Junk,
    Bytes(Arc<Vec<u8>>),
    /// symbolic link with this target (relative to the link's folder)
    Symlink(String),
    /// hard link to this entry (path relative to the case directory; created before)
    HardLink(String),
}

#[derive(Clone)]
enum Verify {
    No,
    File(String),
    Fragments(String, Vec<String>),
}

#[derive(Clone)]
struct Case {
    group: &'static str,
    pre: Vec<(String, Pre)>,
    args: Vec<String>,
    /// request without the `fs=` field (added from the snapshot)
    req: String,
    force: bool,
    /// locations (normalised, relative) the run may replace when forced
    declared: Vec<String>,
    verify: Verify,
    /// success of a read-only report is not compared
    ro_rule: bool,
    /// report-folder mode: children the SDK adds are not compared
    folder_out: Option<String>,
    input_bytes: Option<Arc<Vec<u8>>>,
    frag_mode: bool,
    /// a declared output existed before the run (non-trivial for the property)
    declared_exists: bool,
    /// path strings (as in the request) whose location is not the lexical one
    alias: Vec<(String, String)>,
    /// the command line has no `-o`
    no_output: bool,
}

/// placeholder in `args` for the absolute path of the case directory (`@` in the request)
const ROOT: &str = "@ROOT@";

struct Fmt {
    /// extension spellings with the same `ext_normal`
    exts: &'static [&'static str],
    fixture: &'static str,
    /// an extension with a different `ext_normal`
    other: &'static str,
}

const FMTS: &[Fmt] = &[
    Fmt { exts: &["jpg", "jpeg", "JPG"], fixture: "/repo/cli/sample/image.jpg", other: "png" },
    Fmt { exts: &["png", "PNG"], fixture: "/repo/sdk/tests/fixtures/libpng-test.png", other: "jpg" },
    Fmt { exts: &["webp"], fixture: "/repo/sdk/tests/fixtures/sample1.webp", other: "jpg" },
    Fmt { exts: &["svg"], fixture: "/repo/sdk/tests/fixtures/sample1.svg", other: "jpg" },
    Fmt { exts: &["tiff", "tif", "TIFF"], fixture: "/repo/sdk/tests/fixtures/test.tiff", other: "jpg" },
    Fmt { exts: &["avif"], fixture: "/repo/sdk/tests/fixtures/sample1.avif", other: "jpg" },
];

struct Env {
    bin: PathBuf,
    base: PathBuf,
    manifest_json: String,
    assets: Vec<Arc<Vec<u8>>>,
    signed_jpg: Arc<Vec<u8>>,
    init: Arc<Vec<u8>>,
    frags: Vec<Arc<Vec<u8>>>,
}

fn norm(p: &str) -> String {
    let parts: Vec<&str> = p.split('/').filter(|c| !c.is_empty() && *c != ".").collect();
    if parts.is_empty() {
        ".".to_string()
    } else {
        parts.join("/")
    }
}

fn flags_str(f: &[(char, bool)]) -> String {
    let s: String = f.iter().filter(|x| x.1).map(|x| x.0).collect();
    if s.is_empty() {
        "-".into()
    } else {
        s
    }
}

fn sidecar_of(out: &str) -> String {
    norm(&Path::new(out).with_extension("c2pa").to_string_lossy())
}

#[derive(Clone, Copy, PartialEq, Debug)]
enum OutKind {
    Absent,
    File,
    Dir,
    Same,
    Alias,
    MissingParent,
    Subdir,
    ExtMismatch,
    /// `sub.d/../<input>` (sub.d exists)
    AliasDotDot,
    /// absolute path of the input
    AliasAbs,
    /// `ln/<input>` where `ln` is a symlink to `.`
    AliasDirLink,
    /// the output is a symlink to the input
    LinkToInput,
    /// the output is a symlink to a bystander file
    LinkToOther,
    /// the output is a hard link to the input
    HardLinkInput,
    /// the output is the real file, PATH reaches it through `sub.d/../<input>`
    PathDotDot,
    /// … through the absolute path
    PathAbs,
    /// … through a file symlink
    PathLink,
}

#[derive(Clone, Copy, PartialEq, Debug)]
enum ScState {
    Absent,
    File,
    Dir,
}

#[derive(Clone, Copy, PartialEq, Debug)]
enum Input {
    Valid,
    Garbage,
    Missing,
}

#[allow(clippy::too_many_arguments)]
fn sign_case(
    env: &Env,
    r: &mut Rng,
    fi: usize,
    input: Input,
    ok: OutKind,
    force: bool,
    sidecar: bool,
    sc: ScState,
    remote: bool,
    msrc: char,
    parent: bool,
    trust: bool,
) -> Case {
    let f = &FMTS[fi];
    let in_name = format!("{}.{}", r.pick(&["in", "photo.v2", "a-b"]), r.pick(f.exts));
    let out_ext = *r.pick(f.exts);
    let in_ext = Path::new(&in_name).extension().map(|e| e.to_string_lossy().into_owned()).unwrap_or_default();
    // the output as spelled in the request (`@` = case directory) and the location it leads to
    let out_arg = match ok {
        OutKind::Absent | OutKind::File | OutKind::Dir => format!("{}.{}", r.pick(&["out", "res.x"]), out_ext),
        OutKind::Same | OutKind::PathDotDot | OutKind::PathAbs | OutKind::PathLink => in_name.clone(),
        OutKind::Alias => format!("./{in_name}"),
        OutKind::MissingParent => format!("nx/sub/out.{out_ext}"),
        OutKind::Subdir => format!("sub.d/out.{out_ext}"),
        OutKind::ExtMismatch => format!("out.{}", f.other),
        OutKind::AliasDotDot => format!("sub.d/../{in_name}"),
        OutKind::AliasAbs => format!("@/{in_name}"),
        OutKind::AliasDirLink => format!("ln/{in_name}"),
        OutKind::LinkToInput | OutKind::LinkToOther => format!("lnk.{out_ext}"),
        OutKind::HardLinkInput => format!("hl.{out_ext}"),
    };
    let out_loc = match ok {
        OutKind::AliasDotDot | OutKind::AliasAbs | OutKind::AliasDirLink => in_name.clone(),
        _ => norm(&out_arg),
    };
    let path_arg = match ok {
        OutKind::PathDotDot => format!("sub.d/../{in_name}"),
        OutKind::PathAbs => format!("@/{in_name}"),
        OutKind::PathLink => format!("pl.{in_ext}"),
        _ => in_name.clone(),
    };
    let mut alias: Vec<(String, String)> = vec![];
    if norm(&out_arg) != out_loc {
        alias.push((norm(&out_arg), out_loc.clone()));
        alias.push((sidecar_of(&out_arg), sidecar_of(&out_loc)));
    }
    if path_arg != in_name {
        alias.push((norm(&path_arg), in_name.clone()));
    }
    let mut pre: Vec<(String, Pre)> = vec![("other.txt".into(), Pre::Junk), ("keep".into(), Pre::Dir), ("keep/k.bin".into(), Pre::Junk)];
    let input_bytes = match input {
        Input::Valid => Some(env.assets[fi].clone()),
        Input::Garbage => Some(Arc::new(b"this is not an image\n".to_vec())),
        Input::Missing => None,
    };
    if let Some(b) = &input_bytes {
        pre.push((in_name.clone(), Pre::Bytes(b.clone())));
    }
    match ok {
        OutKind::File => pre.push((out_arg.clone(), Pre::Junk)),
        OutKind::Dir => pre.push((out_arg.clone(), Pre::Dir)),
        OutKind::Subdir | OutKind::AliasDotDot | OutKind::PathDotDot => pre.push(("sub.d".into(), Pre::Dir)),
        OutKind::AliasDirLink => pre.push(("ln".into(), Pre::Symlink(".".into()))),
        OutKind::LinkToInput => pre.push((out_arg.clone(), Pre::Symlink(in_name.clone()))),
        OutKind::LinkToOther => pre.push((out_arg.clone(), Pre::Symlink("keep/k.bin".into()))),
        OutKind::HardLinkInput if input_bytes.is_some() => pre.push((out_arg.clone(), Pre::HardLink(in_name.clone()))),
        OutKind::PathLink => pre.push((path_arg.clone(), Pre::Symlink(in_name.clone()))),
        _ => {}
    }
    let sc_path = sidecar_of(&out_loc);
    let out_n = out_loc.clone();
    let in_exists = input != Input::Missing;
    let mut declared_exists = matches!(ok, OutKind::File | OutKind::Dir | OutKind::LinkToOther)
        || (in_exists
            && matches!(
                ok,
                OutKind::Same
                    | OutKind::Alias
                    | OutKind::AliasDotDot
                    | OutKind::AliasAbs
                    | OutKind::AliasDirLink
                    | OutKind::HardLinkInput
                    | OutKind::PathDotDot
                    | OutKind::PathAbs
                    | OutKind::PathLink
            ))
        || ok == OutKind::LinkToInput;
    if sc_path != out_n && !pre.iter().any(|p| p.0 == sc_path) {
        match sc {
            ScState::File => pre.push((sc_path.clone(), Pre::Junk)),
            ScState::Dir => pre.push((sc_path.clone(), Pre::Dir)),
            ScState::Absent => {}
        }
        if sc != ScState::Absent && sidecar {
            declared_exists = true;
        }
    }
    let cli = |s: &str| -> String {
        match s.strip_prefix("@/") {
            Some(rest) => format!("{ROOT}/{rest}"),
            None => s.to_string(),
        }
    };
    let mut args: Vec<String> = vec![cli(&path_arg)];
    match msrc {
        'f' => {
            pre.push(("m.json".into(), Pre::Bytes(Arc::new(env.manifest_json.clone().into_bytes()))));
            args.push("-m".into());
            args.push("m.json".into());
        }
        _ => {
            args.push("-c".into());
            args.push(env.manifest_json.clone());
        }
    }
    args.push("-o".into());
    args.push(cli(&out_arg));
    if force {
        args.push("-f".into());
    }
    if sidecar {
        args.push("--sidecar".into());
    }
    if remote {
        args.push("--remote".into());
        args.push(REMOTE_URL.into());
    }
    if parent {
        args.push("--parent".into());
        args.push(in_name.clone());
    }
    if trust {
        args.push("trust".into());
        args.push("--trust_anchors".into());
        args.push("/repo/cli/sample/trust_anchors.pem".into());
    }
    let facts = flags_str(&[
        ('F', true),
        ('S', input == Input::Valid),
        ('U', !(parent && input != Input::Valid)),
        ('M', false),
        ('R', !(sidecar && remote)),
        ('G', true),
    ]);
    let flags = flags_str(&[('p', parent), ('s', sidecar), ('r', remote), ('f', force)]);
    let req = format!(
        "C32 run path={path_arg} out={out_arg} msrc={msrc} flags={flags} cmd={} facts={facts}",
        if trust { "trust" } else { "-" }
    );
    let mut declared = vec![out_n.clone()];
    if sidecar {
        declared.push(sc_path);
    }
    Case {
        group: "sign",
        pre,
        args,
        req,
        force,
        declared,
        verify: Verify::File(out_n),
        ro_rule: false,
        folder_out: None,
        input_bytes,
        frag_mode: false,
        declared_exists,
        alias,
        no_output: false,
    }
}

#[derive(Clone, Copy, PartialEq, Debug)]
enum FolderOut {
    Absent,
    DirEmpty,
    DirFull,
    File,
    Nested,
    Dotted,
    HoldsInput,
    /// `keep/../rep` for a full folder `rep`
    AliasDotDot,
    /// absolute path of a full folder `rep`
    AliasAbs,
    /// `-o .` (never forced: that removes the content of the working directory)
    Dot,
}

#[derive(Clone, Copy, PartialEq, Debug)]
enum FolderIn {
    Signed,
    Unsigned,
    Missing,
}

fn folder_case(env: &Env, fin: FolderIn, fo: FolderOut, force: bool, ingredient: bool, detailed: bool) -> Case {
    let mut pre: Vec<(String, Pre)> = vec![("other.txt".into(), Pre::Junk)];
    let out = match fo {
        FolderOut::Nested => "a/b.c/rep",
        FolderOut::Dotted => "rel.v1.0",
        FolderOut::Dot => ".",
        _ => "rep",
    }
    .to_string();
    // spelling of the output on the command line / in the request
    let out_arg = match fo {
        FolderOut::AliasDotDot => "keep/../rep".to_string(),
        FolderOut::AliasAbs => "@/rep".to_string(),
        _ => out.clone(),
    };
    let mut alias = vec![];
    if norm(&out_arg) != out {
        alias.push((norm(&out_arg), out.clone()));
        pre.push(("keep".into(), Pre::Dir));
    }
    let in_path = if fo == FolderOut::HoldsInput { format!("{out}/s.jpg") } else { "s.jpg".to_string() };
    let bytes = match fin {
        FolderIn::Signed => Some(env.signed_jpg.clone()),
        FolderIn::Unsigned => Some(env.assets[0].clone()),
        FolderIn::Missing => None,
    };
    match fo {
        FolderOut::DirEmpty | FolderOut::HoldsInput => pre.push((out.clone(), Pre::Dir)),
        FolderOut::DirFull | FolderOut::Dotted | FolderOut::AliasDotDot | FolderOut::AliasAbs => {
            pre.push((out.clone(), Pre::Dir));
            pre.push((format!("{out}/old.txt"), Pre::Junk));
            pre.push((format!("{out}/manifest_store.json"), Pre::Junk));
            pre.push((format!("{out}/sub"), Pre::Dir));
            pre.push((format!("{out}/sub/x.bin"), Pre::Junk));
        }
        FolderOut::File => pre.push((out.clone(), Pre::Junk)),
        _ => {}
    }
    if let Some(b) = &bytes {
        pre.push((in_path.clone(), Pre::Bytes(b.clone())));
    }
    let mut args = vec![in_path.clone(), "-o".to_string(), out_arg.replacen("@/", &format!("{ROOT}/"), 1)];
    if force {
        args.push("-f".into());
    }
    if ingredient {
        args.push("--ingredient".into());
    }
    if detailed {
        args.push("-d".into());
    }
    let facts = flags_str(&[('F', true), ('S', true), ('U', true), ('M', fin == FolderIn::Signed), ('R', true), ('G', true)]);
    let flags = flags_str(&[('f', force), ('i', ingredient), ('d', detailed)]);
    let req = format!("C32 run path={in_path} out={out_arg} msrc=n flags={flags} cmd=- facts={facts}");
    Case {
        group: "folder",
        pre,
        args,
        req,
        force,
        declared: vec![out.clone()],
        verify: Verify::No,
        ro_rule: false,
        folder_out: Some(out),
        input_bytes: bytes,
        frag_mode: false,
        declared_exists: !matches!(fo, FolderOut::Absent | FolderOut::Nested),
        alias,
        no_output: false,
    }
}

#[derive(Clone, Copy, PartialEq, Debug)]
enum FragOut {
    Absent,
    DirEmpty,
    WithInit,
    WithFrag,
    WithBoth,
    File,
    InitIsDir,
    /// `-o .`: the destinations are the inputs themselves
    Dot,
}

#[derive(Clone, Copy, PartialEq, Debug)]
enum FragVar {
    One,
    Two,
    NoGlob,
    NoMatch,
    FragNoMatch,
    InitAtRoot,
    BadFrags,
    NotBmff,
}

fn frag_case(env: &Env, var: FragVar, fo: FragOut, force: bool) -> Case {
    let mut pre: Vec<(String, Pre)> = vec![("other.txt".into(), Pre::Junk)];
    pre.push(("m.json".into(), Pre::Bytes(Arc::new(env.manifest_json.clone().into_bytes()))));
    let out = if fo == FragOut::Dot { ".".to_string() } else { "fo".to_string() };
    // renditions: (folder name or None, init file name, path prefix)
    let rends: Vec<(Option<&str>, &str)> = match var {
        FragVar::Two => vec![(Some("r1"), "init.mp4"), (Some("r2"), "init.mp4")],
        FragVar::InitAtRoot => vec![(None, "init.mp4")],
        FragVar::NotBmff => vec![(Some("rend"), "init.jpg")],
        _ => vec![(Some("rend"), "init.mp4")],
    };
    let frag_names = ["seg1.m4s", "seg2.m4s"];
    for (d, i) in &rends {
        let pfx = d.map(|d| format!("{d}/")).unwrap_or_default();
        if let Some(d) = d {
            pre.push((d.to_string(), Pre::Dir));
        }
        pre.push((format!("{pfx}{i}"), Pre::Bytes(env.init.clone())));
        for (k, f) in frag_names.iter().enumerate() {
            let b = if var == FragVar::BadFrags { Arc::new(b"not a fragment".to_vec()) } else { env.frags[k].clone() };
            pre.push((format!("{pfx}{f}"), Pre::Bytes(b)));
        }
    }
    let path_arg = match var {
        FragVar::Two => "r*/init.mp4".to_string(),
        FragVar::InitAtRoot => "init.mp4".to_string(),
        FragVar::NoMatch => "rend/nomatch*.mp4".to_string(),
        FragVar::NotBmff => "rend/init.jpg".to_string(),
        _ => "rend/init.mp4".to_string(),
    };
    let glob = if var == FragVar::FragNoMatch { "zzz*.m4s" } else { "seg*.m4s" };
    // destination of the last rendition is where pre-existing outputs are put
    let last_dir = rends.last().and_then(|r| r.0).unwrap_or("rend");
    let last_init = rends.last().map(|r| r.1).unwrap_or("init.mp4");
    match fo {
        FragOut::Absent | FragOut::Dot => {}
        FragOut::DirEmpty => pre.push((out.clone(), Pre::Dir)),
        FragOut::File => pre.push((out.clone(), Pre::Junk)),
        FragOut::WithInit | FragOut::WithFrag | FragOut::WithBoth | FragOut::InitIsDir => {
            pre.push((out.clone(), Pre::Dir));
            pre.push((format!("{out}/{last_dir}"), Pre::Dir));
            pre.push((format!("{out}/{last_dir}/unrelated.txt"), Pre::Junk));
            if matches!(fo, FragOut::WithInit | FragOut::WithBoth) {
                pre.push((format!("{out}/{last_dir}/{last_init}"), Pre::Junk));
            }
            if fo == FragOut::InitIsDir {
                pre.push((format!("{out}/{last_dir}/{last_init}"), Pre::Dir));
            }
            if matches!(fo, FragOut::WithFrag | FragOut::WithBoth) {
                pre.push((format!("{out}/{last_dir}/seg2.m4s"), Pre::Junk));
            }
        }
    }
    let mut args: Vec<String> = vec![path_arg.clone(), "-m".into(), "m.json".into(), "-o".into(), out.clone()];
    if force {
        args.push("-f".into());
    }
    args.push("fragment".into());
    if var != FragVar::NoGlob {
        args.push("--fragments_glob".into());
        args.push(glob.into());
    }
    let rend_s: Vec<String> = if var == FragVar::NoMatch {
        vec![]
    } else {
        rends
            .iter()
            .map(|(d, i)| {
                let fr = if var == FragVar::FragNoMatch { "-".to_string() } else { frag_names.join("+") };
                format!("{}|{}|{}", d.unwrap_or("-"), i, fr)
            })
            .collect()
    };
    let cmd = format!(
        "frag:{}:{}",
        if var == FragVar::NoGlob { 0 } else { 1 },
        if rend_s.is_empty() { "-".to_string() } else { rend_s.join(";") }
    );
    let facts = flags_str(&[
        ('F', var != FragVar::NotBmff),
        ('S', true),
        ('U', true),
        ('M', false),
        ('R', true),
        ('G', var != FragVar::BadFrags),
    ]);
    let flags = flags_str(&[('f', force)]);
    // the request names the first matched init as PATH (the model does not read it in this mode)
    let req = format!("C32 run path={} out={out} msrc=f flags={flags} cmd={cmd} facts={facts}", path_arg.replace('*', "_"));
    let verify = if fo == FragOut::Dot {
        Verify::No
    } else if rends.len() == 1 && rends[0].0.is_some() {
        let d = rends[0].0.unwrap();
        Verify::Fragments(
            format!("{out}/{d}/{}", rends[0].1),
            frag_names.iter().map(|f| format!("{out}/{d}/{f}")).collect(),
        )
    } else if rends.len() == 2 {
        Verify::Fragments(format!("{out}/r2/init.mp4"), frag_names.iter().map(|f| format!("{out}/r2/{f}")).collect())
    } else {
        Verify::No
    };
    Case {
        group: "fragment",
        pre,
        args,
        req,
        force,
        declared: vec![out],
        verify: if var == FragVar::NoMatch { Verify::No } else { verify },
        ro_rule: false,
        folder_out: None,
        input_bytes: None,
        frag_mode: true,
        declared_exists: fo != FragOut::Absent,
        alias: vec![],
        no_output: false,
    }
}

/// command lines that never reach the output handling, or stop at an argument check
fn misc_cases(env: &Env) -> Vec<Case> {
    let mut v = vec![];
    let mj = Arc::new(env.manifest_json.clone().into_bytes());
    let base_pre = |signed: bool| -> Vec<(String, Pre)> {
        vec![
            ("other.txt".into(), Pre::Junk),
            ("out.jpg".into(), Pre::Junk),
            ("out.c2pa".into(), Pre::Junk),
            ("rep".into(), Pre::Dir),
            ("rep/old.txt".into(), Pre::Junk),
            ("m.json".into(), Pre::Bytes(mj.clone())),
            ("in.jpg".into(), Pre::Bytes(if signed { env.signed_jpg.clone() } else { env.assets[0].clone() })),
        ]
    };
    let mk = |args: &[&str], req: String, signed: bool, ro: bool, force: bool| Case {
        alias: vec![],
        no_output: !args.contains(&"-o"),
        group: "misc",
        pre: base_pre(signed),
        args: args.iter().map(|s| s.to_string()).collect(),
        declared: {
            let mut d = vec![];
            if let Some(i) = args.iter().position(|a| *a == "-o") {
                d.push(norm(args[i + 1]));
                if args.contains(&"--sidecar") {
                    d.push(sidecar_of(args[i + 1]));
                }
            }
            d
        },
        req,
        force,
        verify: Verify::No,
        ro_rule: ro,
        folder_out: None,
        input_bytes: None,
        frag_mode: false,
        declared_exists: true,
    };
    for signed in [true, false] {
        let m = if signed { "M" } else { "" };
        for (extra, fl) in [
            (vec![], "-"),
            (vec!["--info"], "e"),
            (vec!["--tree"], "e"),
            (vec!["--certs"], "e"),
            (vec!["-d"], "d"),
            (vec!["--ingredient"], "i"),
            (vec!["-f"], "f"),
            (vec!["--info", "-o", "out.jpg", "-f"], "ef"),
            (vec!["--tree", "-o", "rep", "-f"], "ef"),
        ] {
            let mut a = vec!["in.jpg"];
            a.extend(extra.iter());
            let out = if extra.contains(&"out.jpg") {
                "out.jpg"
            } else if extra.contains(&"rep") {
                "rep"
            } else {
                "-"
            };
            v.push(mk(&a, format!("C32 run path=in.jpg out={out} msrc=n flags={fl} cmd=- facts=FSU{m}RG"), signed, true, fl.contains('f')));
        }
        // fragment verification without a manifest definition
        v.push(mk(
            &["in.jpg", "fragment", "--fragments_glob", "seg*.m4s"],
            format!("C32 run path=in.jpg out=- msrc=n flags=- cmd=frag:1:- facts=FSU{m}RG"),
            signed,
            true,
            false,
        ));
    }
    // options that need a manifest definition
    for (extra, fl) in [
        (vec!["--sidecar", "-o", "out.jpg"], "s"),
        (vec!["--sidecar", "-o", "out.jpg", "-f"], "sf"),
        (vec!["--remote", REMOTE_URL, "-o", "out.jpg", "-f"], "rf"),
        (vec!["--parent", "in.jpg", "-o", "rep", "-f"], "pf"),
        (vec!["--sidecar"], "s"),
    ] {
        let mut a = vec!["in.jpg"];
        a.extend(extra.iter());
        let out = if extra.contains(&"out.jpg") {
            "out.jpg"
        } else if extra.contains(&"rep") {
            "rep"
        } else {
            "-"
        };
        v.push(mk(&a, format!("C32 run path=in.jpg out={out} msrc=n flags={fl} cmd=- facts=FSURG"), false, false, fl.contains('f')));
    }
    // manifest definition without output
    v.push(mk(&["in.jpg", "-m", "m.json"], "C32 run path=in.jpg out=- msrc=f flags=- cmd=- facts=FSURG".into(), false, false, false));
    v.push(mk(&["in.jpg", "-m", "m.json", "-f"], "C32 run path=in.jpg out=- msrc=f flags=f cmd=- facts=FSURG".into(), false, false, true));
    v.push(mk(&["in.jpg", "-c", &env.manifest_json], "C32 run path=in.jpg out=- msrc=c flags=- cmd=- facts=FSURG".into(), false, false, false));
    v.push(mk(&["in.jpg", "-c", &env.manifest_json, "-f"], "C32 run path=in.jpg out=- msrc=c flags=f cmd=- facts=FSURG".into(), false, false, true));
    // no PATH
    v.push(mk(&["-o", "out.jpg", "-f"], "C32 run path=- out=out.jpg msrc=n flags=f cmd=- facts=FSURG".into(), false, false, true));
    v.push(mk(&["-c", &env.manifest_json, "-o", "out.jpg", "-f"], "C32 run path=- out=out.jpg msrc=c flags=f cmd=- facts=FSURG".into(), false, false, true));
    // set-up failures: missing manifest file, broken inline JSON, unknown key file
    v.push(mk(&["in.jpg", "-m", "nope.json", "-o", "out.jpg", "-f"], "C32 run path=in.jpg out=out.jpg msrc=f flags=f cmd=- facts=FSRG".into(), false, false, true));
    v.push(mk(&["in.jpg", "-c", "{not json", "-o", "out.jpg", "-f", "--sidecar"], "C32 run path=in.jpg out=out.jpg msrc=c flags=sf cmd=- facts=FSRG".into(), false, false, true));
    v.push(mk(
        &["in.jpg", "-c", r#"{"alg":"es256","private_key":"/nonexistent.key","sign_cert":"/nonexistent.pem"}"#, "-o", "out.jpg", "-f"],
        "C32 run path=in.jpg out=out.jpg msrc=c flags=f cmd=- facts=FSRG".into(),
        false,
        false,
        true,
    ));
    v.push(mk(
        &["in.jpg", "-m", "m.json", "-o", "out.jpg", "-f", "--parent", "nope.jpg"],
        "C32 run path=in.jpg out=out.jpg msrc=f flags=pf cmd=- facts=FSRG".into(),
        false,
        false,
        true,
    ));
    // extension handling: no extension on both sides, unknown extension
    {
        let mut c = mk(&["noext", "-m", "m.json", "-o", "outnoext"], "C32 run path=noext out=outnoext msrc=f flags=- cmd=- facts=SURG".into(), false, false, false);
        c.pre.push(("noext".into(), Pre::Bytes(env.assets[0].clone())));
        v.push(c);
        let mut c = mk(&["noext", "-m", "m.json", "-o", "other.txt"], "C32 run path=noext out=other.txt msrc=f flags=- cmd=- facts=SURG".into(), false, false, false);
        c.pre.push(("noext".into(), Pre::Bytes(env.assets[0].clone())));
        v.push(c);
        for force in [false, true] {
            let fl = if force { "f" } else { "-" };
            let mut a = vec!["in.xyz", "-m", "m.json", "-o", "new.xyz"];
            if force {
                a.push("-f");
            }
            let mut c = mk(&a, format!("C32 run path=in.xyz out=new.xyz msrc=f flags={fl} cmd=- facts=FURG"), false, false, force);
            c.pre.push(("in.xyz".into(), Pre::Bytes(env.assets[0].clone())));
            c.declared = vec!["new.xyz".into()];
            v.push(c);
            let mut a = vec!["in.xyz", "-m", "m.json", "-o", "old.XYZ"];
            if force {
                a.push("-f");
            }
            let mut c = mk(&a, format!("C32 run path=in.xyz out=old.XYZ msrc=f flags={fl} cmd=- facts=FURG"), false, false, force);
            c.pre.push(("in.xyz".into(), Pre::Bytes(env.assets[0].clone())));
            c.pre.push(("old.XYZ".into(), Pre::Junk));
            c.declared = vec!["old.XYZ".into()];
            v.push(c);
        }
        // `-o .` in signing mode: the working directory entry is the output, its content is not
        for force in [false, true] {
            let fl = if force { "f" } else { "-" };
            for (path, facts) in [("noext", "SURG"), ("in.jpg", "FSURG")] {
                let mut a = vec![path, "-m", "m.json", "-o", "."];
                if force {
                    a.push("-f");
                }
                let mut c = mk(&a, format!("C32 run path={path} out=. msrc=f flags={fl} cmd=- facts={facts}"), false, false, force);
                c.pre.push(("noext".into(), Pre::Bytes(env.assets[0].clone())));
                c.declared = vec![".".into()];
                v.push(c);
            }
        }
    }
    v
}

/// The witness of `C2pa.C32.not_refusalClean` / `force_refusal_destroys_output` (cfgW, fsW):
/// `c2patool in -m m.json -o out -f` with existing files `in` and `out`, and its neighbours
/// (no force; with --sidecar). Returns the index of the witness within the returned cases.
fn witness_cases(env: &Env) -> (usize, Vec<Case>) {
    let mut v = vec![];
    let mut wi = 0;
    for (force, sidecar) in [(false, false), (true, false), (true, true), (false, true)] {
        let mut args: Vec<String> = ["in", "-m", "m.json", "-o", "out"].iter().map(|s| s.to_string()).collect();
        if force {
            args.push("-f".into());
        }
        if sidecar {
            args.push("--sidecar".into());
        }
        let flags = flags_str(&[('s', sidecar), ('f', force)]);
        if force && !sidecar {
            wi = v.len();
        }
        v.push(Case {
            group: "witness",
            pre: vec![
                ("in".into(), Pre::Bytes(env.assets[0].clone())),
                ("out".into(), Pre::Junk),
                ("m.json".into(), Pre::Bytes(Arc::new(env.manifest_json.clone().into_bytes()))),
            ],
            args,
            req: format!("C32 run path=in out=out msrc=f flags={flags} cmd=- facts=SURG"),
            force,
            declared: if sidecar { vec!["out".into(), "out.c2pa".into()] } else { vec!["out".into()] },
            verify: Verify::No,
            ro_rule: false,
            folder_out: None,
            input_bytes: None,
            frag_mode: false,
            declared_exists: true,
            alias: vec![],
            no_output: false,
        });
    }
    (wi, v)
}

/* ---------- running one case ---------- */

#[derive(Clone, PartialEq, Debug)]
enum Ent {
    Dir,
    File([u8; 32], u64),
}

type Snap = BTreeMap<String, Ent>;

fn walk(root: &Path, rel: &str, out: &mut Snap) {
    let dir = if rel.is_empty() { root.to_path_buf() } else { root.join(rel) };
    let Ok(rd) = fs::read_dir(&dir) else { return };
    for e in rd.flatten() {
        let name = e.file_name().to_string_lossy().into_owned();
        let r = if rel.is_empty() { name } else { format!("{rel}/{name}") };
        let Ok(md) = fs::symlink_metadata(e.path()) else { continue };
        if md.file_type().is_symlink() {
            // a link is an entry of its own: what it points to, not the content behind it
            let t = fs::read_link(e.path()).map(|t| t.to_string_lossy().into_owned()).unwrap_or_default();
            let h: [u8; 32] = Sha256::digest(format!("SYMLINK:{t}").as_bytes()).into();
            out.insert(r, Ent::File(h, u64::MAX));
        } else if md.is_dir() {
            out.insert(r.clone(), Ent::Dir);
            walk(root, &r, out);
        } else {
            let bytes = fs::read(e.path()).unwrap_or_default();
            let h: [u8; 32] = Sha256::digest(&bytes).into();
            out.insert(r, Ent::File(h, bytes.len() as u64));
        }
    }
}

struct Outp {
    code: Option<i32>,
    err: String,
    before: Snap,
    after: Snap,
    /// content class of every file that is new or changed
    classes: BTreeMap<String, String>,
    verify: Option<Result<String, String>>,
}

fn contains(h: &[u8], n: &[u8]) -> bool {
    h.windows(n.len()).any(|w| w == n)
}

fn classify(case: &Case, rel: &str, bytes: &[u8]) -> String {
    if bytes.is_empty() {
        return "junk".into();
    }
    if bytes.len() >= 8 && &bytes[4..8] == b"jumb" {
        return "c2pa".into();
    }
    let ext = Path::new(rel).extension().map(|e| e.to_string_lossy().to_lowercase()).unwrap_or_default();
    if ext == "json" {
        return if serde_json::from_slice::<serde_json::Value>(bytes).is_ok() { "report".into() } else { "other".into() };
    }
    if case.frag_mode {
        if ext == "m4s" {
            // a copied fragment carries the C2PA Merkle uuid box
            return if contains(bytes, b"c2pa") || contains(bytes, b"uuid") { "frag".into() } else { "other".into() };
        }
        return if contains(bytes, b"jumb") { "init".into() } else { "other".into() };
    }
    let Some(fmt) = c2pa::format_from_path(rel) else { return "other".into() };
    let b = bytes.to_vec();
    let embedded = std::panic::catch_unwind(move || {
        match Reader::from_context(Context::new()).with_stream(&fmt, Cursor::new(b)) {
            Ok(r) => r.active_manifest().is_some(),
            Err(_) => false,
        }
    })
    .unwrap_or(false);
    if embedded {
        "embedded".into()
    } else if case.input_bytes.as_ref().map(|i| i.as_slice() == bytes).unwrap_or(false) {
        "copy".into()
    } else if contains(bytes, b"provenance") {
        "xmp".into()
    } else {
        "junk".into()
    }
}

fn run_case(env: &Env, idx: usize, case: &Case) -> Outp {
    let root = env.base.join(format!("c{idx}"));
    let _ = fs::remove_dir_all(&root);
    fs::create_dir_all(&root).expect("case dir");
    for (p, k) in &case.pre {
        let full = root.join(p);
        match k {
            Pre::Dir => fs::create_dir_all(&full).expect("pre dir"),
            Pre::Junk => {
                if let Some(par) = full.parent() {
                    fs::create_dir_all(par).expect("pre parent");
                }
                fs::write(&full, format!("PRE:{p}\n")).expect("pre file");
            }
            Pre::Bytes(b) => {
                if let Some(par) = full.parent() {
                    fs::create_dir_all(par).expect("pre parent");
                }
                fs::write(&full, b.as_slice()).expect("pre file");
            }
            Pre::Symlink(t) => {
                if let Some(par) = full.parent() {
                    fs::create_dir_all(par).expect("pre parent");
                }
                std::os::unix::fs::symlink(t, &full).expect("pre symlink");
            }
            Pre::HardLink(t) => {
                fs::hard_link(root.join(t), &full).expect("pre hard link");
            }
        }
    }
    let mut before = Snap::new();
    walk(&root, "", &mut before);
    let root_s = root.to_string_lossy().into_owned();
    let args: Vec<String> = case.args.iter().map(|a| a.replace(ROOT, &root_s)).collect();
    let o = Command::new(&env.bin)
        .args(&args)
        .current_dir(&root)
        .env("XDG_CONFIG_HOME", env.base.join("xdg"))
        .env("HOME", env.base.join("home"))
        .env("RUST_BACKTRACE", "0")
        .env("RUST_LOG", "off")
        .env_remove("C2PATOOL_SETTINGS")
        .env_remove("C2PA_TA_URL")
        .env_remove("C2PA_PRIVATE_KEY")
        .env_remove("C2PA_SIGN_CERT")
        .env_remove("C2PATOOL_TRUST_ANCHORS")
        .env_remove("C2PATOOL_ALLOWED_LIST")
        .env_remove("C2PATOOL_TRUST_CONFIG")
        .output();
    let (code, err) = match o {
        Ok(o) => (o.status.code(), String::from_utf8_lossy(&o.stderr).into_owned()),
        Err(e) => (None, format!("spawn: {e}")),
    };
    let mut after = Snap::new();
    walk(&root, "", &mut after);
    let mut classes = BTreeMap::new();
    for (p, e) in &after {
        if let Ent::File(..) = e {
            if before.get(p) != Some(e) {
                let bytes = fs::read(root.join(p)).unwrap_or_default();
                classes.insert(p.clone(), classify(case, p, &bytes));
            }
        }
    }
    let verify = if code == Some(0) {
        match &case.verify {
            Verify::No => None,
            Verify::File(p) => {
                let path = root.join(p);
                Some(
                    std::panic::catch_unwind(move || {
                        match Reader::from_context(Context::new()).with_file(&path) {
                            Ok(r) => Ok(format!("{:?}", r.validation_state())),
                            Err(e) => Err(format!("{e}")),
                        }
                    })
                    .unwrap_or_else(|_| Err("panic".into())),
                )
            }
            Verify::Fragments(init, frags) => {
                let ip = root.join(init);
                let fp: Vec<PathBuf> = frags.iter().map(|f| root.join(f)).collect();
                Some(
                    std::panic::catch_unwind(move || {
                        match Reader::from_context(Context::new()).with_fragmented_files(&ip, &fp) {
                            Ok(r) => Ok(format!("{:?}", r.validation_state())),
                            Err(e) => Err(format!("{e}")),
                        }
                    })
                    .unwrap_or_else(|_| Err("panic".into())),
                )
            }
        }
    } else {
        None
    };
    let _ = fs::remove_dir_all(&root);
    Outp { code, err, before, after, classes, verify }
}

fn outcome_of(case: &Case, o: &Outp) -> String {
    let e = &o.err;
    let specific = if e.contains("Output already exists; use -f") || e.contains("Sidecar manifest already exists") {
        Some("exists")
    } else if e.contains("Output type must match source type") {
        Some("type-mismatch")
    } else if e.contains("Missing filename on output") {
        Some("no-filename")
    } else if e.contains("Missing extension output") {
        Some("no-extension")
    } else if e.contains("Manifest definition required with these options") {
        Some("need-manifest")
    } else if e.contains("Output path required with manifest definition") {
        Some("need-output")
    } else if e.contains("Output must be a folder for this option") {
        Some("not-folder")
    } else if e.contains("Output cannot point to existing file, must be a directory") {
        Some("frag-file")
    } else if e.contains("fragments_glob must be set") {
        Some("frag-glob")
    } else if e.contains("PATH to an asset is required") {
        Some("need-path")
    } else {
        None
    };
    match (o.code, specific) {
        (Some(0), _) => if case.ro_rule { "readonly" } else { "ok" }.to_string(),
        (Some(2), None) if e.contains("Usage:") || e.contains("error:") => "usage".to_string(),
        (_, Some(s)) => s.to_string(),
        _ => if case.ro_rule { "readonly" } else { "fail" }.to_string(),
    }
}

fn diff_of(case: &Case, o: &Outp) -> String {
    let mut keys: Vec<&String> = o.before.keys().chain(o.after.keys()).collect();
    keys.sort();
    keys.dedup();
    let mut lines = vec![];
    for p in keys {
        let b = o.before.get(p);
        let a = o.after.get(p);
        // report folder: what the SDK adds below the fresh folder is not compared
        if let (Some(out), None) = (&case.folder_out, b) {
            if let Some(rest) = p.strip_prefix(&format!("{out}/")) {
                if !REPORT_NAMES.contains(&rest) {
                    continue;
                }
            }
        }
        let cls = || o.classes.get(p).cloned().unwrap_or_else(|| "?".into());
        let ch = match (b, a) {
            (None, None) => None,
            (None, Some(Ent::File(..))) => Some(format!("+f:{}", cls())),
            (None, Some(Ent::Dir)) => Some("+d".to_string()),
            (Some(Ent::File(..)), None) => Some("-f".to_string()),
            (Some(Ent::Dir), None) => Some("-d".to_string()),
            (Some(x @ Ent::File(..)), Some(y @ Ent::File(..))) => {
                if x == y {
                    None
                } else {
                    Some(format!("~f:{}", cls()))
                }
            }
            (Some(Ent::Dir), Some(Ent::Dir)) => None,
            (Some(Ent::File(..)), Some(Ent::Dir)) => Some("f>d".to_string()),
            (Some(Ent::Dir), Some(Ent::File(..))) => Some(format!("d>f:{}", cls())),
        };
        if let Some(c) = ch {
            lines.push(format!("{p}:{c}"));
        }
    }
    lines.sort();
    if lines.is_empty() {
        "-".into()
    } else {
        lines.join(",")
    }
}

fn fs_field(s: &Snap) -> String {
    if s.is_empty() {
        return "-".into();
    }
    s.iter()
        .map(|(p, e)| format!("{p}:{}", if *e == Ent::Dir { "d" } else { "f" }))
        .collect::<Vec<_>>()
        .join(",")
}

/// The property evaluated on the implementation alone.
fn oracle(case: &Case, o: &Outp) -> Vec<(String, String)> {
    let mut fails = vec![];
    for (p, b) in &o.before {
        let a = o.after.get(p);
        if a == Some(b) {
            continue;
        }
        let what = match a {
            None => "vanished",
            Some(_) => "was replaced",
        };
        if !case.force {
            let role = if case.declared.first() == Some(p) {
                "output"
            } else if case.declared.iter().skip(1).any(|d| d == p) {
                "sidecar"
            } else if case.frag_mode && case.declared.iter().any(|d| p.starts_with(&format!("{d}/"))) {
                if p.ends_with(".m4s") { "fragment" } else { "fragment-init" }
            } else if case.declared.iter().any(|d| p.starts_with(&format!("{d}/"))) {
                "folder-content"
            } else {
                "other"
            };
            fails.push((format!("clobber-{role}"), format!("{p} {what} without --force; args {:?}", short_args(case))));
        } else if !case.declared.iter().any(|d| {
            let folder = case.frag_mode || case.folder_out.is_some();
            d == p || (folder && (d == "." || p.starts_with(&format!("{d}/"))))
        }) {
            fails.push(("force-touches-undeclared".to_string(), format!("{p} {what} with --force but is not a declared output {:?}; args {:?}", case.declared, short_args(case))));
        }
    }
    if case.no_output && o.before != o.after {
        let p = o.after.keys().chain(o.before.keys()).find(|p| o.before.get(*p) != o.after.get(*p)).cloned().unwrap_or_default();
        fails.push(("no-output-run-acts".to_string(), format!("a run without -o changed the tree at {p}; args {:?}", short_args(case))));
    }
    if let Some(v) = &o.verify {
        match v {
            Ok(s) if s == &format!("{:?}", ValidationState::Valid) || s == &format!("{:?}", ValidationState::Trusted) => {}
            Ok(s) => fails.push(("signed-not-valid".to_string(), format!("exit 0 but the output reads back {s}; args {:?}", short_args(case)))),
            Err(e) => fails.push(("signed-not-valid".to_string(), format!("exit 0 but the output cannot be read: {e}; args {:?}", short_args(case)))),
        }
    }
    fails
}

fn short_args(case: &Case) -> Vec<String> {
    case.args.iter().map(|a| if a.len() > 40 { format!("{}…", &a[..24]) } else { a.clone() }).collect()
}

/* ---------- driver ---------- */

fn prepare(bin: PathBuf) -> Env {
    let base = scratch("c32");
    fs::create_dir_all(base.join("keys")).expect("keys");
    fs::create_dir_all(base.join("xdg")).expect("xdg");
    fs::create_dir_all(base.join("home")).expect("home");
    for f in ["es256_certs.pem", "es256_private.key"] {
        fs::copy(format!("/repo/cli/sample/{f}"), base.join("keys").join(f)).expect("copy key");
    }
    let manifest_json = serde_json::json!({
        "alg": "es256",
        "private_key": base.join("keys/es256_private.key"),
        "sign_cert": base.join("keys/es256_certs.pem"),
        "claim_generator_info": [{"name": "verif-c32", "version": "1"}],
        "title": "c32",
        "assertions": [{
            "label": "c2pa.actions",
            "data": {"actions": [{
                "action": "c2pa.created",
                "digitalSourceType": "http://cv.iptc.org/newscodes/digitalsourcetype/digitalCapture"
            }]}
        }]
    })
    .to_string();
    let assets = FMTS.iter().map(|f| Arc::new(fs::read(f.fixture).expect("fixture"))).collect();
    let bunny = "/repo/sdk/tests/fixtures/bunny/bunny_89283bps";
    let init = Arc::new(fs::read(format!("{bunny}/BigBuckBunny_2s_init.mp4")).expect("init"));
    let frags = vec![
        Arc::new(fs::read(format!("{bunny}/BigBuckBunny_2s1.m4s")).expect("frag")),
        Arc::new(fs::read(format!("{bunny}/BigBuckBunny_2s100.m4s")).expect("frag")),
    ];
    let mut env = Env { bin, base, manifest_json, assets, signed_jpg: Arc::new(vec![]), init, frags };
    // a signed input for the report-folder mode, made with the tool itself
    let d = env.base.join("setup");
    fs::create_dir_all(&d).expect("setup dir");
    fs::write(d.join("in.jpg"), env.assets[0].as_slice()).expect("setup in");
    let o = Command::new(&env.bin)
        .args(["in.jpg", "-c", &env.manifest_json, "-o", "signed.jpg"])
        .current_dir(&d)
        .env("XDG_CONFIG_HOME", env.base.join("xdg"))
        .env("HOME", env.base.join("home"))
        .env("RUST_BACKTRACE", "0")
        .env_remove("C2PATOOL_SETTINGS")
        .env_remove("C2PA_TA_URL")
        .output()
        .expect("run tool");
    if !o.status.success() {
        eprintln!("setup signing failed: {}", String::from_utf8_lossy(&o.stderr));
        std::process::exit(3);
    }
    env.signed_jpg = Arc::new(fs::read(d.join("signed.jpg")).expect("signed"));
    env
}

fn gen_cases(env: &Env, run: &Run, rng: &mut Rng) -> (Vec<Case>, usize) {
    let thorough = run.thorough();
    let mut cases = vec![];
    let (wi, wc) = witness_cases(env);
    let witness = cases.len() + wi;
    cases.extend(wc);
    let outs = [
        OutKind::Absent,
        OutKind::File,
        OutKind::Dir,
        OutKind::Same,
        OutKind::Alias,
        OutKind::MissingParent,
        OutKind::Subdir,
        OutKind::ExtMismatch,
    ];
    let scs = [(false, ScState::Absent), (false, ScState::File), (true, ScState::Absent), (true, ScState::File), (true, ScState::Dir)];
    // quick: jpg in full, svg sampled; thorough: every format
    let fmts: Vec<usize> = if thorough { (0..FMTS.len()).collect() } else { vec![0, 3] };
    for fi in fmts {
        for &ok in &outs {
            for force in [false, true] {
                for &(sidecar, sc) in &scs {
                    for remote in [false, true] {
                        for msrc in ['f', 'c'] {
                            // full product for jpg; other formats: one manifest source, chosen per case
                            if fi > 0 && (msrc == 'c') != rng.chance(1, 2) {
                                continue;
                            }
                            // quick tier: second format is sampled
                            if !thorough && fi > 0 && !rng.chance(1, 4) {
                                continue;
                            }
                            if !thorough && fi == 0 && msrc == 'c' && !rng.chance(1, 4) {
                                continue;
                            }
                            // --remote without --sidecar only adds an XMP reference
                            if !thorough && remote && !sidecar && !rng.chance(1, 3) {
                                continue;
                            }
                            cases.push(sign_case(env, rng, fi, Input::Valid, ok, force, sidecar, sc, remote, msrc, false, false));
                        }
                    }
                }
            }
        }
    }
    // failing / missing sources, parent option, trust sub-command
    for input in [Input::Garbage, Input::Missing] {
        for &ok in &[OutKind::Absent, OutKind::File, OutKind::Same, OutKind::Alias, OutKind::MissingParent] {
            for force in [false, true] {
                for &(sidecar, sc) in &[(false, ScState::File), (true, ScState::Absent), (true, ScState::File)] {
                    cases.push(sign_case(env, rng, 0, input, ok, force, sidecar, sc, false, 'f', false, false));
                }
            }
        }
    }
    for &ok in &[OutKind::Absent, OutKind::File, OutKind::Same] {
        for force in [false, true] {
            for &(sidecar, sc) in &[(false, ScState::Absent), (true, ScState::File)] {
                cases.push(sign_case(env, rng, 0, Input::Valid, ok, force, sidecar, sc, false, 'f', true, false));
                cases.push(sign_case(env, rng, 0, Input::Valid, ok, force, sidecar, sc, false, 'c', false, true));
            }
        }
    }
    // aliases between PATH and -o beyond `./x`: `..`, absolute path, directory symlink, file
    // symlink, hard link — on the output side and on the PATH side
    let alias_kinds = [
        OutKind::AliasDotDot,
        OutKind::AliasAbs,
        OutKind::AliasDirLink,
        OutKind::LinkToInput,
        OutKind::LinkToOther,
        OutKind::HardLinkInput,
        OutKind::PathDotDot,
        OutKind::PathAbs,
        OutKind::PathLink,
    ];
    let alias_fmts: Vec<usize> = if thorough { (0..FMTS.len()).collect() } else { vec![0] };
    for &fi in &alias_fmts {
        for &ok in &alias_kinds {
            for force in [false, true] {
                for &(sidecar, sc) in &[(false, ScState::Absent), (true, ScState::Absent), (true, ScState::File)] {
                    if fi > 0 && sidecar && !rng.chance(1, 2) {
                        continue;
                    }
                    // a forced --sidecar run replaces the hard link by a byte-identical copy of the
                    // input, i.e. of what the link showed before: not observable in a snapshot
                    if ok == OutKind::HardLinkInput && sidecar && force {
                        continue;
                    }
                    cases.push(sign_case(env, rng, fi, Input::Valid, ok, force, sidecar, sc, false, 'f', false, false));
                }
                if fi == 0 {
                    cases.push(sign_case(env, rng, fi, Input::Garbage, ok, force, false, ScState::Absent, false, 'c', false, false));
                    if !matches!(ok, OutKind::LinkToInput | OutKind::PathLink | OutKind::HardLinkInput) {
                        cases.push(sign_case(env, rng, fi, Input::Missing, ok, force, false, ScState::Absent, false, 'f', false, false));
                    }
                }
            }
        }
    }
    // report / ingredient folder
    for fin in [FolderIn::Signed, FolderIn::Unsigned, FolderIn::Missing] {
        for fo in [
            FolderOut::Absent,
            FolderOut::DirEmpty,
            FolderOut::DirFull,
            FolderOut::File,
            FolderOut::Nested,
            FolderOut::Dotted,
            FolderOut::HoldsInput,
            FolderOut::AliasDotDot,
            FolderOut::AliasAbs,
            FolderOut::Dot,
        ] {
            for force in [false, true] {
                for ingredient in [false, true] {
                    for detailed in [false, true] {
                        if fo == FolderOut::Dot && force {
                            continue;
                        }
                        if matches!(fo, FolderOut::AliasDotDot | FolderOut::AliasAbs | FolderOut::Dot) && (detailed || fin == FolderIn::Missing) {
                            continue;
                        }
                        if !thorough && fin != FolderIn::Signed && detailed {
                            continue;
                        }
                        cases.push(folder_case(env, fin, fo, force, ingredient, detailed));
                    }
                }
            }
        }
    }
    // fragmented BMFF
    for var in [FragVar::One, FragVar::Two] {
        for fo in [FragOut::Absent, FragOut::DirEmpty, FragOut::WithInit, FragOut::WithFrag, FragOut::WithBoth, FragOut::File, FragOut::InitIsDir, FragOut::Dot] {
            for force in [false, true] {
                // two renditions with a directory at an init destination: which init files are
                // written before the failing copy depends on HashMap order in the SDK
                if var == FragVar::Two && fo == FragOut::InitIsDir && force {
                    continue;
                }
                cases.push(frag_case(env, var, fo, force));
            }
        }
    }
    for var in [FragVar::NoGlob, FragVar::NoMatch, FragVar::FragNoMatch, FragVar::InitAtRoot, FragVar::BadFrags, FragVar::NotBmff] {
        for fo in [FragOut::Absent, FragOut::WithInit, FragOut::File] {
            for force in [false, true] {
                cases.push(frag_case(env, var, fo, force));
            }
        }
    }
    cases.extend(misc_cases(env));
    (cases, witness)
}

fn run(run: &mut Run, rng: &mut Rng) {
    run.rule = "a declared output (output file or folder, sidecar manifest, fragment destination) exists before the run; distinct = distinct request".into();
    let t0 = std::time::Instant::now();
    let bin = build_cli();
    let t_build = t0.elapsed().as_secs_f32();
    let env = Arc::new(prepare(bin));
    let (cases, witness) = gen_cases(&env, run, rng);
    let cases = Arc::new(cases);
    let mut witness_seen = false;
    let n = cases.len();
    let results: Arc<Mutex<Vec<Option<Outp>>>> = Arc::new(Mutex::new((0..n).map(|_| None).collect()));
    let next = Arc::new(Mutex::new(0usize));
    let workers = thread::available_parallelism().map(|x| x.get()).unwrap_or(4).clamp(2, 12);
    let mut hs = vec![];
    for _ in 0..workers {
        let (env, cases, results, next) = (env.clone(), cases.clone(), results.clone(), next.clone());
        hs.push(thread::spawn(move || loop {
            let i = {
                let mut g = next.lock().unwrap();
                let i = *g;
                *g += 1;
                i
            };
            if i >= cases.len() {
                break;
            }
            let o = run_case(&env, i, &cases[i]);
            results.lock().unwrap()[i] = Some(o);
        }));
    }
    for h in hs {
        let _ = h.join();
    }
    let mut results = results.lock().unwrap();
    let mut all_ran = true;
    for (i, case) in cases.iter().enumerate() {
        let Some(o) = results[i].take() else {
            all_ran = false;
            continue;
        };
        let req = if case.alias.is_empty() {
            format!("{} fs={}", case.req, fs_field(&o.before))
        } else {
            let al: Vec<String> = case.alias.iter().map(|(k, v)| format!("{k}>{v}")).collect();
            format!("{} alias={} fs={}", case.req, al.join(";"), fs_field(&o.before))
        };
        let outcome = outcome_of(case, &o);
        let reply = format!("{outcome} {}", diff_of(case, &o));
        if i == witness {
            // Lean: force_refusal_destroys_output — "Missing extension" after the output was removed
            witness_seen = reply == "no-extension out:-f";
            run.notes.push(format!("witness `c2patool in -m m.json -o out -f` (existing in, out): {reply}"));
        }
        if case.force && (outcome == "no-extension" || outcome == "no-filename") && o.before != o.after {
            run.count("observed:forced-refusal-after-removing-output");
        }
        if !case.alias.is_empty() {
            run.count("alias:location-override");
        }
        let idx = run.case(req.clone(), reply);
        run.count(&format!("group:{}", case.group));
        run.count(&format!("outcome:{outcome}"));
        run.count(if case.force { "force:yes" } else { "force:no" });
        if let Some(v) = &o.verify {
            run.count(&format!("readback:{}", match v { Ok(s) => s.as_str(), Err(_) => "error" }));
        }
        if case.declared_exists {
            run.nontrivial(req);
        }
        for (class, detail) in oracle(case, &o) {
            run.fail(idx, &class, detail);
        }
    }
    run.obligations.insert("every-case-ran".into(), all_ran);
    run.obligations.insert("witness-force-refusal".into(), witness_seen);
    run.notes.push(format!("c2patool rebuilt from /repo/cli working tree into {CLI_TARGET} (plain build, {t_build:.0} s); {n} command lines, {workers} workers, {:.0} s", t0.elapsed().as_secs_f32() - t_build));
    let _ = fs::remove_dir_all(&env.base);
}
