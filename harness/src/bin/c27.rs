//! C27 — redirects never reach internal addresses or leak credentials.
//!
//! Request lines (see lean/C2paModel/Model/C27.lean; strings are lower-case hex, `-` empty,
//! `~` absent):
//!   C27 ip s=<hex>    -> v4:a.b.c.d | v6:h:h:h:h:h:h:h:h | none      (`IpAddr::from_str`)
//!   C27 v4 s=<hex>    -> …                                           (`Ipv4Addr::from_str`)
//!   C27 v6 s=<hex>    -> …                                           (`Ipv6Addr::from_str`)
//!   C27 ng host=<hex|~>                          -> <0|1>            (`host_is_non_global`)
//!   C27 chain allow=~ redir=<0|1> mode=<s|a> m= body= hdrs= u= hops=<E|R:status:loc:join|…>
//!                                                -> <result> n=<k> t=<req|req|…>
//!   C27 site kind=<ctx|tsa|remote> …same fields…   -> <ok|refusal class|err> n=<k>
//! `chain` runs `RedirectResolver::new(transport, allow_redirects)` (hook constructor) over a
//! scripted recording transport, sync or async; `site` issues one request at a request site of the
//! SDK (Context resolver, the signer's default time-stamp request, the settings-configured remote
//! signer) against a loopback listener that answers with a redirect to itself (an internal host).

#[path = "../net_c26_c27.rs"]
mod net;

use std::net::{IpAddr, Ipv4Addr, Ipv6Addr};

use c2pa::{
    http::http::Uri,
    verif_hooks::c27 as hook,
};
use net::*;
use vh::common::{guarded, main_with, Rng, Run};

fn main() {
    main_with("C27", run);
}

// ---------------------------------------------------------------- address parsers vs std

fn ip_str(ip: Option<IpAddr>) -> String {
    match ip {
        None => "none".to_string(),
        Some(IpAddr::V4(a)) => {
            let o = a.octets();
            format!("v4:{}.{}.{}.{}", o[0], o[1], o[2], o[3])
        }
        Some(IpAddr::V6(a)) => format!("v6:{}", a.segments().iter().map(|s| format!("{s:x}")).collect::<Vec<_>>().join(":")),
    }
}

fn gen_v4_text(rng: &mut Rng) -> String {
    if rng.chance(2, 5) {
        return format!("{}.{}.{}.{}", rng.below(256), rng.below(256), rng.pick(&[0u64, 1, 9, 10, 99, 100, 199, 200, 249, 250, 255]), rng.below(256));
    }
    let part = |rng: &mut Rng| -> String {
        match rng.below(14) {
            0..=6 => format!("{}", rng.below(256)),
            7 => format!("{}", rng.range(250, 260)),
            8 => format!("0{}", rng.below(100)),
            9 => format!("{:03}", rng.below(256)),
            10 => format!("{}", rng.range(256, 99999)),
            11 => String::new(),
            12 => rng.pick(&["0", "00", "000", "0000", "255", "256", "1", "01", "0x1", "1a", " 1", "+1", "-1"]).to_string(),
            _ => format!("{}", rng.below(10)),
        }
    };
    let n = match rng.below(10) {
        0 => 3,
        1 => 5,
        2 => rng.range(1, 6) as usize,
        _ => 4,
    };
    let mut s = (0..n).map(|_| part(rng)).collect::<Vec<_>>().join(".");
    if rng.chance(1, 15) {
        s.push('.');
    }
    s
}

fn gen_v6_text(rng: &mut Rng) -> String {
    let group = |rng: &mut Rng| -> String {
        match rng.below(12) {
            0 => "0".to_string(),
            1 => format!("{:04x}", rng.below(65536)),
            2 => format!("{:X}", rng.below(65536)),
            3 => format!("{:05x}", rng.below(1 << 20)),
            4 => String::new(),
            5 => rng.pick(&["ffff", "FFFF", "fe80", "fc00", "fd00", "ff02", "64", "ff9b", "g", "0x1", "1.2"]).to_string(),
            _ => format!("{:x}", rng.below(65536)),
        }
    };
    let v4 = |rng: &mut Rng| -> String {
        if rng.chance(3, 4) {
            format!("{}.{}.{}.{}", rng.below(256), rng.below(256), rng.below(256), rng.below(256))
        } else {
            gen_v4_text(rng)
        }
    };
    // head groups, optional "::", tail groups, optional embedded v4 at the end (or misplaced)
    let compress = rng.chance(3, 5);
    let embed = rng.chance(1, 3);
    let total = if compress { rng.below(8) as usize } else if rng.chance(5, 6) { if embed { 6 } else { 8 } } else { rng.range(1, 9) as usize };
    let split = if total == 0 { 0 } else { rng.below(total as u64 + 1) as usize };
    let head: Vec<String> = (0..split).map(|_| group(rng)).collect();
    let mut tail: Vec<String> = (split..total).map(|_| group(rng)).collect();
    if embed {
        tail.push(v4(rng));
    }
    let mut s = if compress {
        format!("{}::{}", head.join(":"), tail.join(":"))
    } else {
        head.into_iter().chain(tail).collect::<Vec<_>>().join(":")
    };
    if rng.chance(1, 25) {
        // embedded v4 before the compression
        s = format!("{}::{}", v4(rng), group(rng));
    }
    if rng.chance(1, 30) {
        s = format!("{s}%eth0");
    }
    if rng.chance(1, 30) {
        s = format!("[{s}]");
    }
    s
}

fn mutate(rng: &mut Rng, s: &str) -> String {
    let mut b: Vec<u8> = s.bytes().collect();
    let alphabet = b"0123456789abcdefABCDEF:.:.xX%[] g";
    for _ in 0..rng.range(1, 2) {
        let c = *rng.pick(alphabet);
        match rng.below(3) {
            0 if !b.is_empty() => {
                let i = rng.below(b.len() as u64) as usize;
                b[i] = c;
            }
            1 if !b.is_empty() => {
                let i = rng.below(b.len() as u64) as usize;
                b.remove(i);
            }
            _ => {
                let i = rng.below(b.len() as u64 + 1) as usize;
                b.insert(i, c);
            }
        }
    }
    String::from_utf8(b).unwrap_or_default()
}

fn one_parse(run: &mut Run, rng: &mut Rng) {
    let base = match rng.below(5) {
        0 | 1 => gen_v4_text(rng),
        _ => gen_v6_text(rng),
    };
    let s = if rng.chance(1, 3) { mutate(rng, &base) } else { base };
    let (op, ip) = match rng.below(4) {
        0 => ("v4", s.parse::<Ipv4Addr>().ok().map(IpAddr::V4)),
        1 => ("v6", s.parse::<Ipv6Addr>().ok().map(IpAddr::V6)),
        _ => ("ip", s.parse::<IpAddr>().ok()),
    };
    let req = format!("C27 {op} s={}", hx(s.as_bytes()));
    run.count(&format!("parse_{op}_{}", if ip.is_some() { "ok" } else { "err" }));
    if ip.is_some() {
        run.nontrivial(req.clone());
    }
    run.case(req, ip_str(ip));
}

// ---------------------------------------------------------------- host_is_non_global

/// `host_is_non_global` on a URI whose host is `host`; the model receives what `Uri::host()` says.
fn ng_case(run: &mut Run, uri_text: &str, tag: &str) {
    let Ok(uri) = uri_text.parse::<Uri>() else {
        run.count("ng_uri_rejected_by_http_crate");
        return;
    };
    let req = format!("C27 ng host={}", opt_hx(uri.host()));
    match guarded(std::panic::AssertUnwindSafe(|| hook::host_is_non_global(&uri))) {
        Ok(v) => {
            run.count(&format!("{tag}_{}", if v { "refused" } else { "admitted" }));
            let internal = uri.host().and_then(spec_internal_host);
            if internal.is_some() {
                run.nontrivial(req.clone());
            }
            let idx = run.case(req, if v { "1" } else { "0" }.to_string());
            if let Some(cat) = internal {
                if !v {
                    run.fail(idx, &format!("internal-host-admitted-{}", cat.split('-').next().unwrap_or("x")), format!("host_is_non_global({uri_text}) is false but the host is {cat}"));
                }
            }
            if uri.host().is_none() && !v {
                run.fail(idx, "hostless-target-admitted", format!("host_is_non_global({uri_text}) is false for a URI without host"));
            }
        }
        Err(e) => {
            let idx = run.case(req, "panic".to_string());
            run.fail(idx, "panic", format!("host_is_non_global panicked on {uri_text}: {e}"));
        }
    }
}

fn one_ng(run: &mut Run, rng: &mut Rng) {
    let host = match rng.below(10) {
        0..=2 => {
            let a = gen_v4(rng);
            enc_v4(rng, a)
        }
        3 | 4 => {
            let a = gen_v4(rng);
            enc_v6_of_v4(rng, a)
        }
        5 => rng.pick(V6_LITERALS).to_string(),
        6 => {
            let n = rng.pick(NAMES).to_string();
            if rng.chance(1, 3) {
                flip_case(rng, &n)
            } else {
                n
            }
        }
        7 => format!("[{}]", gen_v6_text(rng)),
        8 => gen_v4_text(rng),
        _ => gen_target_host(rng, &[], 50),
    };
    let text = match rng.below(12) {
        0 => host.clone(),
        1 => format!("{host}:8080"),
        2 => format!("http://user:pw@{host}/x"),
        3 => format!("https://{host}:443/"),
        4 => rng.pick(&["/only/path", "*", "/"]).to_string(),
        _ => format!("http://{host}/"),
    };
    ng_case(run, &text, "ng");
}

/// Every /16 prefix (thorough) or the prefixes around every block edge (quick) × representative
/// suffixes, as dotted-decimal literals, against the independent table.
fn v4_sweep(run: &mut Run) {
    let suffixes: [(u8, u8); 8] = [(0, 0), (0, 1), (2, 1), (100, 7), (113, 255), (255, 255), (255, 254), (1, 1)];
    let bs: Vec<u16> = if run.thorough() {
        (0..256).collect()
    } else {
        vec![0, 1, 15, 16, 31, 32, 51, 63, 64, 100, 127, 128, 167, 168, 169, 253, 254, 255]
    };
    for a in 0..256u16 {
        for b in &bs {
            for (c, d) in suffixes {
                ng_case(run, &format!("http://{a}.{b}.{c}.{d}/"), "sweep");
            }
        }
    }
    run.count("v4_sweep_done");
}

// ---------------------------------------------------------------- redirect chains

fn run_redirect(c: &ChainCase) -> Result<(String, Vec<Seen>), String> {
    let (t, seen) = Scripted::new(c.script.clone());
    let request = c.request();
    let redirects = c.redirects;
    let async_mode = c.async_mode;
    let class = guarded(std::panic::AssertUnwindSafe(move || {
        if async_mode {
            let r = hook::redirect_resolver_async(t, redirects);
            result_class(&block_on(r.http_resolve_async(request)))
        } else {
            let r = hook::redirect_resolver_sync(t, redirects);
            result_class(&r.http_resolve(request))
        }
    }))?;
    let s = seen.lock().unwrap().clone();
    Ok((class, s))
}

fn chain_case(run: &mut Run, c: &ChainCase, tag: &str) {
    let (uris, hops) = plan(&c.uri, &c.script);
    let req = format!("C27 chain {}", c.line(&hops));
    match run_redirect(c) {
        Ok((class, seen)) => {
            run.count(&format!("{tag}_result_{}", class.split(':').next().unwrap()));
            run.count(&format!("{tag}_transport_calls_{:02}", seen.len()));
            let sensitive_in = c.headers.iter().any(|(n, _)| SENSITIVE.contains(&n.to_ascii_lowercase().as_str()));
            if class == "target-disallowed" || class == "too-many" || class == "redirect-disallowed" || (seen.len() >= 2 && sensitive_in) {
                run.nontrivial(req.clone());
            }
            let idx = run.case(req, format!("{class} n={} t={}", seen.len(), trace_enc(&seen)));
            // --- the property on what the transport saw
            for (k, s) in seen.iter().enumerate().skip(1) {
                match s.uri.host() {
                    None => run.fail(idx, "hostless-target-requested", format!("hop {k} requested {} (no host)", s.uri)),
                    Some(h) => {
                        if let Some(cat) = spec_internal_host(h) {
                            run.fail(idx, &format!("internal-host-requested-{}", cat.split('-').next().unwrap_or("x")), format!("hop {k} requested {} ({cat})", s.uri));
                        }
                    }
                }
                for (n, _) in &s.headers {
                    if SENSITIVE.contains(&n.to_ascii_lowercase().as_str()) {
                        run.fail(idx, "sensitive-header-forwarded", format!("hop {k} to {} carries header {n}", s.uri));
                    }
                }
            }
            if seen.len() > 11 {
                run.fail(idx, "more-than-ten-redirects", format!("{} transport calls", seen.len()));
            }
            if !c.redirects {
                if seen.len() > 1 {
                    run.fail(idx, "redirect-followed-while-disabled", format!("{} transport calls with redirects disabled", seen.len()));
                }
                let first_is_redirect = matches!(hops.first(), Some(Hop { reply: Reply::Resp { status, .. }, loc: LocKind::Str(_), .. }) if (300..400).contains(status));
                if first_is_redirect && class != "redirect-disallowed" {
                    run.fail(idx, "redirect-not-refused-while-disabled", format!("result {class} for a redirect response with redirects disabled"));
                }
            }
            let _ = uris;
        }
        Err(e) => {
            let idx = run.case(req, "panic".to_string());
            run.fail(idx, "panic", format!("RedirectResolver panicked: {e}"));
        }
    }
}

fn one_chain(run: &mut Run, rng: &mut Rng) {
    let uri: Uri = loop {
        let s = match rng.below(12) {
            0 => gen_uri_string(rng, &None),
            1 => format!("http://{}/start", gen_target_host(rng, &[], 60)),
            _ => format!("{}://{}{}", rng.pick(&["http", "https"]), rng.pick(&["example.com", "cdn.example.org", "start.example.net:8443", "93.184.216.34"]), gen_path(rng)),
        };
        if let Ok(u) = s.parse::<Uri>() {
            break u;
        }
    };
    let len = match rng.below(12) {
        0 => 0,
        1 | 2 => 1,
        3 | 4 => 2,
        5 => 3,
        6 | 7 => rng.range(4, 9) as usize,
        8 => 10,
        9 => 11,
        _ => 12,
    };
    let bias = *rng.pick(&[0u64, 5, 10, 25, 60]);
    let c = ChainCase {
        allow: None,
        redirects: !rng.chance(1, 8),
        method: rng.pick(&["GET", "GET", "POST", "HEAD", "PUT", "QUERY"]).to_string(),
        uri,
        headers: gen_headers(rng),
        body: rng.bytes(rng.clone().below(5) as usize),
        script: gen_script(rng, len, &[], bias),
        async_mode: rng.chance(1, 3),
    };
    chain_case(run, &c, "chain");
}

/// Every internal-host spelling as the *second* hop of a chain that starts on a public host.
fn fixed_chains(run: &mut Run, rng: &mut Rng) {
    let r = |loc: &str| Reply::Resp { status: 302, locations: vec![loc.as_bytes().to_vec()] };
    let ok = Reply::Resp { status: 200, locations: vec![] };
    let mut targets: Vec<String> = vec![];
    for (lo, hi, _) in V4_BLOCKS {
        for ip in [*lo, *hi, lo + (hi - lo) / 2] {
            let a = ip.to_be_bytes();
            for _ in 0..6 {
                targets.push(enc_v4(rng, a));
                targets.push(enc_v6_of_v4(rng, a));
            }
        }
    }
    targets.extend(V6_LITERALS.iter().map(|s| s.to_string()));
    targets.extend(NAMES.iter().map(|s| s.to_string()));
    for (i, t) in targets.iter().enumerate() {
        let c = ChainCase {
            allow: None,
            redirects: true,
            method: "GET".into(),
            uri: "https://public.example.com/a".parse().unwrap(),
            headers: vec![("Authorization".into(), b"Bearer s".to_vec()), ("Cookie".into(), b"a=b".to_vec()), ("accept".into(), b"*/*".to_vec()), ("Proxy-Authorization".into(), b"p".to_vec()), ("HOST".into(), b"public.example.com".to_vec())],
            body: vec![1, 2],
            script: vec![r("/b"), r(&format!("http://{t}/c")), ok.clone()],
            async_mode: i % 2 == 1,
        };
        chain_case(run, &c, "fixed");
    }
}

/// "The SDK": the request sites that do not use the caller's Context (`Model/C26.lean`, `Site`),
/// driven on the real code. The listener answers the first request with a redirect to itself, i.e.
/// to a loopback address: no second request may arrive, and with redirects disabled the outcome
/// must be the redirect-disallowed refusal.
fn site_cases(run: &mut Run) {
    let Some(mut lb) = loopback() else {
        run.notes.push("loopback listener unavailable: request-site cases skipped".to_string());
        run.obligations.insert("request-sites-driven-over-loopback".to_string(), false);
        return;
    };
    let internal = format!("{}/internal", lb.base());
    let url = lb.redirect_to(&internal);
    let mut ran = 0;
    for (kind, async_mode) in [(SiteKind::Ctx, false), (SiteKind::Ctx, true), (SiteKind::Tsa, false), (SiteKind::Remote, false)] {
        for redirects in [true, false] {
            let c = ChainCase {
                allow: None,
                redirects,
                method: "POST".into(),
                uri: url.parse().expect("uri"),
                headers: vec![],
                body: vec![],
                script: vec![Reply::Resp { status: 302, locations: vec![internal.clone().into_bytes()] }, Reply::Resp { status: 200, locations: vec![] }],
                async_mode,
            };
            let (_, hops) = plan(&c.uri, &c.script);
            let req = format!("C27 site kind={} {}", kind.tag(), c.line(&hops));
            match run_site(&lb, kind, &None, redirects, &url, async_mode) {
                Ok((class, hits)) => {
                    ran += 1;
                    run.count(&format!("site_{}_{}_{}_calls_{}", kind.tag(), if async_mode { "async" } else { "sync" }, class, hits.len()));
                    run.nontrivial(req.clone());
                    let idx = run.case(req, format!("{class} n={}", hits.len()));
                    let later_internal = hits.iter().skip(1).any(|h| hit_uri(&lb, h).and_then(|u| u.host().and_then(spec_internal_host)).is_some());
                    if later_internal {
                        let cls = match kind {
                            SiteKind::Remote => "remote-signer-follows-redirect-to-internal-host",
                            SiteKind::Tsa => "signer-timestamp-redirect-to-internal-host",
                            SiteKind::Ctx => "internal-host-requested-v4",
                        };
                        run.fail(idx, cls, format!("the {} request to {url} was redirected to {internal} and followed: listener saw {hits:?}", kind.tag()));
                    }
                    if !redirects {
                        if hits.len() > 1 {
                            let cls = if kind == SiteKind::Remote { "remote-signer-follows-redirect-while-disabled" } else { "redirect-followed-while-disabled" };
                            run.fail(idx, cls, format!("core.allow_redirects = false, yet the {} request followed the redirect: listener saw {hits:?}", kind.tag()));
                        } else if class != "redirect-disallowed" {
                            let cls = match kind {
                                SiteKind::Tsa => "signer-timestamp-request-ignores-allow-redirects",
                                SiteKind::Remote => "remote-signer-follows-redirect-while-disabled",
                                SiteKind::Ctx => "redirect-not-refused-while-disabled",
                            };
                            run.fail(idx, cls, format!("core.allow_redirects = false, yet the redirect answered to the {} request was not refused as disabled (outcome {class}: the target was resolved and classified, a public target would have been requested)", kind.tag()));
                        }
                    }
                }
                Err(e) => run.notes.push(format!("site case {} not run: {e}", kind.tag())),
            }
        }
    }
    lb.shutdown();
    run.obligations.insert("request-sites-driven-over-loopback".to_string(), ran == 8);
}

pub fn run(run: &mut Run, rng: &mut Rng) {
    run.rule = "address texts from grammars for IPv4 (strict/loose parts, counts, zeros) and IPv6 (groups, `::` anywhere, embedded dotted quad, zone, brackets) plus point mutations, against std's parsers; hosts in every notation of the statement (decimal/octal/hex/short/percent/padded IPv4, mapped/compatible/NAT64/6to4 IPv6, block edges ±1, localhost names) against host_is_non_global; redirect chains of 0–12 hops (Location from the grammar, header sets with the four sensitive names in mixed case) through RedirectResolver over a scripted recording transport. Non-trivial: an accepted address text, a host of a listed block, a chain ending in a refusal/limit or forwarding a request that carried sensitive headers; distinct by request text".to_string();
    v4_sweep(run);
    site_cases(run);
    fixed_chains(run, rng);
    let scale = if run.thorough() { 30 } else { 1 };
    for _ in 0..25_000 * scale {
        let mut r = rng.fork();
        one_parse(run, &mut r);
    }
    for _ in 0..15_000 * scale {
        let mut r = rng.fork();
        one_ng(run, &mut r);
    }
    for _ in 0..15_000 * scale {
        let mut r = rng.fork();
        one_chain(run, &mut r);
    }
}
