//! C02 — tamper evidence of the manifest store.
//!
//! Byte level, one model request per (store, mutation kind):
//!   C02 cover store=<hex> pads=<s:l,…|-> nils=<p,…|-> heads=<p,…|-> kind=<flip|set> case=<name> obs=<a-b:o,…>
//! `obs` is the run-length encoded list of what the implementation did when byte `p` of the store
//! was changed: `d` detected (read error or state Invalid), `u` accepted with the report unchanged,
//! `X` accepted with a different report, `-` not tried. The model (lean/C2paModel/Model/C02.lean)
//! parses the store with the C18 JUMBF model, assigns every byte its coverage class and answers
//! `ok` when every observation is allowed for its class (`d` for covered classes; `d` or `u` for
//! the enumerated uncovered classes), else the first offending position. `pads` (pad entries of
//! COSE unprotected headers), `nils` (the nil payload byte of a COSE_Sign1) and `heads` (CBOR string heads inside databoxes) are located here and
//! re-checked for shape and position by the model. The implementation reply is the constant `ok`.
//!
//! Function level, one request per (store, edit):
//!   C02 verify case=<name> edit=<edit> store=<manifest>|<manifest>|…
//! a real store — pristine, or with a bit flipped inside an assertion / claim payload or a pad of a
//! signature box, or with boxes reordered / duplicated / dropped / relabelled — is loaded with the
//! real `Store::from_jumbf`, described to layer A of the model (labels, instances, digests, ingredient
//! references, redactions as the code parses them) and the reply is the log of the real
//! `Store::verify_store` in the vocabulary of layer A (`ok|err` + sorted failures).
//!
//! Implementation-level oracle (independent of the model): a change of a store byte, a box
//! reorder / duplication / label edit either gives an error / Invalid, or the report (minus the
//! validation time) is byte-identical to the untampered one; changed payload bytes of a store that
//! still loads leave a failure in the log of `verify_store`.

use std::io::Cursor;

use c2pa::{
    status_tracker::{LogKind, StatusTracker},
    verif_hooks::{c19 as hk19, c20 as hk20, c34 as hk34},
    Builder, Context, EphemeralSigner, Reader,
};
use sha2::{Digest, Sha256};
use vh::common::{canon_json, fixtures, guarded, hex, main_with, Rng, Run};
use vh::embed_common::{self as ec, Family};

fn main() {
    main_with("C02", run);
}

fn settings() -> String {
    serde_json::json!({
        "verify": {"remote_manifest_fetch": false, "ocsp_fetch": false},
        "builder": {"thumbnail": {"enabled": false}}
    })
    .to_string()
}

/// extra content of a manifest definition: note assertions (label, text) — the same label may
/// occur more than once (instances `label`, `label__1`, …) — and redacted assertion URIs
#[derive(Clone, Default)]
struct Extra {
    notes: Vec<(String, String)>,
    redactions: Vec<String>,
}

fn definition(format: &str, title: &str, created: bool, extra: &Extra) -> String {
    let mut v = serde_json::json!({
        "title": title,
        "format": format,
        "claim_generator_info": [{"name": "verif-harness", "version": "0.1"}],
        "assertions": []
    });
    let mut actions = vec![];
    if created {
        actions.push(serde_json::json!({"action": "c2pa.created", "digitalSourceType": "http://cv.iptc.org/newscodes/digitalsourcetype/digitalCapture"}));
    }
    for u in &extra.redactions {
        actions.push(serde_json::json!({"action": "c2pa.redacted", "reason": "c2pa.PII.present", "parameters": {"redacted": u}}));
    }
    let mut assertions = vec![];
    if !actions.is_empty() {
        assertions.push(serde_json::json!({"label": "c2pa.actions", "data": {"actions": actions}}));
    }
    if created {
        assertions.push(serde_json::json!({"label": "org.verif.note", "data": {"text": "hello store"}}));
    }
    for (l, t) in &extra.notes {
        assertions.push(serde_json::json!({"label": l, "data": {"text": t}}));
    }
    v["assertions"] = serde_json::json!(assertions);
    if !extra.redactions.is_empty() {
        v["redactions"] = serde_json::json!(extra.redactions);
    }
    v.to_string()
}

/// (relationship, format, signed ingredient bytes)
type Ing = (&'static str, String, Vec<u8>);

fn sign(format: &str, src: &[u8], title: &str, ingredients: &[Ing]) -> Result<Vec<u8>, String> {
    sign_ex(format, src, title, ingredients, &Extra::default())
}

fn sign_ex(format: &str, src: &[u8], title: &str, ingredients: &[Ing], extra: &Extra) -> Result<Vec<u8>, String> {
    let (f, s, t, ings, extra) = (format.to_string(), src.to_vec(), title.to_string(), ingredients.to_vec(), extra.clone());
    let r = guarded(move || -> c2pa::Result<Vec<u8>> {
        let signer = EphemeralSigner::new("verif.test")?;
        let ctx = Context::new().with_settings(settings().as_str())?.with_signer(signer);
        let has_parent = ings.iter().any(|i| i.0 == "parentOf");
        let mut builder = Builder::from_context(ctx).with_definition(definition(&f, &t, !has_parent, &extra).as_str())?;
        if has_parent {
            builder.set_intent(c2pa::BuilderIntent::Edit);
        }
        for (k, (rel, ifmt, bytes)) in ings.iter().enumerate() {
            let j = serde_json::json!({"title": format!("ing{k}"), "relationship": rel}).to_string();
            builder.add_ingredient_from_stream(j, ifmt, &mut Cursor::new(bytes.clone()))?;
        }
        let mut input = Cursor::new(s);
        let mut output = Cursor::new(Vec::new());
        builder.save_to_stream(&f, &mut input, &mut output)?;
        Ok(output.into_inner())
    });
    match r {
        Ok(Ok(v)) => Ok(v),
        Ok(Err(e)) => Err(format!("{e:?}")),
        Err(p) => Err(format!("PANIC {p}")),
    }
}

#[derive(Clone, Debug, PartialEq)]
struct Report {
    state: String,
    failure: Vec<String>,
    json: String,
    active: String,
}

impl Report {
    fn accepted(&self) -> bool {
        self.state == "Valid" || self.state == "Trusted"
    }
}

/// Read `asset` with the manifest store given separately (no container framing in the way).
fn read_with_store(format: &str, asset: &[u8], store: &[u8]) -> Report {
    let (f, a, s) = (format.to_string(), asset.to_vec(), store.to_vec());
    let r = guarded(move || {
        let ctx = Context::new().with_settings(settings().as_str()).expect("settings");
        Reader::from_context(ctx).with_manifest_data_and_stream(&s, &f, Cursor::new(a))
    });
    report_of(r)
}

fn read_embedded(format: &str, asset: &[u8]) -> Report {
    let (f, a) = (format.to_string(), asset.to_vec());
    let r = guarded(move || {
        let ctx = Context::new().with_settings(settings().as_str()).expect("settings");
        Reader::from_context(ctx).with_stream(&f, Cursor::new(a))
    });
    report_of(r)
}

fn report_of(r: Result<c2pa::Result<Reader>, String>) -> Report {
    match r {
        Err(p) => Report { state: format!("Err:PANIC {p}"), failure: vec![], json: String::new(), active: String::new() },
        Ok(Err(e)) => {
            let d = format!("{e:?}");
            let cls: String = d.chars().take_while(|c| c.is_ascii_alphanumeric()).collect();
            Report { state: format!("Err:{cls}"), failure: vec![], json: String::new(), active: String::new() }
        }
        Ok(Ok(reader)) => {
            let mut v: serde_json::Value = serde_json::from_str(&reader.json()).unwrap_or(serde_json::Value::Null);
            if let Some(o) = v.as_object_mut() {
                if let Some(vr) = o.get_mut("validation_results").and_then(|x| x.as_object_mut()) {
                    vr.remove("validationTime");
                }
            }
            let failure = reader
                .validation_results()
                .and_then(|r| r.active_manifest())
                .map(|a| a.failure().iter().map(|s| s.code().to_string()).collect())
                .unwrap_or_default();
            Report {
                state: format!("{:?}", reader.validation_state()),
                failure,
                json: canon_json(&v),
                active: reader.active_label().unwrap_or("").to_string(),
            }
        }
    }
}

fn outcome(base: &Report, r: &Report) -> char {
    if r.state.contains("PANIC") {
        'P'
    } else if !r.accepted() {
        'd'
    } else if r.json == base.json {
        'u'
    } else {
        'X'
    }
}

fn rle(obs: &[char]) -> String {
    let mut out = vec![];
    let mut i = 0;
    while i < obs.len() {
        let mut j = i;
        while j + 1 < obs.len() && obs[j + 1] == obs[i] {
            j += 1;
        }
        out.push(format!("{i}-{j}:{}", obs[i]));
        i = j + 1;
    }
    out.join(",")
}

struct Case {
    name: String,
    format: String,
    asset: Vec<u8>,
    store: Vec<u8>,
    base: Report,
}

fn store_of(format: &str, asset: &[u8]) -> Option<Vec<u8>> {
    let (f, b) = (format.to_string(), asset.to_vec());
    guarded(move || c2pa::jumbf_io::load_jumbf_from_stream(&f, &mut Cursor::new(b)).ok()).ok().flatten()
}

fn prepare(run: &mut Run, name: &str, format: &str, asset: Vec<u8>) -> Option<Case> {
    let store = store_of(format, &asset)?;
    let base = read_with_store(format, &asset, &store);
    let emb = read_embedded(format, &asset);
    if !base.accepted() {
        run.notes.push(format!("baseline {name}: {} {:?}", base.state, base.failure));
        run.count(&format!("baseline-not-valid:{name}"));
        return None;
    }
    run.obligations.insert(format!("detached-store-report-equals-embedded:{name}"), emb.json == base.json);
    run.count(&format!("store:{name}"));
    Some(Case { name: name.to_string(), format: format.to_string(), asset, store, base })
}

fn build_cases(run: &mut Run, rng: &mut Rng) -> Vec<Case> {
    let mut cases = vec![];
    let png = ec::gen_asset(Family::Png, rng, None);
    let jpg = ec::gen_asset(Family::Jpeg, rng, None);
    let fpng = std::fs::read(fixtures().join("libpng-test.png")).unwrap_or_default();
    // single manifest
    let Ok(single) = sign("png", &png.bytes, "single", &[]) else {
        run.notes.push("sign single failed".into());
        return cases;
    };
    if let Some(c) = prepare(run, "single:png", "png", single.clone()) {
        cases.push(c);
    }
    // parent + component chain: A (single), B = edit of A with component C
    let comp = sign("jpg", &jpg.bytes, "component", &[]).unwrap_or_default();
    match sign("png", &fpng, "child", &[("parentOf", "png".into(), single.clone()), ("componentOf", "jpg".into(), comp.clone())]) {
        Ok(child) => {
            if let Some(c) = prepare(run, "chain2:png", "image/png", child.clone()) {
                cases.push(c);
            }
            // grand child: parent chain of depth 2
            match sign("png", &png.bytes, "grandchild", &[("parentOf", "image/png".into(), child)]) {
                Ok(g) => {
                    if let Some(c) = prepare(run, "chain3:png", "png", g) {
                        cases.push(c);
                    }
                }
                Err(e) => run.notes.push(format!("sign grandchild failed: {e}")),
            }
        }
        Err(e) => run.notes.push(format!("sign child failed: {e}")),
    }
    // redaction chain: the parent carries three instances of one label (`org.verif.memo`,
    // `…__1`, `…__2`) and a second label; the child (parent + component ingredient) redacts the
    // middle instance; the grandchild carries the redaction one level further down
    let rextra = Extra {
        notes: vec![
            ("org.verif.memo".into(), "memo-zero-kept-0000".into()),
            ("org.verif.memo".into(), "memo-one-redacted-1111".into()),
            ("org.verif.memo".into(), "memo-two-kept-2222".into()),
            ("org.verif.other".into(), "other-kept-3333".into()),
        ],
        redactions: vec![],
    };
    match sign_ex("png", &png.bytes, "rparent", &[], &rextra) {
        Ok(rparent) => {
            let plabel = read_embedded("png", &rparent).active;
            let uri = format!("self#jumbf=/c2pa/{plabel}/c2pa.assertions/org.verif.memo__1");
            let cextra = Extra {
                notes: vec![("org.verif.memo".into(), "memo-of-child-zero".into()), ("org.verif.memo".into(), "memo-of-child-one".into())],
                redactions: vec![uri],
            };
            match sign_ex("png", &fpng, "rchild", &[("parentOf", "png".into(), rparent), ("componentOf", "jpg".into(), comp)], &cextra) {
                Ok(rchild) => {
                    let r = read_embedded("image/png", &rchild);
                    run.obligations.insert(
                        "redaction-chain:redacted-text-gone-siblings-kept".into(),
                        !r.json.contains("memo-one-redacted-1111") && r.json.contains("memo-zero-kept-0000") && r.json.contains("memo-two-kept-2222"),
                    );
                    if let Some(c) = prepare(run, "redact2:png", "image/png", rchild.clone()) {
                        cases.push(c);
                    }
                    match sign("png", &png.bytes, "rgrandchild", &[("parentOf", "image/png".into(), rchild)]) {
                        Ok(g) => {
                            if let Some(c) = prepare(run, "redact3:png", "png", g) {
                                cases.push(c);
                            }
                        }
                        Err(e) => run.notes.push(format!("sign redaction grandchild failed: {e}")),
                    }
                }
                Err(e) => run.notes.push(format!("sign redaction child failed: {e}")),
            }
        }
        Err(e) => run.notes.push(format!("sign redaction parent failed: {e}")),
    }
    // a fixture with a v1 claim chain, an update manifest and a `c2pa.databoxes` store (the
    // builder writes v2 claims, which keep such data in assertions)
    if let Ok(f) = std::fs::read(fixtures().join("update_manifest.jpg")) {
        if let Some(c) = prepare(run, "fixture-databoxes:jpg", "jpg", f) {
            run.obligations.insert("fixture-has-databox-store".into(), c.store.windows(14).any(|w| w == b"c2pa.databoxes"));
            cases.push(c);
        }
    }
    cases
}


// ───────────────────────── a minimal JUMBF tree for structural edits ─────────────────────────

#[derive(Clone, Debug)]
enum Node {
    /// jumb: description box bytes (whole jumd box) + children
    Super(Vec<u8>, Vec<Node>),
    /// any other box, raw (header included)
    Leaf(Vec<u8>),
}

fn parse_nodes(b: &[u8]) -> Option<Vec<Node>> {
    let mut out = vec![];
    let mut off = 0usize;
    while off + 8 <= b.len() {
        let l = u32::from_be_bytes(b[off..off + 4].try_into().ok()?) as usize;
        if l < 8 || off + l > b.len() {
            return None;
        }
        if &b[off + 4..off + 8] == b"jumb" {
            let dl = u32::from_be_bytes(b[off + 8..off + 12].try_into().ok()?) as usize;
            if &b[off + 12..off + 16] != b"jumd" || 8 + dl > l {
                return None;
            }
            let desc = b[off + 8..off + 8 + dl].to_vec();
            let kids = parse_nodes(&b[off + 8 + dl..off + l])?;
            out.push(Node::Super(desc, kids));
        } else {
            out.push(Node::Leaf(b[off..off + l].to_vec()));
        }
        off += l;
    }
    if off == b.len() {
        Some(out)
    } else {
        None
    }
}

fn ser_node(n: &Node) -> Vec<u8> {
    match n {
        Node::Leaf(b) => b.clone(),
        Node::Super(desc, kids) => {
            let mut body = desc.clone();
            for k in kids {
                body.extend(ser_node(k));
            }
            let mut out = ((body.len() + 8) as u32).to_be_bytes().to_vec();
            out.extend_from_slice(b"jumb");
            out.extend(body);
            out
        }
    }
}

fn label_of(n: &Node) -> String {
    match n {
        Node::Super(desc, _) if desc.len() > 25 => String::from_utf8_lossy(desc[25..].split(|b| *b == 0).next().unwrap_or(&[])).to_string(),
        _ => String::new(),
    }
}

fn kids_mut(n: &mut Node) -> Option<&mut Vec<Node>> {
    match n {
        Node::Super(_, k) => Some(k),
        _ => None,
    }
}

fn set_label(n: &mut Node, new: &str) {
    if let Node::Super(desc, _) = n {
        let old_len = desc[25..].iter().position(|b| *b == 0).unwrap_or(0);
        let mut d = desc[..25].to_vec();
        d.extend_from_slice(new.as_bytes());
        d.extend_from_slice(&desc[25 + old_len..]);
        let l = d.len() as u32;
        d[0..4].copy_from_slice(&l.to_be_bytes());
        *desc = d;
    }
}

/// Structural edits of a store; each returns (name, edited store bytes).
fn structural_edits(store: &[u8]) -> Vec<(String, Vec<u8>)> {
    let mut out = vec![];
    let Some(top) = parse_nodes(store) else { return out };
    if top.len() != 1 {
        return out;
    }
    let root = top[0].clone();
    let n_manifests = match &root {
        Node::Super(_, k) => k.len(),
        _ => 0,
    };
    if n_manifests == 0 {
        return out;
    }
    let active = n_manifests - 1;
    let mut emit = |name: String, r: &Node| out.push((name, ser_node(r)));
    // manifests: swap, duplicate, drop, rotate
    if n_manifests >= 2 {
        let mut r = root.clone();
        kids_mut(&mut r).unwrap().swap(0, active);
        emit("manifest-swap-first-active".into(), &r);
        let mut r = root.clone();
        kids_mut(&mut r).unwrap().swap(0, 1);
        emit("manifest-swap-0-1".into(), &r);
        let mut r = root.clone();
        kids_mut(&mut r).unwrap().remove(0);
        emit("manifest-drop-ingredient".into(), &r);
        let mut r = root.clone();
        let k = kids_mut(&mut r).unwrap();
        let m = k[0].clone();
        k.push(m);
        emit("manifest-dup-ingredient-last".into(), &r);
    }
    {
        let mut r = root.clone();
        let k = kids_mut(&mut r).unwrap();
        let m = k[active].clone();
        k.insert(0, m);
        emit("manifest-dup-active-first".into(), &r);
        let mut r = root.clone();
        let k = kids_mut(&mut r).unwrap();
        let m = k[active].clone();
        k.push(m);
        emit("manifest-dup-active-last".into(), &r);
    }
    // inside every manifest: reorder / duplicate / drop / rename the boxes and the assertions
    for mi in 0..n_manifests {
        let which = if mi == active { "active".to_string() } else { format!("ing{mi}") };
        let m0 = match &root {
            Node::Super(_, k) => k[mi].clone(),
            _ => continue,
        };
        let parts = match &m0 {
            Node::Super(_, k) => k.len(),
            _ => 0,
        };
        let mut with_manifest = |name: String, m: Node, out_emit: &mut dyn FnMut(String, &Node)| {
            let mut r = root.clone();
            kids_mut(&mut r).unwrap()[mi] = m;
            out_emit(name, &r);
        };
        for a in 0..parts {
            for b in a + 1..parts {
                let mut m = m0.clone();
                kids_mut(&mut m).unwrap().swap(a, b);
                with_manifest(format!("{which}:swap-parts-{a}-{b}"), m, &mut emit);
            }
            let mut m = m0.clone();
            let k = kids_mut(&mut m).unwrap();
            let c = k[a].clone();
            k.push(c);
            with_manifest(format!("{which}:dup-part-{a}"), m, &mut emit);
            let mut m = m0.clone();
            kids_mut(&mut m).unwrap().remove(a);
            with_manifest(format!("{which}:drop-part-{a}"), m, &mut emit);
        }
        // assertion store = the part labelled c2pa.assertions
        let Some(ai) = (match &m0 {
            Node::Super(_, k) => k.iter().position(|n| label_of(n) == "c2pa.assertions"),
            _ => None,
        }) else {
            continue;
        };
        let store0 = match &m0 {
            Node::Super(_, k) => k[ai].clone(),
            _ => continue,
        };
        let na = match &store0 {
            Node::Super(_, k) => k.len(),
            _ => 0,
        };
        let mut with_assertions = |name: String, st: Node, out_emit: &mut dyn FnMut(String, &Node)| {
            let mut m = m0.clone();
            kids_mut(&mut m).unwrap()[ai] = st;
            let mut r = root.clone();
            kids_mut(&mut r).unwrap()[mi] = m;
            out_emit(name, &r);
        };
        for a in 0..na {
            if a + 1 < na {
                let mut st = store0.clone();
                kids_mut(&mut st).unwrap().swap(a, a + 1);
                with_assertions(format!("{which}:assertion-swap-{a}"), st, &mut emit);
            }
            let mut st = store0.clone();
            let k = kids_mut(&mut st).unwrap();
            let c = k[a].clone();
            k.push(c);
            with_assertions(format!("{which}:assertion-dup-{a}"), st, &mut emit);
            let mut st = store0.clone();
            kids_mut(&mut st).unwrap().remove(a);
            with_assertions(format!("{which}:assertion-drop-{a}"), st, &mut emit);
            // an undeclared copy under a new label, and a relabel
            let mut st = store0.clone();
            let k = kids_mut(&mut st).unwrap();
            let mut c = k[a].clone();
            let l = label_of(&c);
            set_label(&mut c, &format!("{l}.x"));
            k.push(c);
            with_assertions(format!("{which}:assertion-add-undeclared-{a}"), st, &mut emit);
            let mut st = store0.clone();
            let k = kids_mut(&mut st).unwrap();
            set_label(&mut k[a], &format!("{l}__9"));
            with_assertions(format!("{which}:assertion-relabel-{a}"), st, &mut emit);
        }
    }
    out
}

/// `pad` / `pad2` entries of COSE unprotected headers: (offset, length) of the key text and of
/// the byte-string value (head + bytes), anywhere in the store (the model only honours the active manifest).
fn pad_ranges(store: &[u8]) -> Vec<(usize, usize)> {
    let mut out = vec![];
    for (key, klen) in [(&b"\x63pad"[..], 3usize), (&b"\x64pad2"[..], 4usize)] {
        let mut i = 0;
        while i + key.len() + 1 < store.len() {
            if &store[i..i + key.len()] == key {
                let v = i + key.len();
                let (hdr, len) = match store[v] {
                    b @ 0x40..=0x57 => (1usize, (b - 0x40) as usize),
                    0x58 => (2, store.get(v + 1).copied().unwrap_or(0) as usize),
                    0x59 => (3, u16::from_be_bytes([store.get(v + 1).copied().unwrap_or(0), store.get(v + 2).copied().unwrap_or(0)]) as usize),
                    _ => (0, 0),
                };
                if hdr > 0 && v + hdr + len <= store.len() && store[v + hdr..v + hdr + len].iter().all(|b| *b == 0) {
                    // key text, then the value: its CBOR head (a change of the major type from
                    // byte string to text string keeps the entry well-formed) and its zero bytes
                    out.push((i + 1, klen));
                    out.push((v, hdr + len));
                }
            }
            i += 1;
        }
    }
    out
}

/// super boxes directly inside `b[start..end]`: (offset, length, label, offset of the first child)
fn supers(b: &[u8], start: usize, end: usize) -> Vec<(usize, usize, String, usize)> {
    let mut out = vec![];
    let mut off = start;
    while off + 8 <= end.min(b.len()) {
        let l = u32::from_be_bytes([b[off], b[off + 1], b[off + 2], b[off + 3]]) as usize;
        if l < 8 || off + l > end {
            break;
        }
        if &b[off + 4..off + 8] == b"jumb" && l >= 16 {
            let dl = u32::from_be_bytes([b[off + 8], b[off + 9], b[off + 10], b[off + 11]]) as usize;
            if dl >= 25 && 8 + dl <= l {
                let lab = &b[off + 33..off + 8 + dl];
                let lab = String::from_utf8_lossy(lab.split(|x| *x == 0).next().unwrap_or(&[])).to_string();
                out.push((off, l, lab, off + 8 + dl));
            }
        }
        off += l;
    }
    out
}

/// byte ranges (offset, length) of the assertion stores of the manifests that are not the active
/// one, and of the databox / credential stores of every manifest
fn ingredient_assertion_ranges(store: &[u8]) -> Vec<(usize, usize)> {
    let mut out = vec![];
    let Some(root) = supers(store, 0, store.len()).into_iter().next() else { return out };
    let manifests = supers(store, root.3, root.0 + root.1);
    for (k, m) in manifests.iter().enumerate() {
        for part in supers(store, m.3, m.0 + m.1) {
            // assertion stores of the ingredient manifests; databox and credential stores of all
            if (part.2 == "c2pa.assertions" && k + 1 < manifests.len()) || part.2 == "c2pa.databoxes" || part.2 == "c2pa.credentials" {
                out.push((part.0, part.1));
            }
        }
    }
    out
}

/// offsets (relative to `b`) of the heads of byte- and text-string items (major type 2, 3) of the CBOR item
/// starting at `*pos`; None = not well-formed / indefinite lengths (nothing is claimed then)
fn cbor_bstr_heads(b: &[u8], pos: &mut usize, out: &mut Vec<usize>, depth: usize) -> Option<()> {
    if depth > 32 {
        return None;
    }
    let head = *pos;
    let ib = *b.get(head)?;
    let (major, ai) = (ib >> 5, ib & 0x1f);
    *pos += 1;
    let arg: u64 = match ai {
        0..=23 => ai as u64,
        24 => {
            let v = *b.get(*pos)? as u64;
            *pos += 1;
            v
        }
        25 | 26 | 27 => {
            let n = 1usize << (ai - 24);
            let mut v = 0u64;
            for k in 0..n {
                v = (v << 8) | *b.get(*pos + k)? as u64;
            }
            *pos += n;
            v
        }
        _ => return None,
    };
    match major {
        0 | 1 | 7 => {}
        2 | 3 => {
            out.push(head);
            *pos = pos.checked_add(arg as usize)?;
            if *pos > b.len() {
                return None;
            }
        }
        4 => {
            for _ in 0..arg {
                cbor_bstr_heads(b, pos, out, depth + 1)?;
            }
        }
        5 => {
            for _ in 0..arg.checked_mul(2)? {
                cbor_bstr_heads(b, pos, out, depth + 1)?;
            }
        }
        6 => cbor_bstr_heads(b, pos, out, depth + 1)?,
        _ => return None,
    }
    Some(())
}

/// store positions of the heads of string items inside the CBOR content boxes of databoxes
/// (children of children of a `c2pa.databoxes` store): a databox is hashed after being decoded and
/// re-encoded, and the decoder accepts a text string where a byte string is expected and vice versa
fn databox_bstr_heads(store: &[u8]) -> Vec<usize> {
    let mut out = vec![];
    let Some(root) = supers(store, 0, store.len()).into_iter().next() else { return out };
    for m in supers(store, root.3, root.0 + root.1) {
        for part in supers(store, m.3, m.0 + m.1) {
            if part.2 != "c2pa.databoxes" {
                continue;
            }
            for db in supers(store, part.3, part.0 + part.1) {
                // content boxes of the databox
                let mut off = db.3;
                while off + 8 <= db.0 + db.1 {
                    let l = u32::from_be_bytes([store[off], store[off + 1], store[off + 2], store[off + 3]]) as usize;
                    if l < 8 || off + l > db.0 + db.1 {
                        break;
                    }
                    if &store[off + 4..off + 8] == b"cbor" {
                        let body = &store[off + 8..off + l];
                        let (mut pos, mut heads) = (0usize, vec![]);
                        if cbor_bstr_heads(body, &mut pos, &mut heads, 0).is_some() && pos == body.len() {
                            out.extend(heads.into_iter().map(|h| off + 8 + h));
                        }
                    }
                    off += l;
                }
            }
        }
    }
    out
}

/// worker threads for the read-back loops (`VERIF_THREADS`); default 1: measured on the shared
/// 16-core box, 6 threads were 3x *slower* than 1 (page-fault / allocator contention)
fn threads() -> usize {
    std::env::var("VERIF_THREADS").ok().and_then(|s| s.parse().ok()).unwrap_or(1).max(1)
}

/// `f` over `items` on a few worker threads (work is handed out item by item; the result order is
/// the item order, so a run is reproducible from its seed)
fn par_map<T: Sync, R: Send>(items: &[T], f: impl Fn(&T) -> R + Sync) -> Vec<R> {
    let next = std::sync::atomic::AtomicUsize::new(0);
    let mut parts: Vec<Vec<(usize, R)>> = vec![];
    std::thread::scope(|sc| {
        let hs: Vec<_> = (0..threads().min(items.len().max(1)))
            .map(|_| {
                sc.spawn(|| {
                    let mut mine = vec![];
                    loop {
                        let i = next.fetch_add(1, std::sync::atomic::Ordering::Relaxed);
                        if i >= items.len() {
                            break;
                        }
                        mine.push((i, f(&items[i])));
                    }
                    mine
                })
            })
            .collect();
        for h in hs {
            parts.push(h.join().unwrap_or_default());
        }
    });
    let mut all: Vec<(usize, R)> = parts.into_iter().flatten().collect();
    all.sort_by_key(|x| x.0);
    all.into_iter().map(|x| x.1).collect()
}

/// Change store bytes one at a time and read back. Positions: every `stride`-th byte (random
/// phase) plus, when `focus`, every byte of the assertion stores of the ingredient manifests.
fn sweep(run: &mut Run, rng: &mut Rng, c: &Case, kind: &str, stride: usize, focus: bool) {
    let n = c.store.len();
    let mut obs = vec!['-'; n];
    let r0 = rng.below(stride as u64) as usize;
    let focus_ranges = if focus { ingredient_assertion_ranges(&c.store) } else { vec![] };
    let bstr_heads = databox_bstr_heads(&c.store);
    let pads = pad_ranges(&c.store);
    let nil_pos: Vec<usize> = pads
        .chunks(2)
        .filter_map(|pair| match pair {
            [_, (v, l)] if c.store.get(v + l) == Some(&0xf6) && c.store.get(v + l + 1).is_some_and(|b| b >> 5 == 2) => Some(v + l),
            _ => None,
        })
        .collect();
    let mut muts: Vec<(usize, u8)> = vec![];
    for p in 0..n {
        let focused = focus_ranges.iter().any(|(a, l)| *a <= p && p < a + l);
        if stride > 1 && p % stride != r0 && !focused && !nil_pos.contains(&p) {
            continue;
        }
        if focused {
            run.count(&format!("{kind}:ingredient-assertion-store-byte"));
        }
        let b = match kind {
            // the head of a databox byte string: always try the byte-string <-> text-string bit
            "flip" if bstr_heads.contains(&p) => c.store[p] ^ 0x20,
            // the nil payload of a COSE_Sign1: always try nil -> undefined
            "flip" if nil_pos.contains(&p) => c.store[p] ^ 0x01,
            "flip" => c.store[p] ^ (1 << rng.below(8)),
            _ => c.store[p].wrapping_add(rng.range(1, 255) as u8),
        };
        muts.push((p, b));
    }
    let outs = par_map(&muts, |(p, b)| {
        let mut s = c.store.clone();
        s[*p] = *b;
        outcome(&c.base, &read_with_store(&c.format, &c.asset, &s))
    });
    for ((p, _), o) in muts.iter().zip(outs) {
        obs[*p] = o;
        run.count(&format!("{kind}:{o}"));
        run.nontrivial(format!("{}:{kind}:{p}", c.name));
    }
    let pads_s = if pads.is_empty() { "-".to_string() } else { pads.iter().map(|(a, l)| format!("{a}:{l}")).collect::<Vec<_>>().join(",") };
    let heads = bstr_heads;
    let heads_s = if heads.is_empty() { "-".to_string() } else { heads.iter().map(|h| h.to_string()).collect::<Vec<_>>().join(",") };
    if !heads.is_empty() {
        run.count(&format!("databox-bstr-heads:{}", heads.len()));
    }
    let nils: Vec<String> = nil_pos.iter().map(|p| p.to_string()).collect();
    let nils_s = if nils.is_empty() { "-".to_string() } else { nils.join(",") };
    let req = format!("C02 cover store={} pads={pads_s} nils={nils_s} heads={heads_s} kind={kind} case={} obs={}", hex(&c.store), c.name, rle(&obs));
    let idx = run.case(req, "ok".into());
    for (p, o) in obs.iter().enumerate() {
        if *o == 'X' {
            let newb = muts.iter().find(|m| m.0 == p).map(|m| m.1).unwrap_or(0);
            run.fail(idx, "accepted-changed-report", format!("{} {kind} at store byte {p} ({:#04x} -> {newb:#04x}): accepted with a different report", c.name, c.store[p]));
            break;
        }
    }
    if let Some(p) = obs.iter().position(|o| *o == 'P') {
        run.fail(idx, "panic", format!("{} {kind} at store byte {p}: reader panicked", c.name));
    }
}

// ─────────────── structure-aware rewrites of the active manifest's COSE_Sign1 ───────────────

use coset::cbor::value::Value as CV;

fn cbor_ser(v: &CV) -> Vec<u8> {
    let mut o = vec![];
    coset::cbor::into_writer(v, &mut o).expect("cbor");
    o
}

fn leaf_of(kind: &[u8; 4], content: &[u8]) -> Node {
    let mut b = ((content.len() + 8) as u32).to_be_bytes().to_vec();
    b.extend_from_slice(kind);
    b.extend_from_slice(content);
    Node::Leaf(b)
}

/// the `cbor` content box of the part of `m` whose label starts with `prefix`: (part index, child index, content)
fn cbor_of_part(m: &Node, prefix: &str) -> Option<(usize, usize, Vec<u8>)> {
    let Node::Super(_, parts) = m else { return None };
    for (pi, part) in parts.iter().enumerate() {
        if !label_of(part).starts_with(prefix) {
            continue;
        }
        if let Node::Super(_, kids) = part {
            for (ci, k) in kids.iter().enumerate() {
                if let Node::Leaf(b) = k {
                    if b.len() >= 8 && &b[4..8] == b"cbor" {
                        return Some((pi, ci, b[8..].to_vec()));
                    }
                }
            }
        }
    }
    None
}

/// Re-encoded variants of the COSE_Sign1 of the active manifest (detached payload replaced by an
/// embedded one, header entries moved / duplicated, tag dropped), every enclosing JUMBF length
/// rebuilt. The signature value and (unless stated) the protected header stay as signed.
fn cose_rewrites(store: &[u8], rng: &mut Rng) -> Vec<(String, Vec<u8>)> {
    let mut out = vec![];
    let Some(top) = parse_nodes(store) else { return out };
    let [root] = top.as_slice() else { return out };
    let Node::Super(_, manifests) = root else { return out };
    let Some(active) = manifests.len().checked_sub(1) else { return out };
    let Some((spi, sci, cose)) = cbor_of_part(&manifests[active], "c2pa.signature") else { return out };
    let Some((_, _, claim)) = cbor_of_part(&manifests[active], "c2pa.claim") else { return out };
    let Ok(v) = coset::cbor::from_reader::<CV, _>(cose.as_slice()) else { return out };
    let (tagged, arr) = match v {
        CV::Tag(18, inner) => match *inner {
            CV::Array(a) => (true, a),
            _ => return out,
        },
        CV::Array(a) => (false, a),
        _ => return out,
    };
    if arr.len() != 4 {
        return out;
    }
    let mut emit = |name: &str, a: Vec<CV>, tag: bool| {
        let body = if tag { CV::Tag(18, Box::new(CV::Array(a))) } else { CV::Array(a) };
        let mut r = root.clone();
        if let Some(ms) = kids_mut(&mut r) {
            if let Some(parts) = kids_mut(&mut ms[active]) {
                if let Some(kids) = kids_mut(&mut parts[spi]) {
                    kids[sci] = leaf_of(b"cbor", &cbor_ser(&body));
                }
            }
        }
        out.push((name.to_string(), ser_node(&r)));
    };
    let with_payload = |p: CV| {
        let mut a = arr.clone();
        a[2] = p;
        a
    };
    // the payload slot
    emit("payload=claim", with_payload(CV::Bytes(claim.clone())), tagged);
    let mut other = claim.clone();
    if let Some(b) = other.last_mut() {
        *b ^= 1;
    }
    emit("payload=other", with_payload(CV::Bytes(other)), tagged);
    emit("payload=empty", with_payload(CV::Bytes(vec![])), tagged);
    emit("payload=random", with_payload(CV::Bytes(rng.bytes(32))), tagged);
    emit("payload=claim-as-text", with_payload(CV::Text(String::from_utf8_lossy(&claim).to_string())), tagged);
    emit("payload=claim:untagged", with_payload(CV::Bytes(claim.clone())), !tagged);
    emit("same:retagged", arr.clone(), !tagged);
    // header entries
    let prot: Option<Vec<(CV, CV)>> = match &arr[0] {
        CV::Bytes(b) if b.is_empty() => Some(vec![]),
        CV::Bytes(b) => match coset::cbor::from_reader::<CV, _>(b.as_slice()) {
            Ok(CV::Map(m)) => Some(m),
            _ => None,
        },
        _ => None,
    };
    if let (Some(prot), CV::Map(unprot)) = (prot, &arr[1]) {
        for with_claim in [false, true] {
            let pl = if with_claim { CV::Bytes(claim.clone()) } else { arr[2].clone() };
            let sfx = if with_claim { "+payload=claim" } else { "" };
            if let Some(first) = unprot.first() {
                // unprotected -> protected
                let (mut p2, mut u2) = (prot.clone(), unprot.clone());
                p2.push(first.clone());
                u2.remove(0);
                emit(&format!("hdr:unprot-to-prot{sfx}"), vec![CV::Bytes(cbor_ser(&CV::Map(p2))), CV::Map(u2), pl.clone(), arr[3].clone()], tagged);
                // duplicated unprotected label
                let mut u3 = unprot.clone();
                u3.push(first.clone());
                emit(&format!("hdr:dup-unprot{sfx}"), vec![arr[0].clone(), CV::Map(u3), pl.clone(), arr[3].clone()], tagged);
            }
            if let Some(firstp) = prot.first() {
                // protected -> unprotected (copy: the protected bytes stay as signed)
                let mut u4 = unprot.clone();
                u4.push(firstp.clone());
                emit(&format!("hdr:prot-copied-to-unprot{sfx}"), vec![arr[0].clone(), CV::Map(u4), pl.clone(), arr[3].clone()], tagged);
                // protected -> unprotected (move)
                let (mut p5, mut u5) = (prot.clone(), unprot.clone());
                u5.push(p5.remove(0));
                emit(&format!("hdr:prot-to-unprot{sfx}"), vec![CV::Bytes(cbor_ser(&CV::Map(p5))), CV::Map(u5), pl.clone(), arr[3].clone()], tagged);
            }
        }
    }
    out
}

/// positions (in the original store, valid in a rewrite as long as the bytes before the signature
/// box keep their place) of byte changes of the active claim and of one of its assertions
fn claim_and_assertion_flips(store: &[u8], rng: &mut Rng, titles: &[&str]) -> Vec<(String, usize, u8)> {
    let mut out = vec![];
    let Some(root) = supers(store, 0, store.len()).into_iter().next() else { return out };
    let manifests = supers(store, root.3, root.0 + root.1);
    let Some(m) = manifests.last() else { return out };
    for part in supers(store, m.3, m.0 + m.1) {
        if part.2.starts_with("c2pa.claim") {
            let pos = payload_positions(store, part.3, part.0 + part.1);
            // a letter of the title (the claim still decodes), and a few random payload bytes
            for t in titles {
                if let Some(at) = store[part.0..part.0 + part.1].windows(t.len()).position(|w| w == t.as_bytes()) {
                    out.push((format!("claim-title@{}", part.0 + at), part.0 + at, 0x01));
                }
            }
            for _ in 0..2 {
                if !pos.is_empty() {
                    let p = pos[rng.below(pos.len() as u64) as usize];
                    out.push((format!("claim@{p}"), p, 1 << rng.below(8)));
                }
            }
        } else if part.2 == "c2pa.assertions" {
            for a in supers(store, part.3, part.0 + part.1) {
                if a.2.starts_with("org.verif.") {
                    let pos = payload_positions(store, a.3, a.0 + a.1);
                    if let Some(p) = pos.last() {
                        // last payload byte: a character of the note text
                        out.push((format!("assertion:{}@{p}", a.2), p - 1, 0x01));
                    }
                    break;
                }
            }
        }
    }
    out
}

/// COSE rewrites alone and combined with a change of the claim / an assertion: read back
fn cose_level(run: &mut Run, rng: &mut Rng, c: &Case) -> Vec<(String, Vec<u8>, bool)> {
    let mut for_verify = vec![];
    let titles = ["single", "child", "grandchild", "rchild", "rgrandchild"];
    let flips = claim_and_assertion_flips(&c.store, rng, &titles);
    let mut edits: Vec<(String, Vec<u8>)> = vec![];
    for (name, rewritten) in cose_rewrites(&c.store, rng) {
        edits.push((format!("cose[{name}]"), rewritten.clone()));
        for (fname, p, mask) in &flips {
            if rewritten.get(*p) == c.store.get(*p) {
                let mut s = rewritten.clone();
                s[*p] ^= mask;
                edits.push((format!("cose[{name}]+{fname}"), s));
            }
        }
    }
    let reports = par_map(&edits, |(_, e)| read_with_store(&c.format, &c.asset, e));
    for ((name, edited), r) in edits.into_iter().zip(reports) {
        let o = outcome(&c.base, &r);
        let kind = name.split('@').next().unwrap_or("").to_string();
        run.count(&format!("{}:{o}", kind.split(':').next().unwrap_or("")));
        run.nontrivial(format!("{}:{name}", c.name));
        if o == 'X' || o == 'P' {
            let idx = run.case(format!("C02 oracle case={} edit={name}", c.name), "oracle-only".into());
            let class = if o == 'P' { "panic" } else { "cose-rewrite-accepted-changed-report" };
            run.fail(idx, class, format!("{} {name}: state {} with a different report (COSE_Sign1 of the active manifest re-encoded)", c.name, r.state));
        }
        for_verify.push((name.clone(), edited, name.contains("+claim") || name.contains("+assertion")));
    }
    for_verify
}

fn structural(run: &mut Run, c: &Case) {
    let edits = structural_edits(&c.store);
    let reports = par_map(&edits, |(_, edited)| read_with_store(&c.format, &c.asset, edited));
    for ((name, _), r) in edits.iter().zip(reports) {
        let o = outcome(&c.base, &r);
        run.count(&format!("edit:{}:{o}", name.split(':').last().unwrap_or("").trim_end_matches(|ch: char| ch.is_ascii_digit() || ch == '-')));
        run.nontrivial(format!("{}:edit:{name}", c.name));
        if o == 'X' || o == 'P' {
            let idx = run.case(format!("C02 oracle case={} edit={name}", c.name), "oracle-only".into());
            // first point where the two canonical reports differ
            let at = c.base.json.bytes().zip(r.json.bytes()).position(|(a, b)| a != b).unwrap_or(c.base.json.len().min(r.json.len()));
            let ctx = |s: &str| s.chars().skip(at.saturating_sub(60)).take(160).collect::<String>();
            let class = if o == 'P' {
                "panic".to_string()
            } else {
                // class by the kind of edit (digits stripped): e.g. edit-accepted-changed-report:assertion-swap
                format!("edit-accepted-changed-report:{}", name.split(':').last().unwrap_or("").trim_end_matches(|ch: char| ch.is_ascii_digit() || ch == '-'))
            };
            run.fail(idx, &class, format!("{} {name}: state {} with a different report; before: …{}… after: …{}…", c.name, r.state, ctx(&c.base.json), ctx(&r.json)));
        }
    }
}


// ───────────────────── function level: a real store described to layer A ─────────────────────

/// id of a digest (H-free: it stands for its preimage): the whole digest
fn h8(b: &[u8]) -> String {
    if b.is_empty() {
        "-".into()
    } else {
        hex(b)
    }
}

fn sha(b: &[u8]) -> Vec<u8> {
    Sha256::digest(b).to_vec()
}

fn proto_safe(s: &str) -> bool {
    !s.is_empty() && !s.chars().any(|c| " ~,;|^\n".contains(c))
}

/// sha(signature value) -> sha(claim bytes it was made over), taken from the untampered store:
/// the harness-side realisation of Sig-free
type Signed = std::collections::BTreeMap<Vec<u8>, Vec<u8>>;

/// identity of a signature value: protected header bytes + signature bytes of the COSE_Sign1
/// (the unprotected header — pads, time stamps — is not part of what is verified); the whole box
/// content when it does not parse
fn sig_id(signature_val: &[u8]) -> Vec<u8> {
    use coset::{CborSerializable, TaggedCborSerializable};
    let parsed = coset::CoseSign1::from_tagged_slice(signature_val).or_else(|_| coset::CoseSign1::from_slice(signature_val));
    match parsed {
        Ok(s1) => {
            let mut v = s1.protected.original_data.clone().unwrap_or_default();
            v.extend_from_slice(b"|");
            v.extend_from_slice(&s1.signature);
            sha(&v)
        }
        Err(_) => sha(signature_val),
    }
}

fn signed_map(store: &hk20::Store) -> Signed {
    store.claims().iter().map(|c| (sig_id(c.signature_val()), sha(&c.data().unwrap_or_default()))).collect()
}

/// one manifest for the model (format: see `verify` in Model/C02.lean); None = not describable
fn abs_manifest(store: &hk20::Store, c: &hk20::Claim, signed: &Signed) -> Option<String> {
    let (bh, sh) = hk19::store_manifest_box_hashes(store, c);
    let data = c.data().ok()?;
    let ings = c.ingredient_assertions();
    let mut uris = vec![];
    for hu in c.assertions() {
        let (l, i) = hk20::Claim::assertion_label_from_link(&hu.url());
        let tgt = if hu.is_relative_url() {
            "r".to_string()
        } else {
            match hk34::manifest_label_from_uri(&hu.url()) {
                Some(m) => format!("m^{m}"),
                None => "x".to_string(),
            }
        };
        if !proto_safe(&l) || !proto_safe(&tgt) {
            return None;
        }
        uris.push(format!("{tgt}~{l}~{i}~{}", h8(&hu.hash())));
    }
    let mut boxes = vec![];
    for ca in c.claim_assertion_store() {
        let l = ca.label_raw();
        if !proto_safe(&l) {
            return None;
        }
        let is_ing = ings.iter().any(|x| std::ptr::eq(*x, ca));
        let zero = hk20::assertion_data(ca.assertion()).iter().all(|b| *b == 0);
        let r = if is_ing && !zero {
            // an ingredient assertion that does not decode stops the real walk before anything is
            // compared (`Ingredient::from_assertion(..)?`): not describable to layer A
            let i = hk20::ingredient_from_assertion(ca.assertion()).ok()?;
            match i.c2pa_manifest() {
                Some(h) => {
                    let t = hk20::Store::manifest_label_from_path(&h.url());
                    if !proto_safe(&t) {
                        return None;
                    }
                    format!("0^{t}^{}^{}", h8(&h.hash()), i.signature().map(|s| h8(&s.hash())).unwrap_or("-".into()))
                }
                None => "-".into(),
            }
        } else {
            "-".into()
        };
        boxes.push(format!("{l}~{}~{}~{r}", ca.instance(), h8(ca.hash())));
    }
    let mut reds = vec![];
    for r in c.redactions().cloned().unwrap_or_default() {
        let (l, i) = hk20::Claim::assertion_label_from_link(&r);
        let m = hk34::manifest_label_from_uri(&r).unwrap_or_default();
        if !proto_safe(&r) || !proto_safe(&l) || (!m.is_empty() && !proto_safe(&m)) {
            return None;
        }
        reds.push(format!("{r}~{m}~{l}~{i}"));
    }
    let list = |v: &Vec<String>| if v.is_empty() { "-".to_string() } else { v.join(",") };
    if !proto_safe(c.label()) {
        return None;
    }
    // embedded payload of the COSE_Sign1 (`-` = nil / detached)
    let embedded = {
        let v: Option<CV> = coset::cbor::from_reader(c.signature_val().as_slice()).ok();
        let arr = match v {
            Some(CV::Tag(_, inner)) => match *inner {
                CV::Array(a) => Some(a),
                _ => None,
            },
            Some(CV::Array(a)) => Some(a),
            _ => None,
        };
        match arr.as_ref().and_then(|a| a.get(2)) {
            Some(CV::Bytes(b)) => h8(&sha(b)),
            Some(CV::Text(t)) => h8(&sha(t.as_bytes())),
            _ => "-".to_string(),
        }
    };
    Some(format!(
        "L={};V={};D={};S={};P={embedded};SH={};BH={};A={};T={};R={}",
        c.label(),
        c.version(),
        h8(&sha(&data)),
        signed.get(&sig_id(c.signature_val())).map(|d| h8(d)).unwrap_or("-".into()),
        h8(&sh),
        h8(&bh),
        list(&uris),
        list(&boxes),
        list(&reds)
    ))
}

/// the failures of the real `Store::verify_store` (no asset data, default tracker =
/// ContinueWhenPossible) in the vocabulary of layer A, sorted, without repetitions
fn impl_verify(run: &mut Run, store: &hk20::Store) -> String {
    let mut log = StatusTracker::default();
    let ctx = Context::new().with_settings(settings().as_str()).expect("settings");
    let r = hk19::verify_store(store, &mut log, &ctx);
    let mut out = std::collections::BTreeSet::new();
    for item in log.logged_items() {
        if !matches!(item.kind, LogKind::Failure) {
            continue;
        }
        let Some(code) = item.validation_status.as_deref() else { continue };
        let lab = item.label.to_string();
        let m = hk34::manifest_label_from_uri(&lab).unwrap_or_default();
        let key = || {
            let (l, i) = hk20::Claim::assertion_label_from_link(&lab);
            format!("{l}#{i}")
        };
        match code {
            "claimSignature.mismatch" => out.insert(format!("sig:{m}")),
            "assertion.hashedURI.mismatch" => out.insert(format!("mismatch:{m}/{}", key())),
            "assertion.missing" => out.insert(format!("missing:{m}/{}", key())),
            "assertion.outsideManifest" => out.insert(format!("outside:{}", key())),
            "assertion.undeclared" => out.insert(format!("undeclared:{}", key())),
            "ingredient.manifest.missing" => out.insert(format!("ing-missing:{}", hk20::Store::manifest_label_from_path(&lab))),
            "ingredient.manifest.mismatch" => out.insert(format!("ing-mismatch:{}", hk20::Store::manifest_label_from_path(&lab))),
            "ingredient.claimSignature.missing" => out.insert(format!("ing-sig-missing:{}", hk20::Store::manifest_label_from_path(&lab))),
            "ingredient.claimSignature.mismatch" => out.insert(format!("ing-sig:{}", hk20::Store::manifest_label_from_path(&lab))),
            other => {
                // outside layer A (trust, action rules, …): counted, not compared
                run.count(&format!("verify:other-code:{other}"));
                false
            }
        };
    }
    let fs: Vec<String> = out.into_iter().collect();
    // `Err` from a site outside layer A (no hard binding, an actions assertion that does not
    // decode, …) cuts the walk short at a point the model cannot know
    let own_stop = fs.iter().any(|f| f.starts_with("undeclared:") || f.starts_with("ing-sig-missing:"));
    if r.is_err() && !own_stop {
        return "foreign-stop".into();
    }
    format!("{} {}", if r.is_ok() { "ok" } else { "err" }, if fs.is_empty() { "-".to_string() } else { fs.join(",") })
}

/// positions of payload bytes of the content boxes laid out in `b[start..end]` (not box headers,
/// not the re-generated toggles byte of a `bfdb` box)
fn payload_positions(b: &[u8], start: usize, end: usize) -> Vec<usize> {
    let mut out = vec![];
    let mut off = start;
    while off + 8 <= end.min(b.len()) {
        let l = u32::from_be_bytes([b[off], b[off + 1], b[off + 2], b[off + 3]]) as usize;
        if l < 8 || off + l > end {
            break;
        }
        match &b[off + 4..off + 8] {
            b"jumb" => {}
            b"bfdb" => out.extend(off + 9..off + l),
            _ => out.extend(off + 8..off + l),
        }
        off += l;
    }
    out
}

/// (name, edited store, is the edit a change of assertion / claim payload bytes?)
fn verify_edits(rng: &mut Rng, store: &[u8], per_box: usize) -> Vec<(String, Vec<u8>, bool)> {
    let mut out = vec![("pristine".to_string(), store.to_vec(), false)];
    let Some(root) = supers(store, 0, store.len()).into_iter().next() else { return out };
    let manifests = supers(store, root.3, root.0 + root.1);
    for (mi, m) in manifests.iter().enumerate() {
        for part in supers(store, m.3, m.0 + m.1) {
            let targets: Vec<(Vec<usize>, String)> = if part.2 == "c2pa.assertions" {
                supers(store, part.3, part.0 + part.1).into_iter().map(|a| (payload_positions(store, a.3, a.0 + a.1), a.2)).collect()
            } else if part.2.starts_with("c2pa.claim") {
                vec![(payload_positions(store, part.3, part.0 + part.1), part.2.clone())]
            } else {
                vec![]
            };
            for (positions, label) in targets {
                if positions.is_empty() {
                    continue;
                }
                for _ in 0..per_box {
                    let p = positions[rng.below(positions.len() as u64) as usize];
                    let mut s = store.to_vec();
                    s[p] ^= 1 << rng.below(8);
                    out.push((format!("m{mi}:{label}:flip@{p}"), s, true));
                }
            }
        }
    }
    // a zero byte of a pad value of every signature box: the signature value still verifies, the
    // re-built signature box (claimSignature hash of a referencing ingredient) changes
    for pair in pad_ranges(store).chunks(2) {
        if let [_, (v, l)] = pair {
            if *l >= 4 {
                let p = v + 3 + rng.below((*l - 3) as u64) as usize;
                let mi = manifests.iter().position(|m| m.0 <= p && p < m.0 + m.1).unwrap_or(0);
                let mut s = store.to_vec();
                s[p] ^= 1 << rng.below(8);
                out.push((format!("m{mi}:c2pa.signature:padflip@{p}"), s, false));
            }
        }
    }
    for (name, edited) in structural_edits(store) {
        out.push((name, edited, false));
    }
    out
}

fn verify_level(run: &mut Run, rng: &mut Rng, c: &Case, per_box: usize, extra: Vec<(String, Vec<u8>, bool)>) {
    let ctx = Context::new().with_settings(settings().as_str()).expect("settings");
    let load = |b: &[u8]| {
        let (b, ctx) = (b.to_vec(), &ctx);
        guarded(std::panic::AssertUnwindSafe(move || {
            let mut log = StatusTracker::default();
            hk19::store_from_jumbf(&b, &mut log, ctx)
        }))
    };
    let Ok(Ok(pristine)) = load(&c.store) else {
        run.obligations.insert(format!("verify:pristine-store-loads:{}", c.name), false);
        return;
    };
    let signed = signed_map(&pristine);
    let mut all_edits = verify_edits(rng, &c.store, per_box);
    all_edits.extend(extra);
    for (name, edited, payload_change) in all_edits {
        let kind = name.split(':').last().unwrap_or("").split('@').next().unwrap_or("").trim_end_matches(|ch: char| ch.is_ascii_digit() || ch == '-').to_string();
        let st = match load(&edited) {
            Ok(Ok(st)) => st,
            Ok(Err(_)) => {
                run.count(&format!("verify:{kind}:load-error"));
                continue;
            }
            Err(p) => {
                let idx = run.case(format!("C02 oracle case={} verify-edit={name}", c.name), "oracle-only".into());
                run.fail(idx, "panic", format!("{} {name}: loading the store panicked: {p}", c.name));
                continue;
            }
        };
        let abs: Option<Vec<String>> = st.claims().iter().map(|cl| abs_manifest(&st, cl, &signed)).collect();
        let Some(abs) = abs else {
            run.count(&format!("verify:{kind}:not-describable"));
            continue;
        };
        let reply = match guarded(std::panic::AssertUnwindSafe(|| impl_verify(run, &st))) {
            Ok(r) => r,
            Err(p) => {
                let idx = run.case(format!("C02 oracle case={} verify-edit={name}", c.name), "oracle-only".into());
                run.fail(idx, "panic", format!("{} {name}: verify_store panicked: {p}", c.name));
                continue;
            }
        };
        if reply == "foreign-stop" {
            // detected (verify_store returned Err), but not comparable with layer A
            run.count(&format!("verify:{kind}:foreign-stop"));
            continue;
        }
        run.count(&format!("verify:{kind}:{}", if reply == "ok -" { "clean" } else { "failures" }));
        run.nontrivial(format!("{}:verify:{name}", c.name));
        let idx = run.case(format!("C02 verify case={} edit={name} store={}", c.name, abs.join("|")), reply.clone());
        // oracle on the implementation: changed claim / assertion payload bytes of a store that
        // still loads must leave a failure in the log of verify_store
        // (the content of an assertion box that a later manifest redacted is compared with nothing)
        let redacted_target = st.claims().iter().any(|cl| {
            cl.redactions().map(|rs| rs.iter().any(|r| name.split(':').nth(1).is_some_and(|l| r.ends_with(&format!("/c2pa.assertions/{l}"))))).unwrap_or(false)
        });
        if payload_change && !redacted_target && reply == "ok -" {
            run.fail(idx, "verify-accepted-changed-payload", format!("{} {name}: verify_store logged no failure for changed payload bytes", c.name));
        }
        if name == "pristine" {
            run.obligations.insert(format!("verify:pristine-store-clean:{}", c.name), reply == "ok -");
        }
    }
}

/// embedded path (container framing in the way): oracle only
fn embedded_sweep(run: &mut Run, rng: &mut Rng, name: &str, format: &str, asset: &[u8], samples: usize) {
    let base = read_embedded(format, asset);
    if !base.accepted() {
        run.count(&format!("baseline-not-valid:{name}"));
        return;
    }
    let Some(store) = store_of(format, asset) else { return };
    // positions of store bytes inside the asset: match 16-byte windows of the store
    let mut pos = vec![];
    let mut i = 0;
    while i + 16 <= store.len() {
        if let Some(at) = asset.windows(16).position(|w| w == &store[i..i + 16]) {
            pos.push(at + rng.below(16) as usize);
        }
        i += (store.len() / samples.max(1)).max(16);
    }
    for p in pos {
        let mut a = asset.to_vec();
        a[p] ^= 1 << rng.below(8);
        let r = read_embedded(format, &a);
        let o = outcome(&base, &r);
        run.count(&format!("embedded:{name}:{o}"));
        run.nontrivial(format!("{name}:embedded:{p}"));
        if o == 'X' || o == 'P' {
            let idx = run.case(format!("C02 oracle case={name} embedded-flip={p}"), "oracle-only".into());
            run.fail(idx, if o == 'X' { "accepted-changed-report" } else { "panic" }, format!("{name} embedded flip at asset byte {p}"));
        }
    }
}

fn run(run: &mut Run, rng: &mut Rng) {
    run.rule = "non-trivial: a store byte was changed or the box structure edited and the asset read back (distinct by store, position / edit, mutation kind)".to_string();
    let thorough = run.thorough();
    let cases = build_cases(run, rng);
    let names: Vec<&str> = cases.iter().map(|c| c.name.as_str()).collect();
    run.obligations.insert(
        "stores:single+chain2+chain3+redact2+redact3+fixture-databoxes".into(),
        names == ["single:png", "chain2:png", "chain3:png", "redact2:png", "redact3:png", "fixture-databoxes:jpg"],
    );
    for c in &cases {
        // quick: every byte of the single store, of the assertion stores of the ingredient
        // manifests of the depth-2 chains and of the fixture, of every databox / credential store
        // (flip), a sample of the rest; thorough: every byte (flip), every / every 3rd byte (set)
        let (flip, set) = match (thorough, c.name.as_str()) {
            (true, "single:png") | (true, "chain2:png") | (true, "redact2:png") => (1, 1),
            (true, _) => (1, 3),
            (false, "single:png") => (1, 3),
            (false, "chain2:png") | (false, "redact2:png") => (6, 16),
            (false, "fixture-databoxes:jpg") => (12, 40),
            (false, _) => (12, 30),
        };
        let depth2 = c.name.starts_with("chain2") || c.name.starts_with("redact2") || c.name.starts_with("fixture");
        sweep(run, rng, c, "flip", flip, thorough || depth2);
        sweep(run, rng, c, "set", set, thorough);
        structural(run, c);
        let cose = cose_level(run, rng, c);
        verify_level(run, rng, c, if thorough { 12 } else { 3 }, cose);
    }
    // embedded variants: JPEG (APP11 segments) and MP4 (uuid box), no container checksums
    let jpg = ec::gen_asset(Family::Jpeg, rng, None);
    if let Ok(a) = sign("jpg", &jpg.bytes, "embedded-jpg", &[]) {
        embedded_sweep(run, rng, "embedded:jpg", "jpg", &a, if thorough { 1500 } else { 150 });
    }
    let mp4 = ec::gen_asset(Family::Bmff, rng, None);
    if let Ok(a) = sign(mp4.fmt, &mp4.bytes, "embedded-mp4", &[]) {
        embedded_sweep(run, rng, "embedded:mp4", mp4.fmt, &a, if thorough { 1500 } else { 150 });
    }
}
