//! C02 — tamper evidence of the manifest store.
//!
//! One model request per (store, mutation kind):
//!   C02 cover store=<hex> active=<label hex> pads=<s:l,…|-> kind=<flip|set|…> obs=<a-b:o,…>
//! `obs` is the run-length encoded list of what the implementation did when byte `p` of the store
//! was changed: `d` detected (read error or state Invalid), `u` accepted with the report unchanged,
//! `X` accepted with a different report. The model (lean/C2paModel/Model/C02.lean) parses the
//! store with the C18 JUMBF model, assigns every byte its coverage class and answers `ok` when
//! every observation is allowed for its class (`d` for covered classes; `d` or `u` for the
//! enumerated uncovered classes), else the list of offending segments. The implementation reply
//! is the constant `ok`.
//!   C02 verify …  function-level requests for the abstract coverage structure (see model).
//!
//! Implementation-level oracle (independent of the model): a change of a store byte, a box
//! reorder / duplication / label edit either gives an error / Invalid, or the report (minus the
//! validation time) is byte-identical to the untampered one.

use std::io::Cursor;

use c2pa::{Builder, Context, EphemeralSigner, Reader};
use vh::common::{canon_json, fixtures, guarded, hex, main_with, Rng, Run};
use vh::embed_common::{self as ec, Family};

fn main() {
    main_with("C02", run);
}

fn settings() -> String {
    serde_json::json!({
        "verify": {"remote_manifest_fetch": false, "ocsp_fetch": false},
        "builder": {"thumbnail": {"enabled": false}}
    })
    .to_string()
}

fn definition(format: &str, title: &str, created: bool) -> String {
    let mut v = serde_json::json!({
        "title": title,
        "format": format,
        "claim_generator_info": [{"name": "verif-harness", "version": "0.1"}],
        "assertions": []
    });
    if created {
        v["assertions"] = serde_json::json!([
            {"label": "c2pa.actions", "data": {"actions": [{"action": "c2pa.created", "digitalSourceType": "http://cv.iptc.org/newscodes/digitalsourcetype/digitalCapture"}]}},
            {"label": "org.verif.note", "data": {"text": "hello store"}}
        ]);
    }
    v.to_string()
}

/// (relationship, format, signed ingredient bytes)
type Ing = (&'static str, String, Vec<u8>);

fn sign(format: &str, src: &[u8], title: &str, ingredients: &[Ing]) -> Result<Vec<u8>, String> {
    let (f, s, t, ings) = (format.to_string(), src.to_vec(), title.to_string(), ingredients.to_vec());
    let r = guarded(move || -> c2pa::Result<Vec<u8>> {
        let signer = EphemeralSigner::new("verif.test")?;
        let ctx = Context::new().with_settings(settings().as_str())?.with_signer(signer);
        let has_parent = ings.iter().any(|i| i.0 == "parentOf");
        let mut builder = Builder::from_context(ctx).with_definition(definition(&f, &t, !has_parent).as_str())?;
        if has_parent {
            builder.set_intent(c2pa::BuilderIntent::Edit);
        }
        for (k, (rel, ifmt, bytes)) in ings.iter().enumerate() {
            let j = serde_json::json!({"title": format!("ing{k}"), "relationship": rel}).to_string();
            builder.add_ingredient_from_stream(j, ifmt, &mut Cursor::new(bytes.clone()))?;
        }
        let mut input = Cursor::new(s);
        let mut output = Cursor::new(Vec::new());
        builder.save_to_stream(&f, &mut input, &mut output)?;
        Ok(output.into_inner())
    });
    match r {
        Ok(Ok(v)) => Ok(v),
        Ok(Err(e)) => Err(format!("{e:?}")),
        Err(p) => Err(format!("PANIC {p}")),
    }
}

#[derive(Clone, Debug, PartialEq)]
struct Report {
    state: String,
    failure: Vec<String>,
    json: String,
    active: String,
}

impl Report {
    fn accepted(&self) -> bool {
        self.state == "Valid" || self.state == "Trusted"
    }
}

/// Read `asset` with the manifest store given separately (no container framing in the way).
fn read_with_store(format: &str, asset: &[u8], store: &[u8]) -> Report {
    let (f, a, s) = (format.to_string(), asset.to_vec(), store.to_vec());
    let r = guarded(move || {
        let ctx = Context::new().with_settings(settings().as_str()).expect("settings");
        Reader::from_context(ctx).with_manifest_data_and_stream(&s, &f, Cursor::new(a))
    });
    report_of(r)
}

fn read_embedded(format: &str, asset: &[u8]) -> Report {
    let (f, a) = (format.to_string(), asset.to_vec());
    let r = guarded(move || {
        let ctx = Context::new().with_settings(settings().as_str()).expect("settings");
        Reader::from_context(ctx).with_stream(&f, Cursor::new(a))
    });
    report_of(r)
}

fn report_of(r: Result<c2pa::Result<Reader>, String>) -> Report {
    match r {
        Err(p) => Report { state: format!("Err:PANIC {p}"), failure: vec![], json: String::new(), active: String::new() },
        Ok(Err(e)) => {
            let d = format!("{e:?}");
            let cls: String = d.chars().take_while(|c| c.is_ascii_alphanumeric()).collect();
            Report { state: format!("Err:{cls}"), failure: vec![], json: String::new(), active: String::new() }
        }
        Ok(Ok(reader)) => {
            let mut v: serde_json::Value = serde_json::from_str(&reader.json()).unwrap_or(serde_json::Value::Null);
            if let Some(o) = v.as_object_mut() {
                if let Some(vr) = o.get_mut("validation_results").and_then(|x| x.as_object_mut()) {
                    vr.remove("validationTime");
                }
            }
            let failure = reader
                .validation_results()
                .and_then(|r| r.active_manifest())
                .map(|a| a.failure().iter().map(|s| s.code().to_string()).collect())
                .unwrap_or_default();
            Report {
                state: format!("{:?}", reader.validation_state()),
                failure,
                json: canon_json(&v),
                active: reader.active_label().unwrap_or("").to_string(),
            }
        }
    }
}

fn outcome(base: &Report, r: &Report) -> char {
    if r.state.contains("PANIC") {
        'P'
    } else if !r.accepted() {
        'd'
    } else if r.json == base.json {
        'u'
    } else {
        'X'
    }
}

fn rle(obs: &[char]) -> String {
    let mut out = vec![];
    let mut i = 0;
    while i < obs.len() {
        let mut j = i;
        while j + 1 < obs.len() && obs[j + 1] == obs[i] {
            j += 1;
        }
        out.push(format!("{i}-{j}:{}", obs[i]));
        i = j + 1;
    }
    out.join(",")
}

struct Case {
    name: String,
    format: String,
    asset: Vec<u8>,
    store: Vec<u8>,
    base: Report,
}

fn store_of(format: &str, asset: &[u8]) -> Option<Vec<u8>> {
    let (f, b) = (format.to_string(), asset.to_vec());
    guarded(move || c2pa::jumbf_io::load_jumbf_from_stream(&f, &mut Cursor::new(b)).ok()).ok().flatten()
}

fn prepare(run: &mut Run, name: &str, format: &str, asset: Vec<u8>) -> Option<Case> {
    let store = store_of(format, &asset)?;
    let base = read_with_store(format, &asset, &store);
    let emb = read_embedded(format, &asset);
    if !base.accepted() {
        run.notes.push(format!("baseline {name}: {} {:?}", base.state, base.failure));
        run.count(&format!("baseline-not-valid:{name}"));
        return None;
    }
    run.obligations.insert(format!("detached-store-report-equals-embedded:{name}"), emb.json == base.json);
    run.count(&format!("store:{name}"));
    Some(Case { name: name.to_string(), format: format.to_string(), asset, store, base })
}

fn build_cases(run: &mut Run, rng: &mut Rng) -> Vec<Case> {
    let mut cases = vec![];
    let png = ec::gen_asset(Family::Png, rng, None);
    let jpg = ec::gen_asset(Family::Jpeg, rng, None);
    let fpng = std::fs::read(fixtures().join("libpng-test.png")).unwrap_or_default();
    // single manifest
    let Ok(single) = sign("png", &png.bytes, "single", &[]) else {
        run.notes.push("sign single failed".into());
        return cases;
    };
    if let Some(c) = prepare(run, "single:png", "png", single.clone()) {
        cases.push(c);
    }
    // parent + component chain: A (single), B = edit of A with component C
    let comp = sign("jpg", &jpg.bytes, "component", &[]).unwrap_or_default();
    match sign("png", &fpng, "child", &[("parentOf", "png".into(), single.clone()), ("componentOf", "jpg".into(), comp.clone())]) {
        Ok(child) => {
            if let Some(c) = prepare(run, "chain2:png", "image/png", child.clone()) {
                cases.push(c);
            }
            // grand child: parent chain of depth 2
            match sign("png", &png.bytes, "grandchild", &[("parentOf", "image/png".into(), child)]) {
                Ok(g) => {
                    if let Some(c) = prepare(run, "chain3:png", "png", g) {
                        cases.push(c);
                    }
                }
                Err(e) => run.notes.push(format!("sign grandchild failed: {e}")),
            }
        }
        Err(e) => run.notes.push(format!("sign child failed: {e}")),
    }
    cases
}


// ───────────────────────── a minimal JUMBF tree for structural edits ─────────────────────────

#[derive(Clone, Debug)]
enum Node {
    /// jumb: description box bytes (whole jumd box) + children
    Super(Vec<u8>, Vec<Node>),
    /// any other box, raw (header included)
    Leaf(Vec<u8>),
}

fn parse_nodes(b: &[u8]) -> Option<Vec<Node>> {
    let mut out = vec![];
    let mut off = 0usize;
    while off + 8 <= b.len() {
        let l = u32::from_be_bytes(b[off..off + 4].try_into().ok()?) as usize;
        if l < 8 || off + l > b.len() {
            return None;
        }
        if &b[off + 4..off + 8] == b"jumb" {
            let dl = u32::from_be_bytes(b[off + 8..off + 12].try_into().ok()?) as usize;
            if &b[off + 12..off + 16] != b"jumd" || 8 + dl > l {
                return None;
            }
            let desc = b[off + 8..off + 8 + dl].to_vec();
            let kids = parse_nodes(&b[off + 8 + dl..off + l])?;
            out.push(Node::Super(desc, kids));
        } else {
            out.push(Node::Leaf(b[off..off + l].to_vec()));
        }
        off += l;
    }
    if off == b.len() {
        Some(out)
    } else {
        None
    }
}

fn ser_node(n: &Node) -> Vec<u8> {
    match n {
        Node::Leaf(b) => b.clone(),
        Node::Super(desc, kids) => {
            let mut body = desc.clone();
            for k in kids {
                body.extend(ser_node(k));
            }
            let mut out = ((body.len() + 8) as u32).to_be_bytes().to_vec();
            out.extend_from_slice(b"jumb");
            out.extend(body);
            out
        }
    }
}

fn label_of(n: &Node) -> String {
    match n {
        Node::Super(desc, _) if desc.len() > 25 => String::from_utf8_lossy(desc[25..].split(|b| *b == 0).next().unwrap_or(&[])).to_string(),
        _ => String::new(),
    }
}

fn kids_mut(n: &mut Node) -> Option<&mut Vec<Node>> {
    match n {
        Node::Super(_, k) => Some(k),
        _ => None,
    }
}

fn set_label(n: &mut Node, new: &str) {
    if let Node::Super(desc, _) = n {
        let old_len = desc[25..].iter().position(|b| *b == 0).unwrap_or(0);
        let mut d = desc[..25].to_vec();
        d.extend_from_slice(new.as_bytes());
        d.extend_from_slice(&desc[25 + old_len..]);
        let l = d.len() as u32;
        d[0..4].copy_from_slice(&l.to_be_bytes());
        *desc = d;
    }
}

/// Structural edits of a store; each returns (name, edited store bytes).
fn structural_edits(store: &[u8]) -> Vec<(String, Vec<u8>)> {
    let mut out = vec![];
    let Some(top) = parse_nodes(store) else { return out };
    if top.len() != 1 {
        return out;
    }
    let root = top[0].clone();
    let n_manifests = match &root {
        Node::Super(_, k) => k.len(),
        _ => 0,
    };
    if n_manifests == 0 {
        return out;
    }
    let active = n_manifests - 1;
    let mut emit = |name: String, r: &Node| out.push((name, ser_node(r)));
    // manifests: swap, duplicate, drop, rotate
    if n_manifests >= 2 {
        let mut r = root.clone();
        kids_mut(&mut r).unwrap().swap(0, active);
        emit("manifest-swap-first-active".into(), &r);
        let mut r = root.clone();
        kids_mut(&mut r).unwrap().swap(0, 1);
        emit("manifest-swap-0-1".into(), &r);
        let mut r = root.clone();
        kids_mut(&mut r).unwrap().remove(0);
        emit("manifest-drop-ingredient".into(), &r);
        let mut r = root.clone();
        let k = kids_mut(&mut r).unwrap();
        let m = k[0].clone();
        k.push(m);
        emit("manifest-dup-ingredient-last".into(), &r);
    }
    {
        let mut r = root.clone();
        let k = kids_mut(&mut r).unwrap();
        let m = k[active].clone();
        k.insert(0, m);
        emit("manifest-dup-active-first".into(), &r);
        let mut r = root.clone();
        let k = kids_mut(&mut r).unwrap();
        let m = k[active].clone();
        k.push(m);
        emit("manifest-dup-active-last".into(), &r);
    }
    // inside every manifest: reorder / duplicate / drop / rename the boxes and the assertions
    for mi in 0..n_manifests {
        let which = if mi == active { "active".to_string() } else { format!("ing{mi}") };
        let m0 = match &root {
            Node::Super(_, k) => k[mi].clone(),
            _ => continue,
        };
        let parts = match &m0 {
            Node::Super(_, k) => k.len(),
            _ => 0,
        };
        let mut with_manifest = |name: String, m: Node, out_emit: &mut dyn FnMut(String, &Node)| {
            let mut r = root.clone();
            kids_mut(&mut r).unwrap()[mi] = m;
            out_emit(name, &r);
        };
        for a in 0..parts {
            for b in a + 1..parts {
                let mut m = m0.clone();
                kids_mut(&mut m).unwrap().swap(a, b);
                with_manifest(format!("{which}:swap-parts-{a}-{b}"), m, &mut emit);
            }
            let mut m = m0.clone();
            let k = kids_mut(&mut m).unwrap();
            let c = k[a].clone();
            k.push(c);
            with_manifest(format!("{which}:dup-part-{a}"), m, &mut emit);
            let mut m = m0.clone();
            kids_mut(&mut m).unwrap().remove(a);
            with_manifest(format!("{which}:drop-part-{a}"), m, &mut emit);
        }
        // assertion store = the part labelled c2pa.assertions
        let Some(ai) = (match &m0 {
            Node::Super(_, k) => k.iter().position(|n| label_of(n) == "c2pa.assertions"),
            _ => None,
        }) else {
            continue;
        };
        let store0 = match &m0 {
            Node::Super(_, k) => k[ai].clone(),
            _ => continue,
        };
        let na = match &store0 {
            Node::Super(_, k) => k.len(),
            _ => 0,
        };
        let mut with_assertions = |name: String, st: Node, out_emit: &mut dyn FnMut(String, &Node)| {
            let mut m = m0.clone();
            kids_mut(&mut m).unwrap()[ai] = st;
            let mut r = root.clone();
            kids_mut(&mut r).unwrap()[mi] = m;
            out_emit(name, &r);
        };
        for a in 0..na {
            if a + 1 < na {
                let mut st = store0.clone();
                kids_mut(&mut st).unwrap().swap(a, a + 1);
                with_assertions(format!("{which}:assertion-swap-{a}"), st, &mut emit);
            }
            let mut st = store0.clone();
            let k = kids_mut(&mut st).unwrap();
            let c = k[a].clone();
            k.push(c);
            with_assertions(format!("{which}:assertion-dup-{a}"), st, &mut emit);
            let mut st = store0.clone();
            kids_mut(&mut st).unwrap().remove(a);
            with_assertions(format!("{which}:assertion-drop-{a}"), st, &mut emit);
            // an undeclared copy under a new label, and a relabel
            let mut st = store0.clone();
            let k = kids_mut(&mut st).unwrap();
            let mut c = k[a].clone();
            let l = label_of(&c);
            set_label(&mut c, &format!("{l}.x"));
            k.push(c);
            with_assertions(format!("{which}:assertion-add-undeclared-{a}"), st, &mut emit);
            let mut st = store0.clone();
            let k = kids_mut(&mut st).unwrap();
            set_label(&mut k[a], &format!("{l}__9"));
            with_assertions(format!("{which}:assertion-relabel-{a}"), st, &mut emit);
        }
    }
    out
}

/// `pad` / `pad2` entries of COSE unprotected headers: (offset, length) of the key text and of
/// the byte-string value (head + bytes), anywhere in the store (the model only honours the active manifest).
fn pad_ranges(store: &[u8]) -> Vec<(usize, usize)> {
    let mut out = vec![];
    for (key, klen) in [(&b"\x63pad"[..], 3usize), (&b"\x64pad2"[..], 4usize)] {
        let mut i = 0;
        while i + key.len() + 1 < store.len() {
            if &store[i..i + key.len()] == key {
                let v = i + key.len();
                let (hdr, len) = match store[v] {
                    b @ 0x40..=0x57 => (1usize, (b - 0x40) as usize),
                    0x58 => (2, store.get(v + 1).copied().unwrap_or(0) as usize),
                    0x59 => (3, u16::from_be_bytes([store.get(v + 1).copied().unwrap_or(0), store.get(v + 2).copied().unwrap_or(0)]) as usize),
                    _ => (0, 0),
                };
                if hdr > 0 && v + hdr + len <= store.len() && store[v + hdr..v + hdr + len].iter().all(|b| *b == 0) {
                    // key text, then the value: its CBOR head (a change of the major type from
                    // byte string to text string keeps the entry well-formed) and its zero bytes
                    out.push((i + 1, klen));
                    out.push((v, hdr + len));
                }
            }
            i += 1;
        }
    }
    out
}

fn sweep(run: &mut Run, rng: &mut Rng, c: &Case, kind: &str, stride: usize) {
    let n = c.store.len();
    let mut obs = vec!['-'; n];
    let r0 = rng.below(stride as u64) as usize;
    for p in 0..n {
        if stride > 1 && p % stride != r0 {
            continue;
        }
        let mut s = c.store.clone();
        match kind {
            "flip" => s[p] ^= 1 << rng.below(8),
            _ => s[p] = s[p].wrapping_add(rng.range(1, 255) as u8),
        }
        let r = read_with_store(&c.format, &c.asset, &s);
        let o = outcome(&c.base, &r);
        obs[p] = o;
        run.count(&format!("{kind}:{o}"));
        run.nontrivial(format!("{}:{kind}:{p}", c.name));
    }
    let pads = pad_ranges(&c.store);
    let pads_s = if pads.is_empty() { "-".to_string() } else { pads.iter().map(|(a, l)| format!("{a}:{l}")).collect::<Vec<_>>().join(",") };
    let req = format!("C02 cover store={} pads={pads_s} kind={kind} case={} obs={}", hex(&c.store), c.name, rle(&obs));
    let idx = run.case(req, "ok".into());
    for (p, o) in obs.iter().enumerate() {
        if *o == 'X' {
            run.fail(idx, "accepted-changed-report", format!("{} {kind} at store byte {p}: accepted with a different report", c.name));
            break;
        }
    }
    if let Some(p) = obs.iter().position(|o| *o == 'P') {
        run.fail(idx, "panic", format!("{} {kind} at store byte {p}: reader panicked", c.name));
    }
}

fn structural(run: &mut Run, c: &Case) {
    for (name, edited) in structural_edits(&c.store) {
        let r = read_with_store(&c.format, &c.asset, &edited);
        let o = outcome(&c.base, &r);
        run.count(&format!("edit:{}:{o}", name.split(':').last().unwrap_or("").trim_end_matches(|ch: char| ch.is_ascii_digit() || ch == '-')));
        run.nontrivial(format!("{}:edit:{name}", c.name));
        if o == 'X' || o == 'P' {
            let idx = run.case(format!("C02 oracle case={} edit={name}", c.name), "oracle-only".into());
            // first point where the two canonical reports differ
            let at = c.base.json.bytes().zip(r.json.bytes()).position(|(a, b)| a != b).unwrap_or(c.base.json.len().min(r.json.len()));
            let ctx = |s: &str| s.chars().skip(at.saturating_sub(60)).take(160).collect::<String>();
            let class = if o == 'P' {
                "panic".to_string()
            } else {
                // class by the kind of edit (digits stripped): e.g. edit-accepted-changed-report:assertion-swap
                format!("edit-accepted-changed-report:{}", name.split(':').last().unwrap_or("").trim_end_matches(|ch: char| ch.is_ascii_digit() || ch == '-'))
            };
            run.fail(idx, &class, format!("{} {name}: state {} with a different report; before: …{}… after: …{}…", c.name, r.state, ctx(&c.base.json), ctx(&r.json)));
        }
    }
}

/// embedded path (container framing in the way): oracle only
fn embedded_sweep(run: &mut Run, rng: &mut Rng, name: &str, format: &str, asset: &[u8], samples: usize) {
    let base = read_embedded(format, asset);
    if !base.accepted() {
        run.count(&format!("baseline-not-valid:{name}"));
        return;
    }
    let Some(store) = store_of(format, asset) else { return };
    // positions of store bytes inside the asset: match 16-byte windows of the store
    let mut pos = vec![];
    let mut i = 0;
    while i + 16 <= store.len() {
        if let Some(at) = asset.windows(16).position(|w| w == &store[i..i + 16]) {
            pos.push(at + rng.below(16) as usize);
        }
        i += (store.len() / samples.max(1)).max(16);
    }
    for p in pos {
        let mut a = asset.to_vec();
        a[p] ^= 1 << rng.below(8);
        let r = read_embedded(format, &a);
        let o = outcome(&base, &r);
        run.count(&format!("embedded:{name}:{o}"));
        run.nontrivial(format!("{name}:embedded:{p}"));
        if o == 'X' || o == 'P' {
            let idx = run.case(format!("C02 oracle case={name} embedded-flip={p}"), "oracle-only".into());
            run.fail(idx, if o == 'X' { "accepted-changed-report" } else { "panic" }, format!("{name} embedded flip at asset byte {p}"));
        }
    }
}

fn run(run: &mut Run, rng: &mut Rng) {
    run.rule = "non-trivial: a store byte was changed or the box structure edited and the asset read back (distinct by store, position / edit, mutation kind)".to_string();
    let thorough = run.thorough();
    let cases = build_cases(run, rng);
    run.obligations.insert("stores:single+chain2+chain3".into(), cases.len() == 3);
    for c in &cases {
        let big = c.store.len() > 5000;
        sweep(run, rng, c, "flip", if thorough || !big { 1 } else { 4 });
        sweep(run, rng, c, "set", if thorough { 1 } else if big { 9 } else { 2 });
        structural(run, c);
    }
    // embedded variants: JPEG (APP11 segments) and MP4 (uuid box), no container checksums
    let jpg = ec::gen_asset(Family::Jpeg, rng, None);
    if let Ok(a) = sign("jpg", &jpg.bytes, "embedded-jpg", &[]) {
        embedded_sweep(run, rng, "embedded:jpg", "jpg", &a, if thorough { 1500 } else { 150 });
    }
    let mp4 = ec::gen_asset(Family::Bmff, rng, None);
    if let Ok(a) = sign(mp4.fmt, &mp4.bytes, "embedded-mp4", &[]) {
        embedded_sweep(run, rng, "embedded:mp4", mp4.fmt, &a, if thorough { 1500 } else { 150 });
    }
}
