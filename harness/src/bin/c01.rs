//! C01 — tamper evidence of the asset content.
//!
//! Model-level requests (lean/C2paModel/Model/C01.lean), all H-free (`pre` = preimage of the
//! signed digest; the implementation gets `sha(pre)`):
//!   C01 dh   data=<hex> [mut=<op>] excl=<s:l:-,…|none|-> pre=<hex> alg=<a|-> calg=<a|-> url=<0|1>
//!            upd=<0|1> range=<s:l|-> buf=<n>   -> <verdict>[+extra]/<logged code>/<success|failure> | fatal | panic
//!            (`Claim::verify_hash_binding`, data-hash arm incl. the update-manifest re-basing; the
//!            reply carries the status code that was really logged)
//!   C01 bhv  (fields of `bh`) handler=<0|1>  -> same reply shape (`verify_hash_binding`, box-hash arm,
//!            through both the `Bytes` and the `Stream` variant of `ClaimAssetData`)
//!   C01 bmffv (fields of `bmff`) self=<ok|malformed>  -> same reply shape (BMFF arm)
//!   C01 bmx  data=<hex> start=<n> maps=<off:hex,…>  -> match | nomatch | err
//!            (data constraint of a BMFF exclusion entry as `bmff_to_jumbf_exclusions` evaluates it)
//!   C01 bh   data=<hex> [mut=<op>] src=<names:start:len;…|err|-> boxes=<names:alg:pre:excl;…>
//!            calg=<a|-> buf=<n>                                -> ok | err:<class>
//!            (`BoxHash::verify_stream_hash` with the given handler box map)
//!   C01 bmff data=<hex> [mut=<op>] excl=<s:l:off,…|err> pre=<hex> alg=<a> buf=<n> -> ok | err:<class>
//!            (file-level BMFF hash with the exclusions resolved on the asset being validated)
//! `mut` is applied by the model to `data` (flip:pos:mask, set:pos:val, ins:pos:hex, del:pos:n,
//! app:hex, trunc:n); the harness applies the same operation in Rust for the implementation.
//!
//! Implementation-level oracle (independent of the model): every writable format × binding kind
//! is signed; each mutation of the signed bytes is read back; `Valid`/`Trusted` is only allowed
//! when the mutation is confined to bytes the signed hard binding declares excluded and the
//! report is unchanged.

use std::io::Cursor;

use c2pa::{
    assertions::{BmffHash, BoxHash, BoxMap, DataHash},
    status_tracker::{LogKind, StatusTracker},
    verif_hooks::c01 as hook,
    Builder, Context, EphemeralSigner, HashRange, Reader,
};
use hook::AssertionBase;
use serde_bytes::ByteBuf;
use sha2::{Digest, Sha256, Sha384, Sha512};
use vh::common::{canon_json, fixtures, guarded, hex, main_with, Rng, Run};
use vh::embed_common::{self as ec, Family};
use vh::sign::unsigned_sources;

fn main() {
    main_with("C01", run);
}

// ───────────────────────── signing / reading ─────────────────────────

#[derive(Clone, Copy, PartialEq, Eq, Debug)]
enum Binding {
    Data,
    Box,
    Bmff,
    Sidecar,
    /// data hash, then an update manifest appended to the store (exclusions re-based on read)
    Update,
}

impl Binding {
    fn tag(self) -> &'static str {
        match self {
            Binding::Data => "data",
            Binding::Box => "box",
            Binding::Bmff => "bmff",
            Binding::Sidecar => "sidecar",
            Binding::Update => "update",
        }
    }
}

fn settings(compress: bool) -> String {
    serde_json::json!({
        "verify": {"remote_manifest_fetch": false, "ocsp_fetch": false},
        "builder": {"thumbnail": {"enabled": false}},
        "core": {"prefer_compress_manifests": compress}
    })
    .to_string()
}

fn definition(format: &str) -> String {
    serde_json::json!({
        "title": "verif asset",
        "format": format,
        "claim_generator_info": [{"name": "verif-harness", "version": "0.1"}],
        "assertions": [
            {"label": "c2pa.actions", "data": {"actions": [{"action": "c2pa.created", "digitalSourceType": "http://cv.iptc.org/newscodes/digitalsourcetype/digitalCapture"}]}}
        ]
    })
    .to_string()
}

/// Signed asset bytes (+ the detached manifest for `Sidecar`).
fn sign(format: &str, src: &[u8], binding: Binding) -> Result<(Vec<u8>, Option<Vec<u8>>), String> {
    let (f, s) = (format.to_string(), src.to_vec());
    let r = guarded(move || -> c2pa::Result<(Vec<u8>, Option<Vec<u8>>)> {
        let signer = EphemeralSigner::new("verif.test")?;
        let ctx = Context::new().with_settings(settings(binding == Binding::Box).as_str())?.with_signer(signer);
        let mut builder = Builder::from_context(ctx).with_definition(definition(&f).as_str())?;
        if binding == Binding::Sidecar {
            builder.set_no_embed(true);
        }
        let mut input = Cursor::new(s);
        let mut output = Cursor::new(Vec::new());
        let manifest = builder.save_to_stream(&f, &mut input, &mut output)?;
        if binding == Binding::Update {
            // second step: an update manifest on top of the data-hashed asset
            let signer = EphemeralSigner::new("verif.test")?;
            let ctx = Context::new().with_settings(settings(false).as_str())?.with_signer(signer);
            let def = serde_json::json!({"title": "verif update", "format": f, "claim_generator_info": [{"name": "verif-harness", "version": "0.1"}]}).to_string();
            let mut b2 = Builder::from_context(ctx).with_definition(def.as_str())?;
            b2.set_intent(c2pa::BuilderIntent::Update);
            let mut input2 = Cursor::new(output.into_inner());
            let mut output2 = Cursor::new(Vec::new());
            b2.save_to_stream(&f, &mut input2, &mut output2)?;
            return Ok((output2.into_inner(), None));
        }
        Ok((output.into_inner(), if binding == Binding::Sidecar { Some(manifest) } else { None }))
    });
    match r {
        Ok(Ok(v)) => Ok(v),
        Ok(Err(e)) => Err(format!("{e:?}")),
        Err(p) => Err(format!("PANIC {p}")),
    }
}

#[derive(Clone, Debug, PartialEq)]
struct Report {
    /// `Valid` / `Trusted` / `Invalid` or `Err:<class>`
    state: String,
    success: Vec<String>,
    failure: Vec<String>,
    /// codes logged for ingredient deltas (an update manifest's parent carries the hard binding)
    delta_success: Vec<String>,
    delta_failure: Vec<String>,
    /// canonical JSON without validation time
    json: String,
}

impl Report {
    fn accepted(&self) -> bool {
        self.state == "Valid" || self.state == "Trusted"
    }
}

fn read(format: &str, bytes: &[u8], sidecar: Option<&[u8]>) -> Report {
    let (f, b, sc) = (format.to_string(), bytes.to_vec(), sidecar.map(|s| s.to_vec()));
    let r = guarded(move || {
        let ctx = Context::new().with_settings(settings(false).as_str()).expect("settings");
        let rd = Reader::from_context(ctx);
        match &sc {
            Some(m) => rd.with_manifest_data_and_stream(m, &f, Cursor::new(b)),
            None => rd.with_stream(&f, Cursor::new(b)),
        }
    });
    match r {
        Err(p) => Report { state: format!("Err:PANIC {p}"), success: vec![], failure: vec![], delta_success: vec![], delta_failure: vec![], json: String::new() },
        Ok(Err(e)) => {
            let d = format!("{e:?}");
            let cls: String = d.chars().take_while(|c| c.is_ascii_alphanumeric()).collect();
            Report { state: format!("Err:{cls}"), success: vec![], failure: vec![], delta_success: vec![], delta_failure: vec![], json: String::new() }
        }
        Ok(Ok(reader)) => {
            let mut v: serde_json::Value = serde_json::from_str(&reader.json()).unwrap_or(serde_json::Value::Null);
            if let Some(o) = v.as_object_mut() {
                if let Some(vr) = o.get_mut("validation_results").and_then(|x| x.as_object_mut()) {
                    vr.remove("validationTime");
                }
            }
            let (mut success, mut failure) = (vec![], vec![]);
            if let Some(a) = reader.validation_results().and_then(|r| r.active_manifest()) {
                success = a.success().iter().map(|s| s.code().to_string()).collect();
                failure = a.failure().iter().map(|s| s.code().to_string()).collect();
            }
            let (mut delta_success, mut delta_failure) = (vec![], vec![]);
            if let Some(ds) = reader.validation_results().and_then(|r| r.ingredient_deltas()) {
                for d in ds {
                    delta_success.extend(d.validation_deltas().success().iter().map(|s| s.code().to_string()));
                    delta_failure.extend(d.validation_deltas().failure().iter().map(|s| s.code().to_string()));
                }
            }
            Report { state: format!("{:?}", reader.validation_state()), success, failure, delta_success, delta_failure, json: canon_json(&v) }
        }
    }
}

// ───────────────────────── helpers ─────────────────────────

fn digest(alg: &str, b: &[u8]) -> Vec<u8> {
    match alg {
        "sha384" => Sha384::digest(b).to_vec(),
        "sha512" => Sha512::digest(b).to_vec(),
        _ => Sha256::digest(b).to_vec(),
    }
}

/// (start, length, bmff offset)
type R3 = (u64, u64, Option<u64>);

fn excluded_at(ex: &[R3], x: u64) -> bool {
    ex.iter().any(|(s, l, o)| o.is_none() && *l != 0 && *s <= x && (x as u128) < *s as u128 + *l as u128)
}

/// position-wise selection without markers (the harness' own reference for preimages)
fn select_plain(data: &[u8], ex: &[R3]) -> Vec<u8> {
    data.iter().enumerate().filter(|(i, _)| !excluded_at(ex, *i as u64)).map(|(_, b)| *b).collect()
}

/// position-wise selection with BMFF offset markers (DESIGN §6 C13 `exclSpec`, distinct markers)
fn select_markers(data: &[u8], ex: &[R3]) -> Vec<u8> {
    let n = data.len() as u64;
    let inc: Vec<bool> = (0..n).map(|x| !excluded_at(ex, x)).collect();
    let first = inc.iter().position(|b| *b);
    let last = inc.iter().rposition(|b| *b);
    let markers: Vec<u64> = ex.iter().filter_map(|r| r.2).collect();
    let mut out = vec![];
    for x in 0..n {
        let is_marker = markers.contains(&x);
        let in_span = inc[x as usize]
            || match (first, last) {
                (Some(f), Some(l)) => (f as u64) < x && x < l as u64,
                _ => 0 < x && x + 1 < n,
            };
        if is_marker && in_span {
            let copies = if inc[x as usize] { markers.iter().filter(|m| **m == x).count() } else { 1 };
            for _ in 0..copies {
                out.extend_from_slice(&x.to_be_bytes());
            }
        }
        if inc[x as usize] {
            out.push(data[x as usize]);
        }
    }
    out
}

fn ranges_str(ex: &Option<Vec<R3>>) -> String {
    match ex {
        None => "none".into(),
        Some(v) if v.is_empty() => "-".into(),
        Some(v) => v
            .iter()
            .map(|(s, l, o)| format!("{s}:{l}:{}", o.map(|x| x.to_string()).unwrap_or("-".into())))
            .collect::<Vec<_>>()
            .join(","),
    }
}

fn opt(s: &Option<String>) -> String {
    s.clone().unwrap_or("-".into())
}

#[derive(Clone, Debug)]
enum Mutation {
    /// the signed asset itself (baseline of the model-level cases: the `match` verdicts)
    Id,
    Flip(usize, u8),
    Set(usize, u8),
    Ins(usize, Vec<u8>),
    Del(usize, usize),
    App(Vec<u8>),
    Trunc(usize),
}

impl Mutation {
    fn kind(&self) -> &'static str {
        match self {
            Mutation::Id => "id",
            Mutation::Flip(..) => "flip",
            Mutation::Set(..) => "set",
            Mutation::Ins(..) => "insert",
            Mutation::Del(..) => "delete",
            Mutation::App(..) => "append",
            Mutation::Trunc(..) => "truncate",
        }
    }

    fn text(&self) -> String {
        match self {
            Mutation::Id => "id".into(),
            Mutation::Flip(p, m) => format!("flip:{p}:{m}"),
            Mutation::Set(p, v) => format!("set:{p}:{v}"),
            Mutation::Ins(p, b) => format!("ins:{p}:{}", hex(b)),
            Mutation::Del(p, n) => format!("del:{p}:{n}"),
            Mutation::App(b) => format!("app:{}", hex(b)),
            Mutation::Trunc(n) => format!("trunc:{n}"),
        }
    }

    fn apply(&self, d: &[u8]) -> Vec<u8> {
        let mut v = d.to_vec();
        match self {
            Mutation::Id => {}
            Mutation::Flip(p, m) => v[*p] ^= *m,
            Mutation::Set(p, x) => v[*p] = *x,
            Mutation::Ins(p, b) => {
                v.splice(*p..*p, b.iter().cloned());
            }
            Mutation::Del(p, n) => {
                v.drain(*p..*p + *n);
            }
            Mutation::App(b) => v.extend_from_slice(b),
            Mutation::Trunc(n) => v.truncate(*n),
        }
        v
    }
}

fn err_class(e: &c2pa::Error) -> String {
    use c2pa::Error as E;
    match e {
        E::HashMismatch(m) => match m.as_str() {
            "Hashes do not match" | "BMFF file level hash mismatch" => "mismatch".into(),
            "no alg specified" | "No algorithm specified" => "noalg".into(),
            "No box hash found" => "noboxes".into(),
            "No data boxes found" => "nosource".into(),
            "Malformed C2PA box hash" => "malformedc2pa".into(),
            "asset has data outside the hashed boxes" => "unconsumed".into(),
            m if m == c2pa::validation_status::ASSERTION_BOXHASH_UNKNOWN_BOX => "unknownbox".into(),
            _ => "hashmismatch-other".into(),
        },
        E::BadParam(m) if m == "asset hash is remote" => "remote".into(),
        E::BadParam(_) => "hash-badparam".into(),
        E::OtherError(_) => "hash-nodata".into(),
        E::UnsupportedType => "hash-unsupported".into(),
        E::IoError(_) => "hash-io".into(),
        E::OperationCancelled => "hash-cancelled".into(),
        other => {
            let d = format!("{other:?}");
            d.chars().take_while(|c| c.is_ascii_alphanumeric()).collect()
        }
    }
}

// ───────────────────────── function level: data hash + re-basing ─────────────────────────

struct DhCase {
    data: Vec<u8>,
    excl: Option<Vec<R3>>,
    pre: Vec<u8>,
    alg: Option<String>,
    upd: bool,
    range: Option<(u64, u64)>,
}

fn dh_request(c: &DhCase, mutation: Option<&Mutation>) -> String {
    format!(
        "C01 dh data={}{} excl={} pre={} alg={} calg=sha256 url=0 upd={} range={} buf=7",
        hex(&c.data),
        mutation.map(|m| format!(" mut={}", m.text())).unwrap_or_default(),
        ranges_str(&c.excl),
        hex(&c.pre),
        opt(&c.alg),
        c.upd as u8,
        c.range.map(|(s, l)| format!("{s}:{l}")).unwrap_or("-".into()),
    )
}

/// Run the real `Claim::verify_hash_binding` on `data` with a claim that carries this DataHash.
fn dh_impl(c: &DhCase, data: &[u8]) -> String {
    let mut dh = DataHash::new("verif", "sha256");
    dh.alg = c.alg.clone();
    dh.exclusions = c.excl.as_ref().map(|v| v.iter().map(|(s, l, _)| HashRange::new(*s, *l)).collect());
    let alg = c.alg.clone().unwrap_or("sha256".into());
    dh.set_hash(digest(&alg, &c.pre));
    let (upd, range, data) = (c.upd, c.range, data.to_vec());
    let r = guarded(move || {
        let mut claim = hook::Claim::new_with_user_guid("verif", "urn:c2pa:00000001-0000-4000-8000-000000000001", 2).expect("claim");
        claim.add_assertion(&dh).expect("add datahash");
        let ctx = Context::new();
        let mut log = StatusTracker::default();
        let res = hook::verify_hash_binding(
            &claim,
            &data,
            "image/jpeg",
            if upd { Some("urn:c2pa:update".to_string()) } else { None },
            range.map(|(s, l)| HashRange::new(s, l)),
            &mut log,
            &ctx,
        );
        (res.map_err(|e| err_class(&e)), log)
    });
    match r {
        Err(_) => "panic".into(),
        Ok((Err(_), _)) => "fatal".into(),
        Ok((Ok(()), log)) => verdict_of_log(&log, "dataHash"),
    }
}

/// `<verdict>[+extra]/<code>/<success|failure>` from what the arm really logged: the (single)
/// `assertion.<kind>.*` entry other than the informational `additionalExclusionsPresent`.
fn verdict_of_log(log: &StatusTracker, kind: &str) -> String {
    let prefix = format!("assertion.{kind}.");
    let mut extra = false;
    let mut entries: Vec<(String, &'static str)> = vec![];
    for it in log.logged_items() {
        let code = it.validation_status.as_deref().unwrap_or("");
        if code == "assertion.dataHash.additionalExclusionsPresent" {
            extra = true;
            continue;
        }
        if code.starts_with(&prefix) {
            let k = match it.kind {
                LogKind::Success => "success",
                LogKind::Failure => "failure",
                _ => "informational",
            };
            entries.push((code.to_string(), k));
        }
    }
    let x = if extra { "+extra" } else { "" };
    if entries.len() != 1 {
        return format!("none{x}:{}", entries.len());
    }
    let (code, k) = &entries[0];
    let verdict = match (code.rsplit('.').next().unwrap_or(""), *k) {
        ("match", "success") => "match",
        ("mismatch", "failure") => "mismatch",
        ("malformed", "failure") => "malformed",
        _ => "other",
    };
    format!("{verdict}{x}/{code}/{k}")
}

/// `Claim::verify_hash_binding` on a claim that carries `assertion`, through the `Bytes` and the
/// `Stream` variant of `ClaimAssetData`; both replies (they must agree).
fn bind_impl<A: AssertionBase + Sync>(assertion: &A, format: &str, data: &[u8], kind: &str) -> (String, String) {
    let one = |stream: bool| -> String {
        let r = guarded(std::panic::AssertUnwindSafe(|| {
            let mut claim = hook::Claim::new_with_user_guid("verif", "urn:c2pa:00000001-0000-4000-8000-000000000001", 2).expect("claim");
            claim.add_assertion(assertion).expect("add hard binding");
            let ctx = Context::new();
            let mut log = StatusTracker::default();
            let res = if stream {
                let mut c = Cursor::new(data.to_vec());
                hook::verify_hash_binding_stream(&claim, &mut c, format, None, None, &mut log, &ctx)
            } else {
                hook::verify_hash_binding(&claim, data, format, None, None, &mut log, &ctx)
            };
            (res.map_err(|e| err_class(&e)), log)
        }));
        match r {
            Err(_) => "panic".into(),
            Ok((Err(_), _)) => "fatal".into(),
            Ok((Ok(()), log)) => verdict_of_log(&log, kind),
        }
    };
    (one(false), one(true))
}

/// the harness' own idea of the re-based exclusions (only used to produce interesting preimages)
fn ideal_rebase(ex: &[R3], range: Option<(u64, u64)>) -> Vec<R3> {
    let mut v = ex.to_vec();
    if let Some((rs, rl)) = range {
        if let Some(pos) = v.iter().position(|r| r.0 == rs) {
            let adj = rl.saturating_sub(v[pos].1);
            v[pos] = (rs, rl, None);
            if rs > 0 {
                for r in v.iter_mut() {
                    if r.0 > rs {
                        r.0 = r.0.saturating_add(adj);
                    }
                }
            }
        }
    }
    v
}

fn gen_dh(rng: &mut Rng) -> DhCase {
    let n = if rng.chance(1, 30) { 0 } else { rng.range(1, 40) as usize };
    let data = rng.bytes(n);
    let n64 = n as u64;
    let pick_pos = |rng: &mut Rng| -> u64 {
        match rng.below(8) {
            0 => 0,
            1 => n64,
            2 => n64.saturating_sub(1),
            3 => n64 + 1,
            _ => rng.below(n64 + 2),
        }
    };
    let excl: Option<Vec<R3>> = match rng.below(10) {
        0 => None,
        1 => Some(vec![]),
        _ => {
            let k = rng.range(1, 4);
            Some(
                (0..k)
                    .map(|_| {
                        let s = pick_pos(rng);
                        let l = match rng.below(6) {
                            0 => 0,
                            1 => n64.saturating_sub(s),
                            2 => n64.saturating_sub(s) + 1,
                            _ => rng.below(8),
                        };
                        (s, l, None)
                    })
                    .collect(),
            )
        }
    };
    let upd = rng.chance(1, 2);
    let range = if rng.chance(2, 3) {
        let s = match (&excl, rng.below(4)) {
            (Some(v), 0..=2) if !v.is_empty() => rng.pick(v).0,
            _ => pick_pos(rng),
        };
        let l = match rng.below(5) {
            0 => 0,
            1 => n64.saturating_sub(s),
            2 if rng.chance(1, 8) => u64::MAX,
            _ => rng.below(12),
        };
        Some((s, l))
    } else {
        None
    };
    let eff: Vec<R3> = match (&excl, upd) {
        (Some(v), true) => ideal_rebase(v, range),
        (Some(v), false) => v.clone(),
        (None, _) => vec![],
    };
    let pre = match rng.below(10) {
        0 => {
            let k = rng.below(6) as usize;
            rng.bytes(k)
        }
        1 => select_plain(&data, excl.as_deref().unwrap_or(&[])),
        2 => {
            let mut p = select_plain(&data, &eff);
            if !p.is_empty() {
                let i = rng.below(p.len() as u64) as usize;
                p[i] ^= 1 << rng.below(8);
            }
            p
        }
        _ => select_plain(&data, &eff),
    };
    let alg = match rng.below(12) {
        0 => None,
        1 => Some("sha384".to_string()),
        2 => Some("sha512".to_string()),
        3 => Some("md5".to_string()),
        _ => Some("sha256".to_string()),
    };
    DhCase { data, excl, pre, alg, upd, range }
}

fn dh_function_level(run: &mut Run, rng: &mut Rng, count: usize) {
    for _ in 0..count {
        let c = gen_dh(rng);
        let imp = dh_impl(&c, &c.data);
        run.count(&format!("dh:{}", imp.split(['+', '/']).next().unwrap_or("")));
        if c.upd && c.range.is_some() {
            run.count("dh:rebase-branch");
        }
        if !c.data.is_empty() {
            run.nontrivial(format!("dh:{}:{:?}:{:?}", hex(&c.data), c.excl, c.range));
        }
        let idx = run.case(dh_request(&c, None), imp.clone());
        // `manifest_store_range` is the Cai location inside the asset being validated, so it
        // fits in the asset; other ranges (u64::MAX lengths) only exercise the model's overflow branch
        let realistic = c.range.map(|(s, l)| s.checked_add(l).map(|e| e <= c.data.len() as u64).unwrap_or(false)).unwrap_or(true);
        if imp == "panic" && realistic {
            run.fail(idx, "panic", "verify_hash_binding panicked on a data hash".into());
        }
        // oracle (H-free direction that needs no model): a match means the selected bytes are
        // the signed preimage
        if imp.starts_with("match") && c.alg.as_deref() != Some("md5") {
            let eff = match (&c.excl, c.upd) {
                (Some(v), true) => ideal_rebase(v, c.range),
                (Some(v), false) => v.clone(),
                (None, _) => vec![],
            };
            if select_plain(&c.data, &eff) != c.pre {
                run.fail(idx, "match-with-different-content", format!("data hash matched although the selected bytes differ from the signed ones: {:?}", c.excl));
            }
        }
    }
}

// ───────────────────────── function level: box hash with an abstract box map ─────────────────────────

#[derive(Clone, Debug)]
struct Src {
    names: Vec<String>,
    start: u64,
    len: u64,
}

#[derive(Clone, Debug)]
struct Entry {
    names: Vec<String>,
    alg: Option<String>,
    pre: Vec<u8>,
    excluded: Option<bool>,
}

struct FakeMap(Option<Vec<Src>>);

impl hook::AssetBoxHash for FakeMap {
    fn get_box_map(&self, _input: &mut dyn hook::CAIRead) -> c2pa::Result<Vec<BoxMap>> {
        match &self.0 {
            None => Err(c2pa::Error::JumbfNotFound),
            Some(v) => Ok(v
                .iter()
                .map(|s| BoxMap {
                    names: s.names.clone(),
                    alg: None,
                    hash: ByteBuf::from(vec![]),
                    excluded: None,
                    pad: ByteBuf::from(vec![]),
                    range_start: s.start,
                    range_len: s.len,
                })
                .collect()),
        }
    }
}

/// box names are opaque tokens for the model: keep ASCII alphanumerics, escape the rest
fn enc_names(names: &[String]) -> String {
    if names.is_empty() {
        return "-".into();
    }
    names
        .iter()
        .map(|n| n.bytes().map(|b| if b.is_ascii_alphanumeric() { (b as char).to_string() } else { format!("%{b:02x}") }).collect::<String>())
        .collect::<Vec<_>>()
        .join("+")
}

fn src_str(src: &Option<Vec<Src>>) -> String {
    match src {
        None => "err".into(),
        Some(v) if v.is_empty() => "-".into(),
        Some(v) => v
            .iter()
            .map(|s| format!("{}:{}:{}", enc_names(&s.names), s.start, s.len))
            .collect::<Vec<_>>()
            .join(";"),
    }
}

fn entries_str(es: &[Entry]) -> String {
    if es.is_empty() {
        return "-".into();
    }
    es.iter()
        .map(|e| {
            format!(
                "{}:{}:{}:{}",
                enc_names(&e.names),
                opt(&e.alg),
                hex(&e.pre),
                match e.excluded {
                    Some(true) => "1",
                    Some(false) => "0",
                    None => "-",
                }
            )
        })
        .collect::<Vec<_>>()
        .join(";")
}

fn bh_request(data: &[u8], mutation: Option<&Mutation>, src: &Option<Vec<Src>>, es: &[Entry], calg: &Option<String>) -> String {
    format!(
        "C01 bh data={}{} src={} boxes={} calg={} buf=5",
        hex(data),
        mutation.map(|m| format!(" mut={}", m.text())).unwrap_or_default(),
        src_str(src),
        entries_str(es),
        opt(calg)
    )
}

fn to_box_hash(es: &[Entry], calg: &Option<String>) -> BoxHash {
    BoxHash {
        boxes: es
            .iter()
            .map(|e| {
                let alg = e.alg.clone().or(calg.clone()).unwrap_or("sha256".into());
                BoxMap {
                    names: e.names.clone(),
                    alg: e.alg.clone(),
                    hash: ByteBuf::from(digest(&alg, &e.pre)),
                    excluded: e.excluded,
                    pad: ByteBuf::from(vec![]),
                    range_start: 0,
                    range_len: 0,
                }
            })
            .collect(),
    }
}

fn bh_impl(data: &[u8], handler: &dyn hook::AssetBoxHash, handler_failed: bool, bh: &BoxHash, calg: &Option<String>) -> String {
    let r = guarded(std::panic::AssertUnwindSafe(|| {
        let mut c = Cursor::new(data.to_vec());
        bh.verify_stream_hash(&mut c, calg.as_deref(), handler)
    }));
    match r {
        Err(_) => "err:panic".into(),
        Ok(Ok(())) => "ok".into(),
        // "No box hash found" is decided before the handler is asked
        Ok(Err(e)) if handler_failed && err_class(&e) != "noboxes" => "err:handler".into(),
        Ok(Err(e)) => format!("err:{}", err_class(&e)),
    }
}

const BOX_NAMES: [&str; 7] = ["PNGh", "IHDR", "IDAT", "C2PA", "APP0", "SOS", "IEND"];

fn gen_bh(rng: &mut Rng) -> (Vec<u8>, Option<Vec<Src>>, Vec<Entry>, Option<String>) {
    let n = rng.range(1, 48) as usize;
    let mut data = rng.bytes(n);
    // a box map: mostly a partition of the data
    let k = rng.range(1, 6) as usize;
    let mut cuts: Vec<usize> = (0..k - 1).map(|_| rng.below(n as u64 + 1) as usize).collect();
    cuts.push(0);
    cuts.push(n);
    cuts.sort();
    let mut src: Vec<Src> = vec![];
    let c2pa_at = if rng.chance(2, 3) { Some(rng.below(k as u64) as usize) } else { None };
    for i in 0..k {
        let name = if i == 0 && rng.chance(1, 3) {
            "PNGh"
        } else if Some(i) == c2pa_at {
            "C2PA"
        } else {
            *rng.pick(&BOX_NAMES[1..])
        };
        let name = if name == "C2PA" && Some(i) != c2pa_at { "IDAT" } else { name };
        src.push(Src { names: vec![name.to_string()], start: cuts[i] as u64, len: (cuts[i + 1] - cuts[i]) as u64 });
    }
    // the form the SDK signs: one name per entry; with JPEG-like nested boxes (RSTn inside SOS)
    let single = rng.chance(1, 3);
    if single && rng.chance(1, 2) {
        let mut i = 0;
        while i < src.len() {
            if src[i].len >= 3 && src[i].names[0] != "C2PA" && rng.chance(1, 2) {
                let inner = Src { names: vec!["RST0".to_string()], start: src[i].start + 1, len: rng.range(1, src[i].len - 1) };
                src.insert(i + 1, inner);
                i += 1;
            }
            i += 1;
        }
    }
    let k = src.len();
    // occasional layout defects of the map itself
    match rng.below(14) {
        0 => {
            let i = rng.below(src.len() as u64) as usize;
            src[i].len += rng.range(1, 3); // overlap / past the end
        }
        1 => {
            let i = rng.below(src.len() as u64) as usize;
            src[i].start += rng.range(1, 3); // gap
        }
        2 => {
            src.swap(0, k - 1); // not in file order
        }
        3 => {
            let i = rng.below(src.len() as u64) as usize;
            src[i].names.clear();
        }
        _ => {}
    }
    // the assertion: group consecutive source boxes
    let calg = if rng.chance(1, 6) { None } else { Some("sha256".to_string()) };
    let mut es: Vec<Entry> = vec![];
    let mut i = 0;
    while i < src.len() {
        let is_c2pa = src[i].names.first().map(|s| s == "C2PA").unwrap_or(false);
        let take = if single || (is_c2pa && !rng.chance(1, 12)) { 1 } else { rng.range(1, 3) as usize };
        let j = (i + take).min(src.len());
        let j = if !is_c2pa {
            // do not swallow a C2PA box into a group, mostly
            let mut jj = i + 1;
            while jj < j && (src[jj].names.first().map(|s| s != "C2PA").unwrap_or(true) || rng.chance(1, 12)) {
                jj += 1;
            }
            jj
        } else {
            j
        };
        let names: Vec<String> = src[i..j].iter().map(|s| s.names.first().cloned().unwrap_or("X".into())).collect();
        let lo = src[i].start as usize;
        let hi = (src[j - 1].start + src[j - 1].len) as usize;
        let pre = if lo <= hi && hi <= data.len() { data[lo..hi].to_vec() } else { vec![] };
        let alg = match rng.below(12) {
            0 => None,
            1 => Some("sha512".to_string()),
            2 => Some("md5".to_string()),
            _ => Some("sha256".to_string()),
        };
        let excluded = match rng.below(12) {
            0 => Some(true),
            1 => Some(false),
            _ => None,
        };
        es.push(Entry { names, alg, pre, excluded });
        i = j;
    }
    // assertion-side edits
    match rng.below(16) {
        0 => {
            es.pop(); // last boxes not listed
        }
        1 => {
            if es.first().map(|e| e.names.first().map(|s| s == "PNGh").unwrap_or(false)).unwrap_or(false) {
                if es[0].names.len() == 1 {
                    es.remove(0); // PNGh skip rule
                } else {
                    es[0].names.remove(0);
                }
            }
        }
        2 => es.push(Entry { names: vec!["IEND".into()], alg: Some("sha256".into()), pre: vec![], excluded: None }),
        3 => {
            if let Some(e) = es.iter_mut().find(|e| !e.pre.is_empty()) {
                let i = rng.below(e.pre.len() as u64) as usize;
                e.pre[i] ^= 0x40;
            }
        }
        4 => es.clear(),
        5 => {
            let i = rng.below(es.len().max(1) as u64) as usize;
            if let Some(e) = es.get_mut(i) {
                e.names = vec!["mdat".into()];
            }
        }
        _ => {}
    }
    // asset-side edits after signing
    match rng.below(12) {
        0 => {
            let k = rng.range(1, 4) as usize;
            data.extend_from_slice(&rng.bytes(k))
        }
        1 => {
            let i = rng.below(data.len() as u64) as usize;
            data[i] ^= 1 << rng.below(8);
        }
        2 => {
            data.truncate(rng.below(data.len() as u64) as usize);
        }
        _ => {}
    }
    let src = if rng.chance(1, 40) {
        None
    } else if rng.chance(1, 40) {
        Some(vec![])
    } else {
        Some(src)
    };
    (data, src, es, calg)
}

/// The independent statement of what a box-hash match must mean (used as the oracle): every
/// byte of `data` lies in a source box that is hashed by an entry whose preimage equals the
/// current bytes, or in a C2PA / excluded box.
fn bh_oracle_covered(data: &[u8], src: &[Src], es: &[Entry]) -> Result<(), String> {
    // positions protected by some hashed entry = union of spans of the entries' boxes; the walk
    // mirrors only the *specification* (names in order), not the code's index arithmetic
    let mut covered = vec![false; data.len()];
    let mut i = 0usize;
    if src.first().map(|s| s.names.first().map(|n| n == "PNGh").unwrap_or(false)).unwrap_or(false)
        && es.first().map(|e| e.names.first().map(|n| n != "PNGh").unwrap_or(false)).unwrap_or(false)
    {
        for p in src[0].start..src[0].start + src[0].len {
            if let Some(c) = covered.get_mut(p as usize) {
                *c = true; // the PNG signature is implied by the format
            }
        }
        i = 1;
    }
    for e in es {
        let first = i;
        i += e.names.len();
        if i > src.len() {
            return Err("names beyond the map".into());
        }
        let lo = src[first].start;
        let hi = src[i - 1].start + src[i - 1].len;
        let is_c2pa = e.names.first().map(|n| n == "C2PA").unwrap_or(false);
        if is_c2pa || e.excluded == Some(true) {
            for p in lo..hi {
                if let Some(c) = covered.get_mut(p as usize) {
                    *c = true;
                }
            }
            continue;
        }
        if hi as usize > data.len() || lo > hi {
            return Err("span outside data".into());
        }
        if data[lo as usize..hi as usize] != e.pre[..] {
            return Err(format!("bytes of {:?} differ from the signed ones", e.names));
        }
        for p in lo..hi {
            covered[p as usize] = true;
        }
    }
    if i != src.len() {
        return Err("source boxes not listed in the assertion".into());
    }
    match covered.iter().position(|c| !*c) {
        Some(p) => Err(format!("byte {p} is in no box")),
        None => Ok(()),
    }
}

fn bh_function_level(run: &mut Run, rng: &mut Rng, count: usize) {
    for _ in 0..count {
        let (data, src, es, calg) = gen_bh(rng);
        let fake = FakeMap(src.clone());
        let bh = to_box_hash(&es, &calg);
        let imp = bh_impl(&data, &fake, src.is_none(), &bh, &calg);
        run.count(&format!("bh:{imp}"));
        run.nontrivial(format!("bh:{}:{}", hex(&data), entries_str(&es)));
        let idx = run.case(bh_request(&data, None, &src, &es, &calg), imp.clone());
        if imp == "ok" {
            let unsupported = es.iter().any(|e| e.alg.as_deref() == Some("md5"));
            let tiles = src
                .as_ref()
                .map(|v| v.iter().all(|s| !s.names.is_empty()) && v.windows(2).all(|w| w[0].start + w[0].len == w[1].start) && v.first().map(|s| s.start == 0).unwrap_or(true))
                .unwrap_or(false);
            // the guarantee is stated for well-formed maps (boxes tile the file from 0:
            // `boxhash_binds`) and, for assertions with one name per entry, for every box map,
            // nested / overlapping ones included (`boxhash_every_byte`)
            let single_names = es.iter().all(|e| e.names.len() == 1) && src.as_ref().map(|v| v.iter().all(|s| !s.names.is_empty())).unwrap_or(false);
            if single_names && !tiles {
                run.count("bh:ok-single-name-non-tiling");
            }
            if (tiles || single_names) && !unsupported {
                if let Err(why) = bh_oracle_covered(&data, src.as_ref().unwrap(), &es) {
                    let only_c2pa = src.as_ref().unwrap().iter().all(|s| s.names[0] == "C2PA");
                    if !only_c2pa {
                        run.fail(idx, "boxhash-ok-uncovered", format!("box hash verified although {why}"));
                    }
                }
            }
        }
        if imp == "err:panic" && src.as_ref().map(|v| v.iter().all(|s| !s.names.is_empty()) && v.windows(2).all(|w| w[0].start <= w[1].start)).unwrap_or(true) {
            run.fail(idx, "panic", "BoxHash::verify_stream_hash panicked on an ordered box map".into());
        }
    }
}

// ───────────────────────── end to end ─────────────────────────

struct Signed {
    label: String,
    format: String,
    binding: Binding,
    bytes: Vec<u8>,
    sidecar: Option<Vec<u8>>,
    base: Report,
    /// byte ranges of the signed file that the hard binding declares excluded
    declared: Vec<(u64, u64)>,
    /// where the manifest store sits (Cai object locations / C2PA boxes)
    manifest: Vec<(u64, u64)>,
    /// structural boundaries of the signed file
    bounds: Vec<usize>,
    info: BindingInfo,
    small: bool,
}

enum BindingInfo {
    Data { case: DhCase },
    Box { entries: Vec<Entry>, calg: Option<String> },
    Bmff { hash: Box<BmffHash>, pre: Vec<u8>, alg: String },
    Unknown,
}

fn in_ranges(rs: &[(u64, u64)], p: u64) -> bool {
    rs.iter().any(|(s, l)| *s <= p && p < *s + *l)
}

/// `svi.manifest_store_range` as `Store` computes it: the first Cai object location
fn store_range_of(format: &str, bytes: &[u8]) -> Option<(u64, u64)> {
    ec::op_locations(format, bytes).ok().and_then(|locs| locs.into_iter().find(|(_, _, k)| *k == 0).map(|(o, l, _)| (o as u64, l as u64)))
}

fn box_map_of(format: &str, bytes: &[u8]) -> Option<Vec<Src>> {
    let (f, b) = (format.to_string(), bytes.to_vec());
    match guarded(move || hook::box_map(&f, &mut Cursor::new(b))) {
        Ok(Some(Ok(v))) => Some(v.into_iter().map(|b| Src { names: b.names, start: b.range_start, len: b.range_len }).collect()),
        _ => None,
    }
}

/// Read the signed hard binding back out of the signed asset (through the real store parser).
fn binding_info(run: &mut Run, format: &str, bytes: &[u8], sidecar: Option<&[u8]>) -> (BindingInfo, Vec<(u64, u64)>) {
    let jumbf = match sidecar {
        Some(m) => Some(m.to_vec()),
        None => {
            let (f, b) = (format.to_string(), bytes.to_vec());
            guarded(move || c2pa::jumbf_io::load_jumbf_from_stream(&f, &mut Cursor::new(b)).ok()).ok().flatten()
        }
    };
    let Some(jumbf) = jumbf else { return (BindingInfo::Unknown, vec![]) };
    let mut log = StatusTracker::default();
    let Ok(store) = hook::Store::from_jumbf(&jumbf, &mut log) else { return (BindingInfo::Unknown, vec![]) };
    let Some(pc) = store.provenance_claim() else { return (BindingInfo::Unknown, vec![]) };
    // an update manifest has no hard binding of its own: the binding claim is the newest
    // earlier claim that has one
    let claim = if pc.hash_assertions().is_empty() {
        match store.claims().into_iter().rev().find(|c| !c.hash_assertions().is_empty()) {
            Some(c) => c,
            None => return (BindingInfo::Unknown, vec![]),
        }
    } else {
        pc
    };
    let is_update = pc.hash_assertions().is_empty();
    let store_range: Option<(u64, u64)> = if is_update { store_range_of(format, bytes) } else { None };
    let calg = claim.alg().to_string();
    for ha in claim.hash_assertions() {
        let label = ha.label_raw();
        if label.starts_with(DataHash::LABEL) {
            if let Ok(dh) = DataHash::from_assertion(ha.assertion()) {
                let excl: Option<Vec<R3>> = dh.exclusions.as_ref().map(|v| v.iter().map(|r| (r.start(), r.length(), None)).collect());
                // with an update manifest the exclusions that apply are the re-based ones
                let eff: Vec<R3> = match (&excl, is_update) {
                    (Some(v), true) => ideal_rebase(v, store_range),
                    (Some(v), false) => v.clone(),
                    (None, _) => vec![],
                };
                let declared = eff.iter().map(|r| (r.0, r.1)).collect();
                let pre = select_plain(bytes, &eff);
                let alg = dh.alg.clone().unwrap_or(calg.clone());
                run.obligations.insert(format!("preimage-is-signed-digest:{}:{format}", if is_update { "update" } else { "data" }), digest(&alg, &pre) == dh.hash);
                let case = DhCase { data: bytes.to_vec(), excl, pre, alg: dh.alg.clone(), upd: is_update, range: store_range };
                return (BindingInfo::Data { case }, declared);
            }
        } else if label.starts_with(BoxHash::LABEL) {
            if let Ok(bh) = BoxHash::from_assertion(ha.assertion()) {
                let Some(src) = box_map_of(format, bytes) else { return (BindingInfo::Unknown, vec![]) };
                let mut entries = vec![];
                let mut declared = vec![];
                let mut i = if src.first().map(|s| s.names[0] == "PNGh").unwrap_or(false) && bh.boxes.first().map(|b| b.names.first().map(|n| n != "PNGh").unwrap_or(false)).unwrap_or(false) { 1 } else { 0 };
                let mut all_ok = true;
                for bm in &bh.boxes {
                    let first = i;
                    i += bm.names.len();
                    if i > src.len() || bm.names.is_empty() {
                        all_ok = false;
                        break;
                    }
                    let lo = src[first].start;
                    let hi = src[i - 1].start + src[i - 1].len;
                    let skip = bm.names[0] == "C2PA" || bm.excluded == Some(true);
                    let pre = if skip { vec![] } else { bytes[lo as usize..hi as usize].to_vec() };
                    if skip {
                        declared.push((lo, hi - lo));
                    } else {
                        let alg = bm.alg.clone().unwrap_or(calg.clone());
                        all_ok &= digest(&alg, &pre) == bm.hash.to_vec();
                    }
                    entries.push(Entry { names: bm.names.clone(), alg: bm.alg.clone(), pre, excluded: bm.excluded });
                }
                run.obligations.insert(format!("preimage-is-signed-digest:box:{format}"), all_ok);
                return (BindingInfo::Box { entries, calg: Some(calg) }, declared);
            }
        } else if label.starts_with(BmffHash::LABEL) {
            if let Ok(bh) = BmffHash::from_assertion(ha.assertion()) {
                let b = bytes.to_vec();
                let ex: Vec<R3> = match hook::bmff_exclusions(&mut Cursor::new(b), &bh) {
                    Ok(v) => v.iter().map(|r| (r.start(), r.length(), r.bmff_offset())).collect(),
                    Err(_) => return (BindingInfo::Unknown, vec![]),
                };
                let declared = ex.iter().filter(|r| r.2.is_none()).map(|r| (r.0, r.1)).collect();
                let pre = select_markers(bytes, &ex);
                let alg = bh.alg().cloned().unwrap_or(calg.clone());
                let ok = bh.hash().map(|h| *h == digest(&alg, &pre)).unwrap_or(false);
                run.obligations.insert(format!("preimage-is-signed-digest:bmff:{format}"), ok);
                if bh.merkle().is_some() {
                    return (BindingInfo::Unknown, declared);
                }
                return (BindingInfo::Bmff { hash: Box::new(bh), pre, alg }, declared);
            }
        }
    }
    (BindingInfo::Unknown, vec![])
}

fn fmt_of(fam: Family, fmt: &str) -> String {
    let _ = fam;
    fmt.to_string()
}

fn prepare(run: &mut Run, label: &str, format: &str, src: &[u8], binding: Binding, small: bool) -> Option<Signed> {
    let (bytes, sidecar) = match sign(format, src, binding) {
        Ok(v) => v,
        Err(e) => {
            run.count(&format!("sign-failed:{}:{}", binding.tag(), format));
            run.notes.push(format!("sign failed {label} {format} {}: {}", binding.tag(), e.chars().take(120).collect::<String>()));
            return None;
        }
    };
    let base = read(format, &bytes, sidecar.as_deref());
    if !base.accepted() {
        run.count(&format!("baseline-not-valid:{}:{}", binding.tag(), format));
        run.notes.push(format!("baseline {label} {format} {}: {} {:?}", binding.tag(), base.state, base.failure));
        return None;
    }
    let (info, mut declared) = binding_info(run, format, &bytes, sidecar.as_deref());
    let kind_ok = match (&info, binding) {
        // the active manifest is the update manifest (no hard binding of its own): the binding is
        // the parent's; the declared exclusions are the re-based ones plus the manifest store
        // found in the asset (filled in below)
        (_, Binding::Update) => true,
        (BindingInfo::Data { .. }, Binding::Data | Binding::Sidecar) => true,
        (BindingInfo::Box { .. }, Binding::Box) => true,
        (BindingInfo::Bmff { .. }, Binding::Bmff) => true,
        // a format without box-hash support falls back to the data hash
        (BindingInfo::Data { .. }, Binding::Box) => {
            run.count(&format!("box-falls-back-to-data:{format}"));
            return None;
        }
        _ => false,
    };
    if !kind_ok {
        run.count(&format!("binding-not-readable:{}:{}", binding.tag(), format));
        return None;
    }
    // manifest location and structural boundaries
    let mut manifest: Vec<(u64, u64)> = vec![];
    let mut bounds: Vec<usize> = vec![0, bytes.len()];
    if sidecar.is_none() {
        if let Ok(locs) = ec::op_locations(format, &bytes) {
            for (o, l, k) in locs {
                bounds.push(o);
                bounds.push(o + l);
                if k == 0 {
                    manifest.push((o as u64, l as u64));
                }
            }
        }
        if let Some(src) = box_map_of(format, &bytes) {
            for s in &src {
                bounds.push(s.start as usize);
                bounds.push((s.start + s.len) as usize);
                if s.names.first().map(|n| n == "C2PA").unwrap_or(false) {
                    manifest.push((s.start, s.len));
                }
            }
        }
        if manifest.is_empty() {
            manifest = declared.clone();
        }
        if binding == Binding::Update {
            declared.extend(manifest.iter().cloned());
        }
    }
    for (s, l) in &declared {
        bounds.push(*s as usize);
        bounds.push((*s + *l) as usize);
    }
    bounds.retain(|b| *b <= bytes.len());
    bounds.sort();
    bounds.dedup();
    run.count(&format!("signed:{}:{}", binding.tag(), format));
    Some(Signed { label: label.to_string(), format: format.to_string(), binding, bytes, sidecar, base, declared, manifest, bounds, info, small })
}

/// One mutated read: the property oracle on the implementation, plus (for small assets and
/// mutations outside the manifest store) the model-level case through the function-level API.
fn check_mutation(run: &mut Run, s: &Signed, m: &Mutation, with_model: bool) {
    let mutated = m.apply(&s.bytes);
    let rep = read(&s.format, &mutated, s.sidecar.as_deref());
    let kind = m.kind();
    let tag = format!("{}:{}", s.binding.tag(), s.format);
    run.count(&format!("e2e:{kind}:{}", if rep.accepted() { "accepted" } else if rep.state.starts_with("Err") { "error" } else { "invalid" }));
    // confined to declared exclusions?
    let same_len = mutated.len() == s.bytes.len();
    // a removal is confined when every removed byte lies in a declared exclusion (e.g. the whole
    // trailing `mfra` box of a fragmented MP4, excluded by path) — the remaining bytes are the
    // signed ones; whether they still sit where the binding expects them is the verifier's job
    let removal_confined = match m {
        Mutation::Del(p, n) => (*p..*p + *n).all(|i| in_ranges(&s.declared, i as u64)),
        Mutation::Trunc(n) => (*n..s.bytes.len()).all(|i| in_ranges(&s.declared, i as u64)),
        _ => false,
    };
    // BMFF: added bytes are confined when they form whole top-level boxes each of which the
    // signed assertion declares excluded (a `free` box; never a `uuid` box that does not carry
    // the full C2PA extended type) — judged by the independent matcher `declared_excluded`
    let addition_confined = match (&s.info, m) {
        (BindingInfo::Bmff { hash, .. }, Mutation::Ins(_, added)) | (BindingInfo::Bmff { hash, .. }, Mutation::App(added)) => {
            let p = match m {
                Mutation::Ins(p, _) => *p,
                _ => s.bytes.len(),
            };
            match (tl_boxes(&s.bytes), tl_boxes(added)) {
                (Some(tl), Some(new)) if p == s.bytes.len() || tl.iter().any(|b| b.0 == p) => new.iter().all(|b| declared_excluded(&mutated, (p + b.0, b.1, b.2), hash.exclusions())),
                _ => false,
            }
        }
        _ => false,
    };
    if addition_confined && rep.accepted() {
        run.count(&format!("e2e:addition-of-excluded-box-accepted:{}", s.binding.tag()));
    }
    let confined = (same_len && (0..mutated.len()).all(|i| mutated[i] == s.bytes[i] || in_ranges(&s.declared, i as u64))) || removal_confined || addition_confined;
    let changed = mutated != s.bytes;
    let touches_manifest = match m {
        Mutation::Flip(p, _) | Mutation::Set(p, _) => in_ranges(&s.manifest, *p as u64),
        Mutation::Ins(p, _) => s.manifest.iter().any(|(a, l)| *a < *p as u64 && (*p as u64) < *a + *l),
        Mutation::Del(p, n) => (0..*n).any(|k| in_ranges(&s.manifest, (*p + k) as u64)),
        Mutation::App(_) | Mutation::Id => false,
        Mutation::Trunc(n) => s.manifest.iter().any(|(a, l)| (*n as u64) < *a + *l),
    };
    let mut idx = None;
    // model-level case
    if with_model && s.small && (changed || matches!(m, Mutation::Id)) && !touches_manifest && s.sidecar.is_none() {
        match &s.info {
            BindingInfo::Data { case } => {
                // update manifest: the store range is recomputed from the asset being validated
                let recomputed;
                let case = if case.upd {
                    recomputed = DhCase { data: case.data.clone(), excl: case.excl.clone(), pre: case.pre.clone(), alg: case.alg.clone(), upd: true, range: store_range_of(&s.format, &mutated) };
                    run.count(if recomputed.range == case.range { "update:range-unchanged" } else { "update:range-moved" });
                    &recomputed
                } else {
                    case
                };
                let imp = dh_impl(case, &mutated);
                idx = Some(run.case(dh_request(case, Some(m)), imp.clone()));
                run.nontrivial(format!("e2e:{tag}:{}", m.text()));
                run.count(&format!("model-e2e:dh:{}", imp.split('/').next().unwrap_or("")));
                // with an update manifest the parent's `dataHash.match` is not surfaced (only
                // differences are reported for ingredients): a mismatch shows as a failure of the
                // active manifest or of an ingredient delta, an accepted state implies the match
                let reader_verdict = if rep.success.iter().chain(rep.delta_success.iter()).any(|c| c == "assertion.dataHash.match") {
                    "match"
                } else if rep.failure.iter().chain(rep.delta_failure.iter()).any(|c| c == "assertion.dataHash.mismatch") {
                    "mismatch"
                } else if case.upd && rep.accepted() {
                    "match"
                } else {
                    "none"
                };
                if case.upd {
                    run.count(&format!("update:reader-verdict-{reader_verdict}"));
                }
                if reader_verdict != "none" && !imp.starts_with(reader_verdict) {
                    run.fail(idx.unwrap(), "reader-verdict-differs", format!("{tag} {}: reader says {reader_verdict}, verify_hash_binding says {imp}", m.text()));
                }
            }
            BindingInfo::Box { entries, calg } => {
                let src = box_map_of(&s.format, &mutated);
                if let Some(h) = hook::box_hash_handler(&s.format) {
                    let bh = to_box_hash(entries, calg);
                    let imp = bh_impl(&mutated, h, src.is_none(), &bh, calg);
                    idx = Some(run.case(bh_request(&s.bytes, Some(m), &src, entries, calg), imp.clone()));
                    run.nontrivial(format!("e2e:{tag}:{}", m.text()));
                    run.count(&format!("model-e2e:bh:{imp}"));
                    let reader_verdict = if rep.success.iter().any(|c| c == "assertion.boxesHash.match") {
                        "ok"
                    } else if rep.failure.iter().any(|c| c == "assertion.boxesHash.mismatch") {
                        "err"
                    } else {
                        "none"
                    };
                    if reader_verdict != "none" && !imp.starts_with(reader_verdict) {
                        run.fail(idx.unwrap(), "reader-verdict-differs", format!("{tag} {}: reader says {reader_verdict}, BoxHash::verify_stream_hash says {imp}", m.text()));
                    }
                    // function-level oracle on the *real* box map of the mutated asset: a match
                    // means every byte lies in a span whose bytes are the signed ones (or in the
                    // C2PA / excluded entry) — `boxhash_every_byte`, no layout assumption
                    if imp == "ok" && entries.iter().all(|e| e.names.len() == 1) {
                        if let Some(real) = &src {
                            run.count("bh:real-map-oracle");
                            if let Err(why) = bh_oracle_covered(&mutated, real, entries) {
                                run.fail(idx.unwrap(), "boxhash-ok-uncovered-real", format!("{tag} {}: box hash verified although {why}", m.text()));
                            }
                        }
                    }
                    // the box-hash arm of verify_hash_binding (verdict + logged code), Bytes and Stream
                    if calg.as_deref() == Some("sha256") {
                        let (vb, vs) = bind_impl(&bh, &s.format, &mutated, "boxesHash");
                        let req = bh_request(&s.bytes, Some(m), &src, entries, calg).replacen("C01 bh ", "C01 bhv handler=1 ", 1);
                        let i2 = run.case(req, vb.clone());
                        run.count(&format!("model-e2e:bhv:{}", vb.split('/').next().unwrap_or("")));
                        if vb != vs {
                            run.fail(i2, "bytes-stream-differ", format!("{tag} {}: verify_hash_binding says {vb} on Bytes and {vs} on Stream", m.text()));
                        }
                        if vb.starts_with("match") != (imp == "ok") {
                            run.fail(i2, "arm-verdict-differs", format!("{tag} {}: BoxHash::verify_stream_hash says {imp}, verify_hash_binding logs {vb}", m.text()));
                        }
                    }
                }
            }
            BindingInfo::Bmff { hash, pre, alg } => {
                let ex: Option<Vec<R3>> = {
                    let b = mutated.clone();
                    let hh = hash.as_ref();
                    match guarded(std::panic::AssertUnwindSafe(|| hook::bmff_exclusions(&mut Cursor::new(b), hh))) {
                        Ok(Ok(v)) => Some(v.iter().map(|r| (r.start(), r.length(), r.bmff_offset())).collect()),
                        _ => None,
                    }
                };
                let imp = {
                    let b = mutated.clone();
                    let hh = hash.as_ref();
                    match guarded(std::panic::AssertUnwindSafe(|| hh.verify_stream_hash(&mut Cursor::new(b), Some(alg.as_str())))) {
                        Err(_) => "err:panic".to_string(),
                        Ok(Ok(())) => "ok".into(),
                        Ok(Err(_)) if ex.is_none() => "err:handler".into(),
                        Ok(Err(e)) => format!("err:{}", err_class(&e)),
                    }
                };
                let req = format!(
                    "C01 bmff data={} mut={} excl={} pre={} alg={} buf=4096",
                    hex(&s.bytes),
                    m.text(),
                    match &ex {
                        None => "err".to_string(),
                        Some(_) => ranges_str(&ex),
                    },
                    hex(pre),
                    alg
                );
                idx = Some(run.case(req, imp.clone()));
                run.nontrivial(format!("e2e:{tag}:{}", m.text()));
                run.count(&format!("model-e2e:bmff:{imp}"));
                let reader_verdict = if rep.success.iter().any(|c| c == "assertion.bmffHash.match") {
                    "ok"
                } else if rep.failure.iter().any(|c| c.starts_with("assertion.bmffHash.")) {
                    "err"
                } else {
                    "none"
                };
                if reader_verdict != "none" && !imp.starts_with(reader_verdict) {
                    run.fail(idx.unwrap(), "reader-verdict-differs", format!("{tag} {}: reader says {reader_verdict}, BmffHash::verify_stream_hash says {imp}", m.text()));
                }
                // the BMFF arm of verify_hash_binding (verdict + logged code), Bytes and Stream;
                // about every 7th case with the exclusion map emptied (`verify_self` -> malformed)
                let malformed = m.text().bytes().map(|b| b as usize).sum::<usize>() % 7 == 0;
                let Some(mut hh) = hash.to_assertion().ok().and_then(|a| BmffHash::from_assertion(&a).ok()) else { return };
                if malformed {
                    hh.exclusions_mut().clear();
                }
                let (vb, vs) = bind_impl(&hh, &s.format, &mutated, "bmffHash");
                let req2 = format!(
                    "C01 bmffv self={} data={} mut={} excl={} pre={} alg={} buf=4096",
                    if malformed { "malformed" } else { "ok" },
                    hex(&s.bytes),
                    m.text(),
                    match &ex {
                        None => "err".to_string(),
                        Some(_) => ranges_str(&ex),
                    },
                    hex(pre),
                    alg
                );
                let i2 = run.case(req2, vb.clone());
                run.count(&format!("model-e2e:bmffv:{}", vb.split('/').next().unwrap_or("")));
                if vb != vs {
                    run.fail(i2, "bytes-stream-differ", format!("{tag} {}: verify_hash_binding says {vb} on Bytes and {vs} on Stream", m.text()));
                }
                if !malformed && vb.starts_with("match") != (imp == "ok") {
                    run.fail(i2, "arm-verdict-differs", format!("{tag} {}: BmffHash::verify_stream_hash says {imp}, verify_hash_binding logs {vb}", m.text()));
                }
            }
            BindingInfo::Unknown => {}
        }
    }
    // the property oracle needs a case index to report against
    let mut fail = |run: &mut Run, class: String, detail: String| {
        let i = match idx {
            Some(i) => i,
            None => {
                let i = run.case(format!("C01 oracle asset={} kind={} mut={}", tag, s.label, m.text()), "oracle-only".into());
                idx = Some(i);
                i
            }
        };
        run.fail(i, &class, detail);
    };
    if rep.state.contains("PANIC") {
        fail(run, "panic".into(), format!("{tag} {}: reader panicked: {}", m.text(), rep.state));
    }
    if rep.accepted() && changed {
        if !confined {
            let class = format!("accepted-{kind}-{}", s.binding.tag());
            fail(run, class, format!("{tag} ({}) {}: reader state {} although the change is outside the declared exclusions {:?}", s.label, m.text(), rep.state, s.declared));
        } else if removal_confined && rep.json == s.base.json {
            run.count(&format!("e2e:removal-of-excluded-bytes-accepted:{}", s.binding.tag()));
        } else if rep.json != s.base.json && rolled_back(&s.base.json, &rep.json) {
            // the active manifest is now an *earlier* manifest of the signed store: the newest
            // manifest was dropped and the reader still says Valid
            fail(run, format!("active-manifest-rolled-back-{}", s.binding.tag()), format!("{tag} ({}) {}: accepted, but the active manifest is now an earlier manifest of the signed store (the update manifest is silently dropped); C2PA boxes / exclusions at {:?}", s.label, m.text(), s.manifest));
        } else if rep.json != s.base.json {
            let (a, b) = (s.base.json.as_bytes(), rep.json.as_bytes());
            let at = a.iter().zip(b.iter()).position(|(x, y)| x != y).unwrap_or(a.len().min(b.len()));
            let lo = at.saturating_sub(60);
            let snip = |t: &[u8]| String::from_utf8_lossy(&t[lo.min(t.len())..(at + 80).min(t.len())]).to_string();
            fail(run, format!("report-changed-{}", s.binding.tag()), format!("{tag} ({}) {}: accepted with a different report; store at {:?}; signed report ..{}.. now ..{}..", s.label, m.text(), s.manifest, snip(a), snip(b)));
        }
    }
    if !rep.accepted() && !rep.state.starts_with("Err") && rep.failure.is_empty() {
        // Invalid must come with a failure code (C04 composes on it)
        fail(run, "invalid-without-failure-code".into(), format!("{tag} {}: state {} without failure code", m.text(), rep.state));
    }
}

// ───────────────────────── BMFF: independent exclusion matcher, structural tampering ─────────────────────────

/// top-level boxes `(start, total length, type)` by the container rules alone (32-bit size,
/// `size == 1` → 64-bit largesize, `size == 0` → to the end of the file); `None` = not a box list
fn tl_boxes(b: &[u8]) -> Option<Vec<(usize, usize, [u8; 4])>> {
    let (mut p, mut out) = (0usize, vec![]);
    while p < b.len() {
        if p + 8 > b.len() {
            return None;
        }
        let sz = u32::from_be_bytes([b[p], b[p + 1], b[p + 2], b[p + 3]]) as u64;
        let ty = [b[p + 4], b[p + 5], b[p + 6], b[p + 7]];
        let len = match sz {
            0 => (b.len() - p) as u64,
            1 => {
                if p + 16 > b.len() {
                    return None;
                }
                u64::from_be_bytes(b[p + 8..p + 16].try_into().ok()?)
            }
            n => n,
        };
        if len < 8 || p as u64 + len > b.len() as u64 {
            return None;
        }
        out.push((p, len as usize, ty));
        p += len as usize;
    }
    Some(out)
}

/// Does the signed assertion declare the top-level box `bx` of `file` excluded *as a whole*?
/// Written from the assertion's wording, independently of `bmff_to_jumbf_exclusions`: the box
/// type is the (single-segment) xpath AND every stated constraint holds — exact length, version
/// and flags (bytes 8 and 9..12 of the box), and every data pattern lies **inside the box** and
/// equals the bytes there. Entries with a `subset` exclude only part of a box: not "as a whole".
fn declared_excluded(file: &[u8], bx: (usize, usize, [u8; 4]), excl: &[c2pa::assertions::ExclusionsMap]) -> bool {
    let (start, len, ty) = bx;
    let body = &file[start..start + len];
    excl.iter().any(|e| {
        let Some(name) = e.xpath.strip_prefix('/') else { return false };
        if name.contains('/') || name.as_bytes() != ty || e.subset.is_some() {
            return false;
        }
        if e.length.map(|l| l != len as u64).unwrap_or(false) {
            return false;
        }
        if let Some(v) = e.version {
            if len < 12 || body[8] != v {
                return false;
            }
        }
        if let Some(f) = &e.flags {
            if len < 12 || f.len() < 3 {
                return false;
            }
            let want = u32::from_be_bytes([0, f[0], f[1], f[2]]);
            let have = u32::from_be_bytes([0, body[9], body[10], body[11]]);
            let ok = if e.exact.unwrap_or(true) { want == have } else { (want | have) == want };
            if !ok {
                return false;
            }
        }
        if let Some(maps) = &e.data {
            for dm in maps {
                let Some(end) = (dm.offset as usize).checked_add(dm.value.len()) else { return false };
                if end > len || body[dm.offset as usize..end] != dm.value[..] {
                    return false;
                }
            }
        }
        true
    })
}

const C2PA_UUID: [u8; 16] = [0xd8, 0xfe, 0xc3, 0xd6, 0x1b, 0x0e, 0x48, 0x3c, 0x92, 0x97, 0x58, 0x28, 0x87, 0x7e, 0xc4, 0x81];

fn mk_box(ty: &[u8; 4], payload: &[u8]) -> Vec<u8> {
    let mut b = ((payload.len() + 8) as u32).to_be_bytes().to_vec();
    b.extend_from_slice(ty);
    b.extend_from_slice(payload);
    b
}

/// Small / odd boxes to add to a BMFF file: `uuid` boxes of every total length 8..=40 with an
/// arbitrary, a C2PA-prefixed and an almost-C2PA extended type; `free` / `skip` boxes; boxes whose
/// type equals an exclusion's xpath but that are otherwise unrelated; unknown types. Each is
/// also offered followed by an empty `free` box (a `uuid` box must not be the last thing: the
/// box-tree parser reads 16 bytes of extended type after every `uuid` header).
fn odd_boxes(rng: &mut Rng, thorough: bool) -> Vec<Vec<u8>> {
    let mut v: Vec<Vec<u8>> = vec![];
    for total in 8usize..=40 {
        let n = total - 8;
        let fill = rng.next() as u8;
        let arbitrary = vec![fill; n];
        let prefixed: Vec<u8> = (0..n).map(|i| if i < 16 { C2PA_UUID[i] } else { fill }).collect();
        let mut almost = prefixed.clone();
        if let Some(last) = almost.iter_mut().take(16).last() {
            *last ^= 1;
        }
        v.push(mk_box(b"uuid", &arbitrary));
        if thorough || total % 3 == 2 || (22..=25).contains(&total) {
            v.push(mk_box(b"uuid", &prefixed));
            v.push(mk_box(b"uuid", &almost));
        }
    }
    for n in [0usize, 1, 4, 9] {
        v.push(mk_box(b"free", &rng.bytes(n)));
        v.push(mk_box(b"skip", &rng.bytes(n)));
    }
    v.push(mk_box(b"mfra", &rng.bytes(5)));
    v.push(mk_box(b"ftyp", b"isom\0\0\0\0"));
    v.push(mk_box(b"fre2", &rng.bytes(3)));
    v.push(mk_box(b"UUID", &C2PA_UUID));
    v.push(mk_box(b"mdat", &rng.bytes(2)));
    let with_free: Vec<Vec<u8>> = v.iter().map(|b| [b.clone(), mk_box(b"free", &[])].concat()).collect();
    v.extend(with_free);
    v
}

/// Structural tampering of a BMFF-bound asset: every odd box appended after the last top-level
/// box, and (thorough / small assets: every; else the first and the last) inserted before each
/// top-level box. The resolver-level oracle runs on every resulting file; `check_mutation`
/// carries the property oracle.
fn bmff_structural(run: &mut Run, s: &Signed, rng: &mut Rng) {
    let BindingInfo::Bmff { hash, .. } = &s.info else { return };
    let Some(tl) = tl_boxes(&s.bytes) else {
        run.count("bmff-structural:signed-asset-not-a-box-list");
        return;
    };
    let thorough = run.thorough();
    let boxes = odd_boxes(rng, thorough);
    let mut at: Vec<usize> = vec![s.bytes.len()];
    if s.small {
        let inner: Vec<usize> = tl.iter().map(|b| b.0).filter(|p| *p > 0).collect();
        if thorough {
            at.extend(inner);
        } else {
            at.extend(inner.first().cloned());
            at.extend(inner.last().cloned());
        }
    }
    at.sort();
    at.dedup();
    for (k, bx) in boxes.iter().enumerate() {
        for &p in &at {
            // in the quick tier the inner boundaries get every 4th box
            if !thorough && p != s.bytes.len() && k % 4 != 0 {
                continue;
            }
            let m = if p == s.bytes.len() { Mutation::App(bx.clone()) } else { Mutation::Ins(p, bx.clone()) };
            let mutated = m.apply(&s.bytes);
            // resolver-level oracle: a whole top-level box that `bmff_to_jumbf_exclusions` leaves
            // out of the hash must be one the signed assertion declares excluded
            let hh = hash.as_ref();
            let mm = mutated.clone();
            if let Ok(Ok(ranges)) = guarded(std::panic::AssertUnwindSafe(|| hook::bmff_exclusions(&mut Cursor::new(mm), hh))) {
                if let Some(tl2) = tl_boxes(&mutated) {
                    run.count("bmff-structural:resolver-checked");
                    // model-level: the data constraint of the `/uuid` entry on every top-level
                    // `uuid` box (window of 64 bytes from the box start; patterns end before 64)
                    let uuid_entries: Vec<_> = hh.exclusions().iter().filter(|e| e.xpath == "/uuid").collect();
                    if let [e] = uuid_entries[..] {
                        if let (Some(maps), None, None, None, None) = (&e.data, &e.length, &e.version, &e.flags, &e.subset) {
                            if maps.iter().all(|d| d.offset as usize + d.value.len() <= 64) {
                                for b in tl2.iter().filter(|b| &b.2 == b"uuid") {
                                    let win = &mutated[b.0..(b.0 + 64).min(mutated.len())];
                                    let excluded = ranges.iter().any(|r| r.bmff_offset().is_none() && r.start() == b.0 as u64 && r.length() == b.1 as u64);
                                    let maps_s = maps.iter().map(|d| format!("{}:{}", d.offset, hex(&d.value))).collect::<Vec<_>>().join(",");
                                    run.case(format!("C01 bmx data={} start=0 maps={}", hex(win), maps_s), if excluded { "match".into() } else { "nomatch".to_string() });
                                    run.count(if excluded { "bmx:match" } else { "bmx:nomatch" });
                                }
                            }
                        }
                    }
                    for r in ranges.iter().filter(|r| r.bmff_offset().is_none()) {
                        if let Some(b) = tl2.iter().find(|b| b.0 as u64 == r.start() && b.1 as u64 == r.length()) {
                            if !declared_excluded(&mutated, *b, hh.exclusions()) {
                                let i = run.case(format!("C01 oracle asset={}:{} kind=bmff-resolver mut={}", s.binding.tag(), s.format, m.text()), "oracle-only".into());
                                run.fail(i, "bmff-excluded-box-not-declared", format!("{}:{} {}: bmff_to_jumbf_exclusions excludes the whole top-level box {:?} at {} (len {}) although it does not satisfy any exclusion of the signed assertion", s.binding.tag(), s.format, m.text(), String::from_utf8_lossy(&b.2), b.0, b.1));
                            }
                        }
                    }
                }
            }
            check_mutation(run, s, &m, false);
            run.count("bmff-structural:mutations");
        }
    }
}

/// the report after the mutation names as active manifest a manifest that the signed report
/// lists as a non-active one
fn rolled_back(base: &str, now: &str) -> bool {
    let (Ok(b), Ok(n)) = (serde_json::from_str::<serde_json::Value>(base), serde_json::from_str::<serde_json::Value>(now)) else { return false };
    let (Some(ba), Some(na)) = (b.get("active_manifest").and_then(|v| v.as_str()), n.get("active_manifest").and_then(|v| v.as_str())) else { return false };
    ba != na && b.get("manifests").and_then(|m| m.as_object()).map(|m| m.contains_key(na)).unwrap_or(false)
}

fn mutations_for(s: &Signed, rng: &mut Rng, thorough: bool, per_asset: usize) -> Vec<(Mutation, bool)> {
    let n = s.bytes.len();
    let mut out: Vec<(Mutation, bool)> = vec![];
    // structural boundaries: flips and sets right before / at / after, insert / delete / truncate at
    for &b in &s.bounds {
        for d in [-1i64, 0, 1] {
            let p = b as i64 + d;
            if p < 0 || p as usize >= n {
                continue;
            }
            let p = p as usize;
            out.push((Mutation::Flip(p, 1 << rng.below(8)), true));
            if thorough || d == 0 {
                let mut v = rng.next() as u8;
                if v == s.bytes[p] {
                    v = v.wrapping_add(1);
                }
                out.push((Mutation::Set(p, v), true));
            }
        }
        if b <= n {
            let k = rng.range(1, 4) as usize;
            out.push((Mutation::Ins(b, rng.bytes(k)), true));
            if b < n {
                out.push((Mutation::Del(b, (rng.range(1, 3) as usize).min(n - b)), true));
            }
            if b > 0 && b < n {
                out.push((Mutation::Trunc(b), true));
            }
        }
    }
    // well-formed small / odd segments of the container formats added at structural boundaries
    // (an empty PNG text chunk and a short `caBX` chunk, empty and truncated JPEG APP11 segments,
    // GIF comment / application extensions incl. a C2PA-like one, RIFF `C2PA` / `JUNK` chunks of
    // size 0, an empty BMFF `free` box): partial matches of what the handlers treat as "the
    // manifest" must not open an unhashed region
    let odd: Vec<Vec<u8>> = vec![
        vec![0, 0, 0, 0, b't', b'E', b'X', b't', 0x4f, 0xf1, 0x41, 0x28],
        vec![0, 0, 0, 1, b'c', b'a', b'B', b'X', 0x6a, 0, 0, 0, 0],
        vec![0xff, 0xeb, 0, 2],
        vec![0xff, 0xeb, 0, 8, 0x4a, 0x50, 0x02, 0x11, 0, 0],
        vec![0x21, 0xfe, 0],
        [&[0x21u8, 0xff, 0x0b][..], b"C2PA_GIF", &[1, 0, 0, 0][..]].concat(),
        [&b"C2PA"[..], &[0, 0, 0, 0][..]].concat(),
        [&b"JUNK"[..], &[0, 0, 0, 0][..]].concat(),
        mk_box(b"free", &[]),
    ];
    let odd_at: Vec<usize> = if s.small || s.bounds.len() <= 6 { s.bounds.clone() } else { [&s.bounds[..4], &s.bounds[s.bounds.len() - 2..]].concat() };
    for (k, &b) in odd_at.iter().enumerate() {
        for (j, o) in odd.iter().enumerate() {
            if thorough || (j + k) % 3 == 0 || b == n {
                out.push((Mutation::Ins(b, o.clone()), false));
            }
        }
    }
    out.push((Mutation::App(vec![0]), true));
    out.push((Mutation::App(rng.bytes(9)), true));
    out.push((Mutation::App(b"\x00\x00\x00\x00tEXtabcd".to_vec()), true));
    out.push((Mutation::Trunc(n - 1), true));
    if n > 16 {
        out.push((Mutation::Trunc(n - 9), true));
    }
    // positions
    if thorough && s.small {
        for p in 0..n {
            out.push((Mutation::Flip(p, 1 << rng.below(8)), p % 7 == 0));
            if p % 3 == 0 {
                let v = s.bytes[p].wrapping_add(rng.range(1, 255) as u8);
                out.push((Mutation::Set(p, v), false));
            }
        }
    } else {
        // stratified: equal strata over the file, extra weight outside the manifest store
        let strata = per_asset.max(1);
        for k in 0..strata {
            let lo = n * k / strata;
            let hi = (n * (k + 1) / strata).max(lo + 1).min(n);
            let p = lo + rng.below((hi - lo) as u64) as usize;
            out.push((Mutation::Flip(p, 1 << rng.below(8)), k % 2 == 0));
            let q = lo + rng.below((hi - lo) as u64) as usize;
            out.push((Mutation::Set(q, s.bytes[q].wrapping_add(rng.range(1, 255) as u8)), false));
        }
        let outside: Vec<usize> = (0..n).filter(|p| !in_ranges(&s.manifest, *p as u64)).collect();
        if !outside.is_empty() {
            for k in 0..strata {
                let p = outside[(outside.len() * k / strata + rng.below((outside.len() / strata).max(1) as u64) as usize).min(outside.len() - 1)];
                out.push((Mutation::Flip(p, 1 << rng.below(8)), k % 2 == 1));
            }
        }
        for _ in 0..strata / 4 + 1 {
            let p = rng.below(n as u64 + 1) as usize;
            let k = rng.range(1, 3) as usize;
            out.push((Mutation::Ins(p, rng.bytes(k)), false));
            let q = rng.below(n as u64) as usize;
            out.push((Mutation::Del(q, (rng.range(1, 4) as usize).min(n - q)), false));
        }
    }
    out
}

fn bindings_for(format: &str) -> Vec<Binding> {
    let bmff = ["mp4", "video/mp4", "image/avif", "image/heic", "avif", "heic", "mov", "m4a"].contains(&format);
    if bmff {
        vec![Binding::Bmff]
    } else {
        let mut v = vec![Binding::Data];
        if hook::box_hash_handler(format).is_some() && format != "c2pa" && format != "application/c2pa" {
            v.push(Binding::Box);
        }
        v
    }
}

fn e2e(run: &mut Run, rng: &mut Rng) {
    let thorough = run.thorough();
    // small generated assets, one or more per family
    let rounds = if thorough { 3 } else { 1 };
    let mut signed: Vec<Signed> = vec![];
    for round in 0..rounds {
        for fam in ec::ALL_FAMILIES {
            if fam == Family::Sidecar {
                continue; // a .c2pa file is the manifest store itself: no content to bind (C02)
            }
            let a = ec::gen_asset(fam, rng, None);
            let fmt = fmt_of(fam, a.fmt);
            for b in bindings_for(&fmt) {
                if let Some(s) = prepare(run, &format!("gen{round}:{}", a.desc), &fmt, &a.bytes, b, true) {
                    signed.push(s);
                }
            }
            if round == 0 && matches!(fam, Family::Png | Family::Riff) {
                if let Some(s) = prepare(run, &format!("gen{round}:{}", a.desc), &fmt, &a.bytes, Binding::Sidecar, true) {
                    signed.push(s);
                }
            }
            if round == 0 {
                if let Some(s) = prepare(run, &format!("gen{round}:{}", a.desc), &fmt, &a.bytes, Binding::Update, true) {
                    signed.push(s);
                }
            }
        }
    }
    // real fixtures
    for (format, file) in unsigned_sources() {
        let Ok(src) = std::fs::read(fixtures().join(file)) else { continue };
        for b in bindings_for(format) {
            if let Some(s) = prepare(run, file, format, &src, b, src.len() < 8000) {
                signed.push(s);
            }
        }
    }
    // debugging aid: restrict the end-to-end part to one `binding:format` combination
    if let Ok(only) = std::env::var("C01_ONLY") {
        signed.retain(|s| format!("{}:{}", s.binding.tag(), s.format) == only);
    }
    // the box-hash arm on formats without a handler / without box-hash support: both lookups
    // are propagated with `?` (the call fails, nothing is logged)
    for fmt in ["image/tiff", "audio/wav", "application/x-verif-unknown", "video/mp4"] {
        if hook::box_hash_handler(fmt).is_some() {
            continue;
        }
        let es = vec![Entry { names: vec!["X".into()], alg: Some("sha256".into()), pre: vec![0], excluded: None }];
        let calg = Some("sha256".to_string());
        let bh = to_box_hash(&es, &calg);
        let (vb, vs) = bind_impl(&bh, fmt, &[0u8], "boxesHash");
        let req = bh_request(&[0u8], None, &Some(vec![]), &es, &calg).replacen("C01 bh ", "C01 bhv handler=0 ", 1);
        let i = run.case(req, vb.clone());
        run.count(&format!("bhv:no-handler:{vb}"));
        if vb != vs {
            run.fail(i, "bytes-stream-differ", format!("{fmt}: verify_hash_binding says {vb} on Bytes and {vs} on Stream"));
        }
    }
    // baseline: the unmodified signed assets through the function-level verifiers (the `match`
    // verdicts and codes; the real-box-map oracle on an accepted asset)
    for s in signed.iter().filter(|s| s.small) {
        check_mutation(run, s, &Mutation::Id, true);
    }
    // replay of the update-manifest roll-back on BMFF (known finding): the update manifests live
    // in a C2PA `uuid` box of their own (the last one); flip the bytes around the JUMBF headers
    // of its first manifest (superbox type, description box, manifest type UUID)
    for s in signed.iter().filter(|s| s.binding == Binding::Update && bindings_for(&s.format) == vec![Binding::Bmff]) {
        if let Some((start, len)) = s.manifest.iter().filter(|(_, l)| *l > 256).max_by_key(|(a, _)| *a).cloned() {
            for off in 76..120u64 {
                if off < len {
                    check_mutation(run, s, &Mutation::Flip((start + off) as usize, 0x20), false);
                    run.count("replay:update-rollback-bmff");
                }
            }
        }
    }
    // F5 replay first: appended data under a box hash
    for s in signed.iter().filter(|s| s.binding == Binding::Box) {
        check_mutation(run, s, &Mutation::App(b"garbage".to_vec()), s.small);
        run.count("replay:F5-append-under-box-hash");
    }
    // BMFF: small / odd boxes added at the top level
    for s in signed.iter().filter(|s| matches!(s.info, BindingInfo::Bmff { .. })) {
        bmff_structural(run, s, rng);
    }
    let per_asset = if thorough { 160 } else { 28 };
    let model_budget = if thorough { 150 } else { 60 };
    for s in &signed {
        let muts = mutations_for(s, rng, thorough, per_asset);
        let mut used = 0usize;
        let cap = if thorough { usize::MAX } else if s.small { 420 } else { 200 };
        let step = (muts.len() / cap.max(1)).max(1);
        for (i, (m, want_model)) in muts.iter().enumerate() {
            if i % step != 0 {
                continue;
            }
            let with_model = *want_model && used < model_budget;
            let before = run.reqs.len();
            check_mutation(run, s, m, with_model);
            if run.reqs.len() > before && with_model {
                used += 1;
            }
        }
    }
    let kinds: std::collections::BTreeSet<String> = signed.iter().map(|s| format!("{}:{}", s.binding.tag(), s.format)).collect();
    run.notes.push(format!("signed format x binding combinations exercised: {}", kinds.into_iter().collect::<Vec<_>>().join(" ")));
    // every binding kind must be present, and every format family signed with its default binding
    for b in ["data", "box", "bmff", "sidecar", "update"] {
        run.obligations.insert(format!("binding-kind-exercised:{b}"), signed.iter().any(|s| s.binding.tag() == b));
    }
}

fn run(run: &mut Run, rng: &mut Rng) {
    run.rule = "non-trivial: the function-level verifier runs on a non-empty stream, or a mutated signed asset outside the manifest store reaches the hard-binding verifier (distinct by asset and mutation)".to_string();
    let thorough = run.thorough();
    let mut r1 = rng.fork();
    dh_function_level(run, &mut r1, if thorough { 60_000 } else { 4_000 });
    let mut r2 = rng.fork();
    bh_function_level(run, &mut r2, if thorough { 60_000 } else { 4_000 });
    let mut r3 = rng.fork();
    e2e(run, &mut r3);
}
