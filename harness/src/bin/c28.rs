//! C28 — no network access unless the configuration enables it.
//!
//! Every operation (read / sign / ingredient import + sign / edit with automatic parent) runs
//! against a `Context` whose HTTP resolver (sync and async) is a *recording* resolver with canned
//! answers, while a loopback listener on 127.0.0.1 records every request that does **not** go
//! through that resolver (all URLs of the run — manifest, OCSP responder of the generated signing
//! certificates, TSA — point at that listener, so a request that bypasses the resolver is seen,
//! never lost). Nothing leaves the loopback interface.
//!
//! Request lines (see lean/C2paModel/Model/C28.lean):
//!   C28 read mode=<sync|async> <settings> <env> a=<asset>
//!   C28 sign mode=… <settings> <env> tsa=<0|1> sr=<signer responders> ss=<stapled> a=<asset;asset…|>
//! settings: rf of sf so at sk sc va di; env: mr or tr (ok|nf|err);
//! asset: `<embedded claims|-|!>|<hex xmp url|->|<remote claims|->|<parent><explicit><urlcrate><uriok>`
//! (urlcrate: the `url` crate parses the reference as http(s) URL — the model consults it only for
//! hosts that need IPv6 / percent-decoding / IDNA; uriok: `http::Request::get(reference)` builds),
//! claim: `r<responders>s<stapled>c<certificate id>[a][p][t]` (a: has certificate-status assertions,
//! p: one of them is usable for its own certificate, t: time-stamped).
//!   C28 quiet kind=<read|import> mode=… n=<fixture file>      (everything disabled; model: `trace=-`)
//!   C28 identity mode=… <settings> <env> k=<did:web resolutions measured with decoding on> n=<fixture>
//! Reply: `res=<class> [ing=<states>] trace=<m:<hexurl>|o|t|T,…|->`.

use std::{
    collections::BTreeSet,
    io::{Cursor, Read, Write},
    net::TcpListener,
    path::PathBuf,
    process::Command,
    sync::{
        atomic::{AtomicU8, Ordering},
        Arc, Mutex,
    },
};

use async_trait::async_trait;
use c2pa::{
    http::{
        http::{Request, Response},
        AsyncHttpResolver, HttpResolverError, SyncHttpResolver,
    },
    AsyncSigner, Builder, BuilderIntent, Context, Reader, Signer, SigningAlg,
};
use vh::common::{fixtures, guarded, main_with, scratch, Rng, Run};
use vh::sign::definition;

fn main() {
    main_with("C28", run);
}

// ------------------------------------------------------------------ transport

#[derive(Clone, Debug, PartialEq)]
enum Ev {
    /// through the Context's resolver: method, uri
    Ctx(String, String),
    /// reached the loopback listener directly: request line
    Direct(String),
}

type Log = Arc<Mutex<Vec<Ev>>>;

/// reply modes: 0 ok, 1 not found, 2 transport error
struct Modes {
    manifest: AtomicU8,
    ocsp: AtomicU8,
    tsa: AtomicU8,
}

struct Shared {
    log: Log,
    modes: Modes,
    base: String,
    /// manifest URL -> bytes served with 200
    manifests: Mutex<Vec<(String, Vec<u8>)>>,
    /// scratch directory with the PKI material
    dir: PathBuf,
}

/// RFC 3161 reply for the DER `TimeStampReq` in `body` (openssl ts -reply); one at a time.
fn tsa_reply(dir: &std::path::Path, body: &[u8]) -> Option<Vec<u8>> {
    static LOCK: Mutex<()> = Mutex::new(());
    let _g = LOCK.lock().unwrap_or_else(|e| e.into_inner());
    std::fs::write(dir.join("q.tsq"), body).ok()?;
    let _ = std::fs::remove_file(dir.join("r.tsr"));
    let st = Command::new("openssl")
        .args(["ts", "-reply", "-config", "tsa.cnf", "-queryfile", "q.tsq", "-out", "r.tsr", "-chain", "tsa.chain.pem"])
        .current_dir(dir)
        .output()
        .ok()?;
    if !st.status.success() {
        return None;
    }
    std::fs::read(dir.join("r.tsr")).ok()
}

#[derive(Clone)]
struct Recorder(Arc<Shared>);

impl Recorder {
    fn answer(&self, request: Request<Vec<u8>>) -> Result<Response<Box<dyn Read>>, HttpResolverError> {
        let sh = &self.0;
        let uri = request.uri().to_string();
        sh.log.lock().unwrap_or_else(|e| e.into_inner()).push(Ev::Ctx(request.method().to_string(), uri.clone()));
        let path = uri.strip_prefix(&sh.base).or_else(|| {
            // https / upper-case variants of the same authority
            uri.split_once("://").and_then(|(_, r)| r.find('/').map(|i| &r[i..]))
        });
        let (mode, body): (u8, Vec<u8>) = match path {
            Some(p) if p.starts_with("/m/") => {
                let m = sh.manifests.lock().unwrap_or_else(|e| e.into_inner());
                match m.iter().find(|(u, _)| u.eq_ignore_ascii_case(&uri)) {
                    Some((_, b)) => (sh.modes.manifest.load(Ordering::SeqCst), b.clone()),
                    None => (1, vec![]),
                }
            }
            Some(p) if p.starts_with("/ocsp") => match sh.modes.ocsp.load(Ordering::SeqCst) {
                // 3: a valid "good" response for the aia1 certificate (only while building one asset)
                3 => (0, std::fs::read(sh.dir.join("aia1.ocsp.der")).unwrap_or_default()),
                m => (m, b"not an ocsp response".to_vec()),
            },
            Some(p) if p.starts_with("/tsa") => match sh.modes.tsa.load(Ordering::SeqCst) {
                0 => match tsa_reply(&sh.dir, request.body()) {
                    Some(r) => {
                        return Ok(Response::builder()
                            .status(200)
                            .header("content-type", "application/timestamp-reply")
                            .header("content-length", r.len().to_string())
                            .body(Box::new(Cursor::new(r)) as Box<dyn Read>)
                            .unwrap())
                    }
                    None => (2, vec![]),
                },
                m => (m, vec![]),
            },
            _ => (1, vec![]),
        };
        match mode {
            0 => Ok(Response::builder()
                .status(200)
                .header("content-length", body.len().to_string())
                .body(Box::new(Cursor::new(body)) as Box<dyn Read>)
                .unwrap()),
            1 => Ok(Response::builder()
                .status(404)
                .header("content-length", "0")
                .body(Box::new(Cursor::new(Vec::new())) as Box<dyn Read>)
                .unwrap()),
            _ => Err(HttpResolverError::Io(std::io::Error::new(
                std::io::ErrorKind::ConnectionRefused,
                "verif: canned transport error",
            ))),
        }
    }
}

impl SyncHttpResolver for Recorder {
    fn http_resolve(&self, request: Request<Vec<u8>>) -> Result<Response<Box<dyn Read>>, HttpResolverError> {
        self.answer(request)
    }
}

#[async_trait]
impl AsyncHttpResolver for Recorder {
    async fn http_resolve_async(&self, request: Request<Vec<u8>>) -> Result<Response<Box<dyn Read>>, HttpResolverError> {
        self.answer(request)
    }
}

/// Loopback listener: records the request line of everything that arrives and answers 404
/// (or drops the connection when the TSA mode is "transport error").
fn loop_server(sh_log: Log, tsa_mode: Arc<AtomicU8>, dir: PathBuf) -> u16 {
    let l = TcpListener::bind("127.0.0.1:0").expect("bind loopback");
    let port = l.local_addr().unwrap().port();
    std::thread::spawn(move || {
        for c in l.incoming() {
            let Ok(mut c) = c else { continue };
            let mut buf = Vec::new();
            let mut tmp = [0u8; 4096];
            let _ = c.set_read_timeout(Some(std::time::Duration::from_millis(2000)));
            loop {
                match c.read(&mut tmp) {
                    Ok(0) | Err(_) => break,
                    Ok(n) => {
                        buf.extend_from_slice(&tmp[..n]);
                        if let Some(p) = buf.windows(4).position(|w| w == b"\r\n\r\n") {
                            let head = String::from_utf8_lossy(&buf[..p]).to_string();
                            let cl = head
                                .lines()
                                .find_map(|l| {
                                    l.to_ascii_lowercase().strip_prefix("content-length:").map(|v| v.trim().parse::<usize>().unwrap_or(0))
                                })
                                .unwrap_or(0);
                            if buf.len() >= p + 4 + cl {
                                break;
                            }
                        }
                    }
                }
            }
            if buf.is_empty() {
                continue;
            }
            let first = String::from_utf8_lossy(&buf).lines().next().unwrap_or("").to_string();
            sh_log.lock().unwrap_or_else(|e| e.into_inner()).push(Ev::Direct(first));
            let mode = tsa_mode.load(Ordering::SeqCst);
            let is_tsa = String::from_utf8_lossy(&buf).starts_with("POST /tsa ");
            if mode == 2 {
                drop(c);
            } else if mode == 0 && is_tsa {
                let body = buf.windows(4).position(|w| w == b"\r\n\r\n").map(|p| buf[p + 4..].to_vec()).unwrap_or_default();
                match tsa_reply(&dir, &body) {
                    Some(r) => {
                        let _ = c.write_all(
                            format!("HTTP/1.1 200 OK\r\nContent-Type: application/timestamp-reply\r\nContent-Length: {}\r\nConnection: close\r\n\r\n", r.len()).as_bytes(),
                        );
                        let _ = c.write_all(&r);
                    }
                    None => drop(c),
                }
            } else {
                let _ = c.write_all(b"HTTP/1.1 404 Not Found\r\nContent-Length: 0\r\nConnection: close\r\n\r\n");
            }
        }
    });
    port
}

// ------------------------------------------------------------------ PKI (openssl CLI, scratch dir)

const GEN: &str = r#"
set -e
PORT=$1
mk() { openssl ecparam -name prime256v1 -genkey -noout -out $1.key 2>/dev/null; }
mk root
cat > root.cnf <<E2
[req]
distinguished_name=dn
x509_extensions=v3
prompt=no
[dn]
C=US
O=Verif Test Root CA
CN=Verif Root CA
[v3]
basicConstraints=critical,CA:TRUE
keyUsage=critical,keyCertSign,cRLSign
subjectKeyIdentifier=hash
E2
openssl req -new -x509 -key root.key -sha256 -days 3650 -config root.cnf -out root.crt
mk int
cat > int.cnf <<E2
[req]
distinguished_name=dn
prompt=no
[dn]
C=US
O=Verif Test Intermediate CA
CN=Verif Intermediate CA
[v3]
basicConstraints=critical,CA:TRUE,pathlen:0
keyUsage=critical,keyCertSign,cRLSign
subjectKeyIdentifier=hash
authorityKeyIdentifier=keyid
E2
openssl req -new -key int.key -config int.cnf -out int.csr
openssl x509 -req -in int.csr -CA root.crt -CAkey root.key -CAcreateserial -sha256 -days 3650 -extfile int.cnf -extensions v3 -out int.crt 2>/dev/null
for ee in aia1 aia2 plain; do
mk $ee
openssl pkcs8 -topk8 -nocrypt -in $ee.key -out $ee.pk8
cat > $ee.cnf <<E2
[req]
distinguished_name=dn
prompt=no
[dn]
C=US
O=Verif Test Signing Cert
CN=Verif Signer $ee
[v3]
basicConstraints=critical,CA:FALSE
keyUsage=critical,digitalSignature,nonRepudiation
extendedKeyUsage=critical,emailProtection
subjectKeyIdentifier=hash
authorityKeyIdentifier=keyid
E2
if [ $ee = aia1 ]; then echo "authorityInfoAccess=OCSP;URI:http://127.0.0.1:$PORT/ocsp/" >> $ee.cnf; fi
if [ $ee = aia2 ]; then echo "authorityInfoAccess=OCSP;URI:http://127.0.0.1:$PORT/ocsp/,OCSP;URI:http://127.0.0.1:$PORT/ocsp2/" >> $ee.cnf; fi
openssl req -new -key $ee.key -config $ee.cnf -out $ee.csr
openssl x509 -req -in $ee.csr -CA int.crt -CAkey int.key -CAcreateserial -sha256 -days 3650 -extfile $ee.cnf -extensions v3 -out $ee.crt 2>/dev/null
cat $ee.crt int.crt > $ee.chain.pem
done
# time-stamp authority (openssl ts) used for the "TSA answers" transport mode
mk tsa
cat > tsa.cnf <<E2
[req]
distinguished_name=dn
prompt=no
[dn]
C=US
O=Verif Test TSA
CN=Verif TSA
[v3]
basicConstraints=critical,CA:FALSE
keyUsage=critical,digitalSignature
extendedKeyUsage=critical,timeStamping
subjectKeyIdentifier=hash
authorityKeyIdentifier=keyid
[tsa]
default_tsa = tsa1
[tsa1]
dir = .
serial = ./tsaserial
crypto_device = builtin
signer_cert = ./tsa.crt
certs = ./tsa.chain.pem
signer_key = ./tsa.key
signer_digest = sha256
default_policy = 1.2.3.4.1
other_policies = 1.2.3.4.2
digests = sha256, sha384, sha512
accuracy = secs:1
ordering = no
tsa_name = no
ess_cert_id_chain = no
ess_cert_id_alg = sha256
E2
openssl req -new -key tsa.key -config tsa.cnf -out tsa.csr
openssl x509 -req -in tsa.csr -CA int.crt -CAkey int.key -CAcreateserial -sha256 -days 3650 -extfile tsa.cnf -extensions v3 -out tsa.crt 2>/dev/null
cat tsa.crt int.crt > tsa.chain.pem
echo 01 > tsaserial
# one valid OCSP response (good) for the aia1 certificate, signed by a delegated responder
mk ocsp
cat > ocsp.cnf <<E2
[req]
distinguished_name=dn
prompt=no
[dn]
C=US
O=Verif Test OCSP Responder
CN=Verif OCSP
[v3]
basicConstraints=critical,CA:FALSE
keyUsage=critical,digitalSignature
extendedKeyUsage=critical,OCSPSigning
subjectKeyIdentifier=hash
authorityKeyIdentifier=keyid
noCheck=ignored
E2
openssl req -new -key ocsp.key -config ocsp.cnf -out ocsp.csr
openssl x509 -req -in ocsp.csr -CA int.crt -CAkey int.key -CAcreateserial -sha256 -days 3650 -extfile ocsp.cnf -extensions v3 -out ocsp.crt 2>/dev/null
ser=$(openssl x509 -in aia1.crt -noout -serial | cut -d= -f2)
exp=$(date -u -d "$(openssl x509 -in aia1.crt -noout -enddate | cut -d= -f2)" +%y%m%d%H%M%SZ)
printf 'V\t%s\t\t%s\tunknown\t/C=US/O=Verif Test Signing Cert/CN=Verif Signer aia1\n' "$exp" "$ser" > index.txt
openssl ocsp -issuer int.crt -cert aia1.crt -reqout aia1.req.der -no_nonce
openssl ocsp -index index.txt -CA int.crt -rsigner ocsp.crt -rkey ocsp.key -reqin aia1.req.der -respout aia1.ocsp.der -ndays 3650 >/dev/null 2>&1
test -s aia1.ocsp.der
"#;

/// (name, OCSP responders named by the certificate)
const CERTS: [(&str, usize); 3] = [("aia1", 1), ("aia2", 2), ("plain", 0)];

struct Pki {
    dir: PathBuf,
}

impl Pki {
    fn new(dir: PathBuf, port: u16) -> Result<Pki, String> {
        std::fs::write(dir.join("gen.sh"), GEN).map_err(|e| e.to_string())?;
        let st = Command::new("bash").arg("gen.sh").arg(port.to_string()).current_dir(&dir).output().map_err(|e| e.to_string())?;
        if !st.status.success() {
            return Err(format!("openssl: {}", String::from_utf8_lossy(&st.stderr)));
        }
        Ok(Pki { dir })
    }

    /// stapled: 0 nothing, 1 bytes that are no OCSP response, 2 the valid "good" response for aia1
    fn signer(&self, cert: usize, tsa: Option<String>, stapled: u8) -> TestSigner {
        let n = CERTS[cert].0;
        let chain = std::fs::read(self.dir.join(format!("{n}.chain.pem"))).unwrap();
        let key = std::fs::read(self.dir.join(format!("{n}.pk8"))).unwrap();
        TestSigner {
            inner: c2pa::create_signer::from_keys(&chain, &key, SigningAlg::Es256, tsa).expect("signer"),
            ocsp: match stapled {
                0 => None,
                1 => Some(b"verif: stapled bytes, not a usable OCSP response".to_vec()),
                _ => Some(std::fs::read(self.dir.join("aia1.ocsp.der")).unwrap_or_default()),
            },
        }
    }
}

/// Public-API signer: delegates to the SDK's own signer; optionally staples bytes as OCSP value.
/// `send_timestamp_request` is the trait's default implementation.
struct TestSigner {
    inner: Box<dyn Signer + Send + Sync>,
    ocsp: Option<Vec<u8>>,
}

impl Signer for TestSigner {
    fn sign(&self, data: &[u8]) -> c2pa::Result<Vec<u8>> {
        self.inner.sign(data)
    }
    fn alg(&self) -> SigningAlg {
        self.inner.alg()
    }
    fn certs(&self) -> c2pa::Result<Vec<Vec<u8>>> {
        self.inner.certs()
    }
    fn reserve_size(&self) -> usize {
        self.inner.reserve_size() + self.ocsp.as_ref().map_or(0, |o| o.len() + 64)
    }
    fn time_authority_url(&self) -> Option<String> {
        self.inner.time_authority_url()
    }
    fn ocsp_val(&self) -> Option<Vec<u8>> {
        self.ocsp.clone()
    }
}

struct AsyncTestSigner(TestSigner);

#[async_trait]
impl AsyncSigner for AsyncTestSigner {
    async fn sign(&self, data: Vec<u8>) -> c2pa::Result<Vec<u8>> {
        self.0.inner.sign(&data)
    }
    fn alg(&self) -> SigningAlg {
        self.0.inner.alg()
    }
    fn certs(&self) -> c2pa::Result<Vec<Vec<u8>>> {
        self.0.inner.certs()
    }
    fn reserve_size(&self) -> usize {
        Signer::reserve_size(&self.0)
    }
    fn time_authority_url(&self) -> Option<String> {
        self.0.inner.time_authority_url()
    }
    async fn ocsp_val(&self) -> Option<Vec<u8>> {
        self.0.ocsp.clone()
    }
}

// ------------------------------------------------------------------ configuration space

#[derive(Clone, Copy, Debug, PartialEq, Eq, Hash, PartialOrd, Ord)]
struct S {
    rf: bool,
    of: bool,
    /// 0 none, 1 active, 2 all
    sf: u8,
    /// 0 none, 1 false, 2 true
    so: u8,
    at: bool,
    sk: bool,
    /// fetch_scope = parent
    scp: bool,
    va: bool,
    /// core.decode_identity_assertions
    di: bool,
}

impl S {
    /// the SDK's defaults
    fn default() -> S {
        S { rf: true, of: false, sf: 0, so: 0, at: false, sk: true, scp: false, va: true, di: true }
    }
    fn json(&self) -> String {
        let mut b = serde_json::json!({"auto_timestamp_assertion": {"enabled": self.at, "skip_existing": self.sk, "fetch_scope": if self.scp {"parent"} else {"all"}}});
        if self.sf != 0 {
            b["certificate_status_fetch"] = serde_json::json!(if self.sf == 1 { "active" } else { "all" });
        }
        if self.so != 0 {
            b["certificate_status_should_override"] = serde_json::json!(self.so == 2);
        }
        serde_json::json!({"core": {"decode_identity_assertions": self.di}, "verify": {"remote_manifest_fetch": self.rf, "ocsp_fetch": self.of, "verify_after_sign": self.va}, "builder": b}).to_string()
    }
    fn line(&self) -> String {
        format!(
            "rf={} of={} sf={} so={} at={} sk={} sc={} va={} di={}",
            self.rf as u8,
            self.of as u8,
            ["n", "a", "l"][self.sf as usize],
            ["-", "0", "1"][self.so as usize],
            self.at as u8,
            self.sk as u8,
            if self.scp { "p" } else { "a" },
            self.va as u8,
            self.di as u8
        )
    }
}

#[derive(Clone, Copy, Debug, PartialEq, Eq, Hash, PartialOrd, Ord)]
struct EnvM {
    mr: u8,
    or: u8,
    tr: u8,
}

impl EnvM {
    fn default() -> EnvM {
        EnvM { mr: 0, or: 1, tr: 1 }
    }
    fn line(&self) -> String {
        let n = ["ok", "nf", "err"];
        format!("mr={} or={} tr={}", n[self.mr as usize], n[self.or as usize], n[self.tr as usize])
    }
}

#[derive(Clone, Copy, Debug, PartialEq, Eq, Hash, PartialOrd, Ord)]
struct Sg {
    tsa: bool,
    cert: usize,
    /// 0 nothing stapled, 1 stapled but unusable, 2 stapled and usable
    stapled: u8,
    /// None: a signer object handed to `sign`; Some(t): the signer the Context builds from
    /// `signer.local` + `cawg_x509_signer.local` settings, t = `cawg_x509_signer.local.tsa_url` is set
    cawg: Option<bool>,
}

#[derive(Clone, Copy, Debug, PartialEq, Eq, Hash, PartialOrd, Ord)]
enum Op {
    Read,
    /// sign a plain source, no ingredient
    Sign,
    /// add_ingredient_from_stream(asset) (componentOf), then sign a plain source
    Import { explicit: bool },
    /// two ingredients, then sign
    Import2,
    /// intent Edit with the asset as source: the SDK adds it as parent ingredient
    Edit,
    /// sign a plain source with the signer the Context builds from its settings
    /// (`signer.local` + `cawg_x509_signer.local`), `Builder::save_to_stream`
    SignSettings,
}

struct Asset {
    name: String,
    fmt: &'static str,
    bytes: Arc<Vec<u8>>,
    /// model description of the embedded store (`-` absent)
    emb: String,
    xmp: Option<String>,
    /// model description of the store served at the URL
    rem: String,
}

impl Asset {
    /// an embedded manifest store is present (loadable or not)
    fn has_embedded(&self) -> bool {
        self.emb != "-"
    }
    fn valid_remote(&self) -> bool {
        // independent statement: the reference is an absolute http(s) URL
        self.xmp.as_ref().is_some_and(|u| url::Url::parse(u).is_ok_and(|p| p.scheme() == "http" || p.scheme() == "https"))
    }
    /// `http::Request::get(reference)` can be built; the URI as the request will show it
    fn request_uri(&self) -> Option<String> {
        self.xmp.as_ref().and_then(|u| Request::get(u.as_str()).body(()).ok()).map(|r| r.uri().to_string())
    }
    /// independent of the `url` crate: after trimming C0 controls / space and dropping tab, LF, CR
    /// the reference starts with `http:` or `https:` (ASCII case-insensitive)
    fn looks_http(&self) -> bool {
        self.xmp.as_ref().is_some_and(|u| {
            let s: String = u.trim_matches(|c: char| c <= ' ').chars().filter(|c| !matches!(c, '\t' | '\n' | '\r')).collect::<String>().to_ascii_lowercase();
            s.starts_with("http:") || s.starts_with("https:")
        })
    }
    fn model(&self, parent: bool, explicit: bool) -> String {
        format!(
            "{}|{}|{}|{}{}{}{}",
            self.emb,
            self.xmp.as_ref().map_or("-".to_string(), |u| hex::encode(u.as_bytes())),
            self.rem,
            parent as u8,
            explicit as u8,
            (self.xmp.is_none() || self.valid_remote()) as u8,
            (self.xmp.is_none() || self.request_uri().is_some()) as u8
        )
    }
    /// could any setting make this asset cause a request
    fn network_capable(&self) -> bool {
        self.valid_remote() || self.emb.contains("r1") || self.emb.contains("r2") || self.rem.contains("r1") || self.rem.contains("r2")
    }
}

fn claim(cert: usize, stapled: u8) -> String {
    format!("r{}s{}c{}", CERTS[cert].1, stapled, cert)
}

// ------------------------------------------------------------------ running one case

struct World {
    sh: Arc<Shared>,
    pki: Pki,
    src_jpg: Arc<Vec<u8>>,
    src_png: Arc<Vec<u8>>,
    rt: tokio::runtime::Runtime,
    /// reply mode of the loopback listener for /tsa
    listener_tsa: Arc<AtomicU8>,
    root_pem: String,
}

impl World {
    fn ctx(&self, s: &S) -> Context {
        // the test root is a trust anchor, so that certificates, the OCSP responder and the TSA of
        // the test PKI validate as they would under a real trust list
        let mut j: serde_json::Value = serde_json::from_str(&s.json()).expect("json");
        j["trust"] = serde_json::json!({"trust_anchors": self.root_pem});
        Context::new()
            .with_settings(j.to_string().as_str())
            .expect("settings")
            .with_resolver(Recorder(self.sh.clone()))
            .with_resolver_async(Recorder(self.sh.clone()))
    }
    fn set_env(&self, e: &EnvM) {
        self.sh.modes.manifest.store(e.mr, Ordering::SeqCst);
        self.sh.modes.ocsp.store(e.or, Ordering::SeqCst);
        self.sh.modes.tsa.store(e.tr, Ordering::SeqCst);
    }
    fn drain(&self) -> Vec<Ev> {
        self.sh.log.lock().unwrap_or_else(|e| e.into_inner()).drain(..).collect()
    }
    fn tsa_url(&self) -> String {
        format!("{}/tsa", self.sh.base)
    }
    fn src(&self, fmt: &str) -> Arc<Vec<u8>> {
        if fmt == "image/png" {
            self.src_png.clone()
        } else {
            self.src_jpg.clone()
        }
    }
}

fn def_no_actions(fmt: &str) -> String {
    serde_json::json!({"title": "c28", "format": fmt, "claim_generator_info": [{"name": "verif-harness", "version": "0.1"}]}).to_string()
}

fn err_class(e: &c2pa::Error) -> String {
    match e {
        c2pa::Error::RemoteManifestUrl(u) => format!("err:RemoteManifestUrl:{}", hex::encode(u.as_bytes())),
        c2pa::Error::RemoteManifestFetch(_) => "err:RemoteManifestFetch".into(),
        c2pa::Error::JumbfNotFound => "err:JumbfNotFound".into(),
        c2pa::Error::TooManyManifestStores => "err:Embedded".into(),
        c2pa::Error::AssertionEncoding(_) => "err:AssertionEncoding".into(),
        c2pa::Error::HttpError(_) => "err:HttpError".into(),
        c2pa::Error::OtherError(m) if m.to_string().starts_with("timestamp token not found") => "err:TimestampAssertion".into(),
        other => {
            let d = format!("{other:?}");
            if d.starts_with("TimeStampError") || d.starts_with("CoseError(TimeStamp") || d.starts_with("CoseTimeStamp") {
                "err:TimestampSigner".into()
            } else {
                format!("err:other:{}", d.chars().take_while(|c| c.is_ascii_alphanumeric()).collect::<String>())
            }
        }
    }
}

fn ing_state(i: &c2pa::Ingredient, a: &Asset) -> String {
    if i.active_manifest().is_some() {
        return "valid".into();
    }
    let inaccessible = i.validation_status().and_then(|st| st.iter().find(|s| s.code() == "manifest.inaccessible"));
    match inaccessible {
        Some(s) => match (s.url(), &a.xmp) {
            (Some(u), Some(x)) if u == x => format!("inaccessible:{}", hex::encode(u.as_bytes())),
            _ => "inaccessible:?".into(),
        },
        // validation results without an active manifest: the load failed in some other way
        None if i.validation_results().is_some() => "failed".into(),
        None => "none".into(),
    }
}

struct Outcome {
    res: String,
    ings: Vec<String>,
}

fn exec(w: &World, op: Op, is_async: bool, s: &S, sg: &Sg, assets: &[&Asset]) -> c2pa::Result<Outcome> {
    let ctx = w.ctx(s);
    match op {
        Op::Read => {
            let a = assets[0];
            let cur = Cursor::new(a.bytes.as_ref().clone());
            let r = if is_async {
                w.rt.block_on(Reader::from_context(ctx).with_stream_async(a.fmt, cur))
            } else {
                Reader::from_context(ctx).with_stream(a.fmt, cur)
            };
            Ok(Outcome { res: r.map(|_| "ok".to_string()).unwrap_or_else(|e| err_class(&e)), ings: vec![] })
        }
        Op::SignSettings => {
            let pem = |n: &str| std::fs::read_to_string(w.pki.dir.join(n)).unwrap_or_default();
            let local = |cert: usize, tsa: bool| {
                let n = CERTS[cert].0;
                let mut l = serde_json::json!({"alg": "es256", "sign_cert": pem(&format!("{n}.chain.pem")), "private_key": pem(&format!("{n}.pk8"))});
                if tsa {
                    l["tsa_url"] = serde_json::json!(w.tsa_url());
                }
                serde_json::json!({ "local": l })
            };
            let mut j: serde_json::Value = serde_json::from_str(&s.json()).expect("json");
            j["trust"] = serde_json::json!({"trust_anchors": w.root_pem});
            j["signer"] = local(sg.cert, sg.tsa);
            j["cawg_x509_signer"] = local(2, sg.cawg == Some(true));
            let ctx = Context::new()
                .with_settings(j.to_string().as_str())?
                .with_resolver(Recorder(w.sh.clone()))
                .with_resolver_async(Recorder(w.sh.clone()));
            let fmt = "image/jpeg";
            let mut b = Builder::from_context(ctx).with_definition(definition("c28", fmt).as_str())?;
            let mut out = Cursor::new(Vec::new());
            let mut input = Cursor::new(w.src(fmt).as_ref().clone());
            let r = b.save_to_stream(fmt, &mut input, &mut out);
            Ok(Outcome { res: r.map(|_| "ok".to_string()).unwrap_or_else(|e| err_class(&e)), ings: vec![] })
        }
        Op::Sign | Op::Import { .. } | Op::Import2 | Op::Edit => {
            let fmt = if op == Op::Edit { assets[0].fmt } else { "image/jpeg" };
            let def = if op == Op::Edit { def_no_actions(fmt) } else { definition("c28", fmt) };
            let mut b = Builder::from_context(ctx).with_definition(def.as_str())?;
            let mut ings = vec![];
            let explicit = matches!(op, Op::Import { explicit: true });
            if matches!(op, Op::Import { .. } | Op::Import2) {
                for a in assets {
                    let json = serde_json::json!({"title": a.name, "relationship": "componentOf"}).to_string();
                    let mut cur = Cursor::new(a.bytes.as_ref().clone());
                    let (state, label) = {
                        let i = if is_async {
                            w.rt.block_on(b.add_ingredient_from_stream_async(json, a.fmt, &mut cur))?
                        } else {
                            b.add_ingredient_from_stream(json, a.fmt, &mut cur)?
                        };
                        (ing_state(i, a), i.active_manifest().map(|s| s.to_string()))
                    };
                    ings.push(state);
                    if explicit {
                        if let Some(l) = label {
                            b.add_timestamp(l);
                        }
                    }
                }
            }
            let source = if op == Op::Edit {
                b.set_intent(BuilderIntent::Edit);
                assets[0].bytes.clone()
            } else {
                w.src(fmt)
            };
            let tsa = if sg.tsa { Some(w.tsa_url()) } else { None };
            let signer = w.pki.signer(sg.cert, tsa, sg.stapled);
            let mut out = Cursor::new(Vec::new());
            let mut input = Cursor::new(source.as_ref().clone());
            let r = if is_async {
                let signer = AsyncTestSigner(signer);
                w.rt.block_on(b.sign_async(&signer, fmt, &mut input, &mut out))
            } else {
                b.sign(&signer, fmt, &mut input, &mut out)
            };
            if op == Op::Edit {
                ings = b.definition.ingredients.iter().map(|i| ing_state(i, assets[0])).collect();
            }
            Ok(Outcome { res: r.map(|_| "ok".to_string()).unwrap_or_else(|e| err_class(&e)), ings })
        }
    }
}

/// like `ev_token`, but a request whose URI is exactly what `http::Request::get(reference)` makes
/// of the reference of one of the operation's assets is the manifest request for that reference
/// (references that do not look like `…/m/…`: `http:host`, userinfo, other hosts)
fn ev_token_for(w: &World, e: &Ev, assets: &[&Asset]) -> String {
    if let Ev::Ctx(_, uri) = e {
        for a in assets {
            if a.xmp.is_some() && a.request_uri().as_deref() == Some(uri.as_str()) {
                return format!("m:{}", hex::encode(a.xmp.as_ref().unwrap().to_ascii_lowercase().as_bytes()));
            }
        }
    }
    ev_token(w, e)
}

fn ev_token(w: &World, e: &Ev) -> String {
    match e {
        Ev::Ctx(_, uri) => {
            let path = uri.split_once("://").and_then(|(_, r)| r.find('/').map(|i| &r[i..])).unwrap_or("");
            if path.starts_with("/m/") {
                // the model prints the URL of the reference; the request is compared to it case-insensitively in the scheme
                format!("m:{}", hex::encode(uri.to_ascii_lowercase().as_bytes()))
            } else if path.starts_with("/ocsp") {
                "o".into()
            } else if path.starts_with("/tsa") {
                "t".into()
            } else if path.ends_with("/did.json") {
                "d".into()
            } else {
                format!("x:{}", hex::encode(uri.as_bytes()))
            }
        }
        Ev::Direct(line) => {
            if line.starts_with("POST /tsa ") {
                "T".into()
            } else {
                format!("X:{}", hex::encode(line.as_bytes()))
            }
        }
    }
}

#[allow(clippy::too_many_arguments)]
fn one(run: &mut Run, w: &World, seen: &mut BTreeSet<String>, op: Op, is_async: bool, s: S, env: EnvM, sg: Sg, assets: &[&Asset]) {
    let mode = if is_async { "async" } else { "sync" };
    let (opname, parent, explicit) = match op {
        Op::Read => ("read", false, false),
        Op::Sign => ("sign", false, false),
        Op::Import { explicit } => ("sign", false, explicit),
        Op::Import2 => ("sign", false, false),
        Op::Edit => ("sign", true, false),
        Op::SignSettings => ("sign", false, false),
    };
    let amodel = if matches!(op, Op::Sign | Op::SignSettings) { String::new() } else { assets.iter().map(|a| a.model(parent, explicit)).collect::<Vec<_>>().join(";") };
    let names = assets.iter().map(|a| a.name.as_str()).collect::<Vec<_>>().join("+");
    let req = if op == Op::Read {
        format!("C28 read mode={mode} {} {} a={} n={names}", s.line(), env.line(), amodel)
    } else {
        format!(
            "C28 {opname} mode={mode} kind={} {} {} tsa={} sr={} ss={} sc2={} ctsa={} a={} n={names}",
            match op {
                Op::Sign => "sign",
                Op::Import { .. } => "import",
                Op::Import2 => "import2",
                Op::SignSettings => "settings-signer",
                _ => "edit",
            },
            s.line(),
            env.line(),
            sg.tsa as u8,
            CERTS[sg.cert].1,
            sg.stapled,
            sg.cert,
            match sg.cawg {
                None => "-",
                Some(false) => "0",
                Some(true) => "1",
            },
            amodel
        )
    };
    if !seen.insert(req.clone()) {
        return;
    }
    w.set_env(&env);
    let _ = w.drain();
    let r = guarded(std::panic::AssertUnwindSafe(|| exec(w, op, is_async, &s, &sg, assets)));
    // a request that bypasses the resolver is logged by the listener thread before it answers,
    // i.e. before the SDK call returns
    let evs = w.drain();
    let no_assets: &[&Asset] = &[];
    let toks: Vec<String> = evs.iter().map(|e| ev_token_for(w, e, if matches!(op, Op::Sign | Op::SignSettings) { no_assets } else { assets })).collect();
    let trace = if toks.is_empty() { "-".to_string() } else { toks.join(",") };
    let (res, ings, panicked) = match r {
        Ok(Ok(o)) => (o.res, o.ings, None),
        Ok(Err(e)) => (err_class(&e), vec![], None),
        Err(p) => ("panic".to_string(), vec![], Some(p)),
    };
    let imp = if op == Op::Read {
        format!("res={res} trace={trace}")
    } else {
        format!("res={res} ing={} trace={trace}", if ings.is_empty() { "-".to_string() } else { ings.join(",") })
    };
    let idx = run.case(req.clone(), imp);
    run.count(&format!("op:{}:{mode}", match op {
        Op::Read => "read",
        Op::Sign => "sign",
        Op::Import { .. } => "import",
        Op::Import2 => "import2",
        Op::Edit => "edit",
        Op::SignSettings => "settings-signer",
    }));
    if op == Op::Read && assets[0].name.starts_with("urlform-") {
        run.count(&format!("urlform:url-crate-{}:http-uri-{}", if assets[0].valid_remote() { "accepts" } else { "rejects" }, if assets[0].request_uri().is_some() { "accepts" } else { "rejects" }));
    }
    run.count(&format!("result:{}", res.split(':').take(2).collect::<Vec<_>>().join(":")));
    run.count(&format!("requests:{}", toks.len().min(6)));
    for t in &toks {
        run.count(&format!("request-kind:{}", &t[..1]));
    }
    if !matches!(op, Op::Sign | Op::SignSettings) && assets.iter().any(|a| a.network_capable()) || sg.tsa && op != Op::Read || (op != Op::Read && CERTS[sg.cert].1 > 0) {
        run.nontrivial(req);
    }

    // ---- the property, evaluated on the implementation alone
    if let Some(p) = panicked {
        run.fail(idx, "panic", p);
    }
    let any = |c: &str| toks.iter().any(|t| t.starts_with(c));
    if any("m:") && !s.rf {
        run.fail(idx, "remote-fetch-while-disabled", format!("a remote manifest was requested although verify.remote_manifest_fetch=false: {trace}"));
    }
    for t in toks.iter().filter(|t| t.starts_with("m:")) {
        let u = String::from_utf8_lossy(&hex::decode(&t[2..]).unwrap_or_default()).to_string();
        let referencing: Vec<&&Asset> = if matches!(op, Op::Sign | Op::SignSettings) { vec![] } else { assets.iter().filter(|a| a.xmp.as_ref().is_some_and(|x| x.to_ascii_lowercase() == u)).collect() };
        if referencing.is_empty() {
            run.fail(idx, "remote-fetch-unreferenced-url", format!("manifest request for {u}, which no asset of the operation references"));
        } else if referencing.iter().all(|a| a.has_embedded()) {
            run.fail(idx, "remote-fetch-despite-embedded", format!("manifest request for {u} although the asset referencing it carries an embedded manifest: {trace}"));
        } else if referencing.iter().all(|a| !a.valid_remote()) {
            run.fail(idx, "remote-fetch-of-non-http-reference", format!("manifest request for {u}, which is not an absolute http(s) URL: {trace}"));
        } else if referencing.iter().all(|a| !a.looks_http()) {
            run.fail(idx, "remote-fetch-of-non-http-scheme", format!("manifest request for {u:?}, whose scheme (after the trimming of the URL parser) is neither http nor https: {trace}"));
        }
    }
    let m_count = toks.iter().filter(|t| t.starts_with("m:")).count();
    let fetchable = assets.iter().filter(|a| !a.has_embedded() && a.valid_remote()).count();
    if !matches!(op, Op::Sign | Op::SignSettings) && m_count > fetchable {
        run.fail(idx, "remote-fetch-repeated", format!("{m_count} manifest request(s) but only {fetchable} asset(s) of the operation lack an embedded manifest and carry an http(s) reference: {trace}"));
    }
    let status_fetch_on = s.sf != 0 && s.so != 0 && !matches!(op, Op::Read | Op::Sign | Op::SignSettings);
    if any("o") && !s.of && !status_fetch_on {
        run.fail(idx, "ocsp-fetch-while-disabled", format!("an OCSP responder was queried although verify.ocsp_fetch=false and no certificate-status fetch is configured: {trace}"));
    }
    if (any("t") || any("T")) && ((!sg.tsa && sg.cawg != Some(true)) || op == Op::Read) {
        run.fail(idx, "tsa-request-without-tsa-url", format!("a time-stamp request was sent although the signer names no time authority: {trace}"));
    }
    // a reference the URL parser rejects, or whose scheme is not http(s), is never reported as a remote manifest URL
    if let Some(h) = res.strip_prefix("err:RemoteManifestUrl:") {
        if !matches!(op, Op::Sign | Op::SignSettings) && !assets.iter().any(|a| a.xmp.as_ref().is_some_and(|x| hex::encode(x.as_bytes()) == h) && a.looks_http() && !a.has_embedded()) {
            run.fail(idx, "remote-manifest-url-error-for-non-http-reference", format!("RemoteManifestUrl({:?}) although no asset of the operation without embedded manifest references such an http(s) URL", String::from_utf8_lossy(&hex::decode(h).unwrap_or_default())));
        }
    }
    if any("t") && !(s.at || explicit) {
        run.fail(idx, "timestamp-assertion-request-while-disabled", format!("a time-stamp assertion request was sent although auto_timestamp_assertion is disabled and Builder::add_timestamp was not called: {trace}"));
    }
    if any("d") && (!s.di || op != Op::Read) {
        run.fail(idx, "identity-lookup-while-decoding-disabled", format!("a did:web document was requested although core.decode_identity_assertions=false (or outside the Reader): {trace}"));
    }
    if any("X:") {
        run.fail(idx, "request-bypassed-resolver", format!("a request other than the signer's time-stamp request reached the network without going through the Context's resolver: {trace}"));
    }
    if any("x:") {
        run.fail(idx, "unexpected-request", format!("request to a URL that is neither a referenced manifest, the certificate's OCSP responder nor the TSA: {trace}"));
    }
    if !s.rf && !matches!(op, Op::Sign | Op::SignSettings) {
        for (k, a) in assets.iter().enumerate() {
            if !a.has_embedded() && a.valid_remote() {
                let url = a.xmp.clone().unwrap();
                if op == Op::Read {
                    let want = format!("err:RemoteManifestUrl:{}", hex::encode(url.as_bytes()));
                    if res != want {
                        run.fail(idx, "remote-only-disabled-wrong-error", format!("reading an asset that only references {url} with fetching disabled gave {res}, expected RemoteManifestUrl carrying the URL"));
                    }
                } else if res != "panic" {
                    let want = format!("inaccessible:{}", hex::encode(url.as_bytes()));
                    if ings.get(k) != Some(&want) {
                        run.fail(idx, "remote-only-disabled-ingredient-without-url", format!("ingredient {k} only references {url}; with fetching disabled its state is {:?}, expected manifest.inaccessible carrying the URL", ings.get(k)));
                    }
                }
            }
        }
    }
}

// ------------------------------------------------------------------ fixtures with everything disabled

struct Timer(String, std::time::Instant);
impl Drop for Timer {
    fn drop(&mut self) {
        if std::env::var("C28_DEBUG").is_ok() && self.1.elapsed().as_millis() > 300 {
            eprintln!("slow fixture {} {:?}", self.0, self.1.elapsed());
        }
    }
}

fn quiet_sweep(run: &mut Run, w: &World, thorough: bool) {
    let exts = [
        "jpg", "jpeg", "png", "webp", "svg", "mp4", "wav", "tiff", "tif", "mp3", "dng", "mov", "m4s", "jxl", "heif", "heic", "gif", "flac", "avif", "avi", "pdf", "c2pa", "psd",
    ];
    let mut files: Vec<PathBuf> = vec![];
    for dir in [fixtures(), PathBuf::from("/repo/sdk/src/identity/tests/fixtures/claim_aggregation"), PathBuf::from("/repo/sdk/src/identity/tests/fixtures/claim_aggregation/ica_validation")] {
        if let Ok(rd) = std::fs::read_dir(&dir) {
            for e in rd.flatten() {
                let p = e.path();
                let ext = p.extension().and_then(|x| x.to_str()).unwrap_or("").to_ascii_lowercase();
                let len = e.metadata().map(|m| m.len()).unwrap_or(u64::MAX);
                if p.is_file() && exts.contains(&ext.as_str()) && len <= if thorough { 8_000_000 } else { 1_500_000 } {
                    files.push(p);
                }
            }
        }
    }
    files.sort();
    let off = S { rf: false, of: false, sf: 0, so: 0, at: true, di: false, ..S::default() };
    w.set_env(&EnvM::default());
    for f in files {
        let t_file = std::time::Instant::now();
        let _timer = Timer(f.display().to_string(), t_file);
        let Ok(bytes) = std::fs::read(&f) else { continue };
        let name = f.file_name().and_then(|x| x.to_str()).unwrap_or("?").replace(' ', "_");
        let fmt = c2pa::format_from_path(&f).unwrap_or_else(|| "application/octet-stream".to_string());
        for kind in ["read", "import"] {
            for is_async in [false, true] {
                let _ = w.drain();
                let r = guarded(std::panic::AssertUnwindSafe(|| -> String {
                    let ctx = w.ctx(&off);
                    let cur = Cursor::new(bytes.clone());
                    if kind == "read" {
                        let r = if is_async { w.rt.block_on(Reader::from_context(ctx).with_stream_async(&fmt, cur)) } else { Reader::from_context(ctx).with_stream(&fmt, cur) };
                        r.map(|_| "ok".to_string()).unwrap_or_else(|e| err_class(&e))
                    } else {
                        let mut cur = cur;
                        let Ok(mut b) = Builder::from_context(ctx).with_definition(definition("c28", "image/jpeg").as_str()) else { return "err:builder".into() };
                        let json = serde_json::json!({"title": "fixture", "relationship": "componentOf"}).to_string();
                        let r = if is_async { w.rt.block_on(b.add_ingredient_from_stream_async(json, &fmt, &mut cur)).map(|_| ()) } else { b.add_ingredient_from_stream(json, &fmt, &mut cur).map(|_| ()) };
                        r.map(|_| "ok".to_string()).unwrap_or_else(|e| err_class(&e))
                    }
                }));
                let evs = w.drain();
                let toks: Vec<String> = evs.iter().map(|e| ev_token(w, e)).collect();
                let trace = if toks.is_empty() { "-".to_string() } else { toks.join(",") };
                let mode = if is_async { "async" } else { "sync" };
                let req = format!("C28 quiet kind={kind} mode={mode} n={name}");
                let idx = run.case(req.clone(), format!("trace={trace}"));
                run.count(&format!("op:quiet-{kind}:{mode}"));
                match &r {
                    Ok(res) => {
                        run.count(&format!("quiet-result:{}", res.split(':').take(2).collect::<Vec<_>>().join(":")));
                        // a fixture that carries a manifest, a reference or an identity assertion is non-trivial
                        if res == "ok" || res.starts_with("err:RemoteManifestUrl") {
                            run.nontrivial(req);
                        }
                    }
                    Err(p) => run.fail(idx, "panic", p.clone()),
                }
                if !toks.is_empty() {
                    run.fail(idx, "request-with-everything-disabled", format!("{kind} of fixture {name} with remote manifest fetch, OCSP fetch, certificate-status fetch and identity decoding off and no signer issued: {trace}"));
                }
            }
        }
        // identity assertions: the fetch settings stay off, core.decode_identity_assertions varies.
        // The number k of did:web resolutions the fixture's identity assertions cause is measured
        // once (sync, decoding on); the model predicts k requests with decoding on, none with it off.
        let read = |s: &S, is_async: bool| -> Result<Vec<String>, String> {
            let _ = w.drain();
            let r = guarded(std::panic::AssertUnwindSafe(|| {
                let cur = Cursor::new(bytes.clone());
                let _ = if is_async { w.rt.block_on(Reader::from_context(w.ctx(s)).with_stream_async(&fmt, cur)).map(|_| ()) } else { Reader::from_context(w.ctx(s)).with_stream(&fmt, cur).map(|_| ()) };
            }));
            let toks: Vec<String> = w.drain().iter().map(|e| ev_token(w, e)).collect();
            r.map(|_| toks)
        };
        let on = S { di: true, ..off };
        let k = match read(&on, false) {
            Ok(t) => t.iter().filter(|x| *x == "d").count(),
            Err(_) => 0,
        };
        for di in [false, true] {
            for is_async in [false, true] {
                let s = S { di, ..off };
                let r = read(&s, is_async);
                let toks = r.clone().unwrap_or_default();
                let trace = if toks.is_empty() { "-".to_string() } else { toks.join(",") };
                let mode = if is_async { "async" } else { "sync" };
                let req = format!("C28 identity mode={mode} {} {} k={k} n={name}", s.line(), EnvM::default().line());
                let idx = run.case(req.clone(), format!("trace={trace}"));
                run.count(&format!("op:identity:{mode}"));
                if k > 0 {
                    run.nontrivial(req);
                    run.count("identity-fixture-with-did-web-issuer");
                }
                if let Err(p) = r {
                    run.fail(idx, "panic", p);
                }
                if !di && toks.iter().any(|t| t == "d") {
                    run.fail(idx, "identity-lookup-while-decoding-disabled", format!("reading fixture {name} with core.decode_identity_assertions=false requested a did:web document: {trace}"));
                }
                if toks.iter().any(|t| t != "d") {
                    run.fail(idx, "request-with-fetch-settings-off", format!("reading fixture {name} with remote manifest fetch and OCSP fetch off issued a request that is not a did:web resolution: {trace}"));
                }
            }
        }
    }
}

// ------------------------------------------------------------------ assets

fn build_asset(w: &World, fmt: &'static str, remote: Option<&str>, no_embed: bool, cert: usize, stapled: u8, ingredient: Option<&Asset>) -> c2pa::Result<(Vec<u8>, Vec<u8>)> {
    let off = S { rf: false, of: false, ..S::default() };
    let mut b = Builder::from_context(w.ctx(&off)).with_definition(definition("c28 asset", fmt).as_str())?;
    if let Some(i) = ingredient {
        b.add_ingredient_from_stream(
            serde_json::json!({"title": "inner", "relationship": "componentOf"}).to_string(),
            i.fmt,
            &mut Cursor::new(i.bytes.as_ref().clone()),
        )?;
    }
    if let Some(u) = remote {
        b.set_remote_url(u);
    }
    b.set_no_embed(no_embed);
    let s = w.pki.signer(cert, None, stapled);
    let mut out = Cursor::new(Vec::new());
    let m = b.sign(&s, fmt, &mut Cursor::new(w.src(fmt).as_ref().clone()), &mut out)?;
    Ok((out.into_inner(), m))
}

/// XML attribute value (double-quoted) holding `s`; tab, LF, CR and other controls as character references
fn xml_attr_escape(s: &str) -> String {
    let mut o = String::new();
    for c in s.chars() {
        match c {
            '&' => o.push_str("&amp;"),
            '<' => o.push_str("&lt;"),
            '>' => o.push_str("&gt;"),
            '"' => o.push_str("&quot;"),
            c if (c as u32) < 0x20 => o.push_str(&format!("&#{};", c as u32)),
            c => o.push(c),
        }
    }
    o
}

/// every occurrence of `old` replaced by `new` (same length); None when there is none
fn patch_bytes(bytes: &[u8], old: &[u8], new: &[u8]) -> Option<Vec<u8>> {
    assert_eq!(old.len(), new.len());
    let mut out = bytes.to_vec();
    let (mut i, mut hits) = (0, 0);
    while i + old.len() <= out.len() {
        if &out[i..i + old.len()] == old {
            out[i..i + old.len()].copy_from_slice(new);
            hits += 1;
            i += old.len();
        } else {
            i += 1;
        }
    }
    (hits > 0).then_some(out)
}

/// (prefix, pad character, suffix): the reference is prefix + pad* + suffix. First the fixed forms,
/// then `n_random` random compositions of the same building blocks with an occasional stray character.
static N_FIXED_URL_FORMS: std::sync::atomic::AtomicU32 = std::sync::atomic::AtomicU32::new(0);

fn url_forms(base: &str, rng: &mut Rng, n_random: usize) -> Vec<(String, Option<char>, String)> {
    let a = base.strip_prefix("http://").unwrap_or(base).to_string(); // 127.0.0.1:port
    let port = a.rsplit(':').next().unwrap_or("80").to_string();
    let mut f: Vec<(String, Option<char>, String)> = vec![];
    let mut p = |pre: String, suf: &str| f.push((pre, Some('x'), suf.to_string()));
    // accepted although not of the form scheme://host/path
    p(format!("http:/{a}/m/"), ".c2pa");
    p(format!("http:{a}/m/"), ".c2pa");
    p("http:localhost".to_string(), "");
    p(format!(" http://{a}/m/"), ".c2pa");
    p(format!("\t\n http://{a}/m/"), ".c2pa");
    p(format!("http://{a}/m/"), ".c2pa \r\n");
    p(format!("\u{1}\u{1f} http://{a}/m/"), ".c2pa\u{2}");
    p(format!("ht\ttp://{a}/m/"), ".c2pa");
    p(format!("http:/\n/{a}/m/"), ".c2pa");
    p(format!("http://127.0\r.0.1:{port}/m/"), ".c2pa");
    p(format!("http://{a}/m/\t"), ".c2pa");
    p(format!("http://127.0.0.1:\t{port}/m/"), ".c2pa");
    p(format!("http:///{a}/m/"), ".c2pa");
    p(format!("http:\\\\{a}\\m\\"), ".c2pa");
    p(format!("http:/\\{a}/m/"), ".c2pa");
    p(format!("http://{a}\\m\\"), ".c2pa");
    p(format!("HTTP://{a}/m/"), ".c2pa");
    p(format!("hTtPs://{a}/m/"), ".c2pa");
    p(format!("https:{a}/m/"), ".c2pa");
    p(format!("HtTp:{a}/m/"), ".c2pa");
    p(format!("http://{a}?"), "");
    p(format!("http://{a}#"), "");
    // userinfo
    p(format!("http://u:p@{a}/m/"), ".c2pa");
    p(format!("http://@{a}/m/"), ".c2pa");
    p(format!("http://u@h:1@{a}/m/"), ".c2pa");
    p("http://@/m/".to_string(), "");
    p("http://a:b@/m/".to_string(), "");
    p("http://@".to_string(), "");
    p("http://u@".to_string(), "@localhost/m");
    // empty host
    f.push(("http:".to_string(), Some('/'), String::new()));
    f.push(("http:\\".to_string(), Some('\\'), String::new()));
    let mut p = |pre: String, suf: &str| f.push((pre, Some('x'), suf.to_string()));
    p("http://?".to_string(), "");
    p("http://#".to_string(), "");
    p("http://:80/m/".to_string(), "");
    p("https:///?".to_string(), "");
    // ports
    p("http://127.0.0.1:65535/m/".to_string(), "");
    p("http://127.0.0.1:65536/m/".to_string(), "");
    p("http://127.0.0.1:00080/m/".to_string(), "");
    p("http://127.0.0.1:0000000000000000000065535/m/".to_string(), "");
    p("http://127.0.0.1:/m/".to_string(), "");
    p("http://127.0.0.1:8a/m/".to_string(), "");
    p("http://127.0.0.1: 80/m/".to_string(), "");
    p("http://127.0.0.1:0x50/m/".to_string(), "");
    p("http://127.0.0.1:-1/m/".to_string(), "");
    p("http://127.0.0.1:80:80/m/".to_string(), "");
    p("http://127.0.0.1:80?".to_string(), "");
    p("http://127.0.0.1:80\\".to_string(), "");
    // IPv4 notations
    for (h, _) in [
        ("0x7f.1", true), ("127.1", true), ("1.2.3.4.5", false), ("localhost.1", false), ("256.0.0.1", false), ("127.0.0.256", false), ("127.0.0.1.", true), ("0177.0.0.01", true),
        ("09.0.0.1", false), ("4294967296", false), ("4294967295", true), ("2130706433", true), ("0x", true), ("127.0.0x", true), ("0X7F.1", true), ("1..2", false), ("127.0.0.1..", true),
        ("a.0x1g", true), ("127.0.65536", false), ("127.0.65535", true), ("127.16777216", false), ("127.16777215", true), ("0x100000000", false), ("0xffffffff", true), ("00000000000000000000000000177.1", true),
        ("1.2.3.4.", true), ("1.2.3.4.5.", false), (".1", false), ("1.", true), ("0x.0x.0x.0x", true), ("08", false), ("0x7f.0x0.0x0.0x1", true), ("999999999999999999999", false), ("localhost.", true), ("localhost..", true), (".", true), ("..", true),
    ] {
        p(format!("http://{h}/m/"), "");
        p(format!("https://u@{h}:{port}/m/"), "");
    }
    // forbidden host code points and their neighbours
    for c in [' ', '<', '>', '^', '|', '"', '`', '{', '}', '_', '*', '!', '$', '&', '\'', '(', ')', '+', ',', ';', '=', '~', '-', ']', '\u{7f}'] {
        p(format!("http://a{c}b.invalid/m/"), "");
    }
    // hosts left to the url crate: IPv6 literals, percent-encoding, IDNA
    for h in ["[::1]", "[::1", "[::ffff:127.0.0.1]", "[1:2:3:4:5:6:7:8:9]", "[::1]x", "a[b.invalid", "%31%32%37.0.0.1", "a%zz.invalid", "a%2fb.invalid", "ö.invalid", "xn--nda.invalid", "xn--.invalid", "XN--nda.invalid", "ab--c.invalid", "\u{ff11}27.0.0.1", "a.%31"] {
        p(format!("http://{h}/m/"), "");
        p(format!("http://{h}:{port}/m/"), "");
    }
    // schemes and non-URLs
    p(format!("ftp://{a}/m/"), ".c2pa");
    p(format!("httpx://{a}/m/"), ".c2pa");
    p(format!("http+x://{a}/m/"), ".c2pa");
    p(format!("htt://{a}/m/"), ".c2pa");
    p(format!("1http://{a}/m/"), ".c2pa");
    p(format!("//{a}/m/"), ".c2pa");
    p("m/".to_string(), ".c2pa");
    p(format!("\u{a0}http://{a}/m/"), ".c2pa");
    p("file:///tmp/".to_string(), ".c2pa");
    p(format!("ws://{a}/m/"), ".c2pa");
    p(format!("wss://{a}/m/"), ".c2pa");
    p(format!(":http://{a}/m/"), ".c2pa");
    p(format!("http ://{a}/m/"), ".c2pa");
    p(format!("ht tp://{a}/m/"), ".c2pa");
    p(format!("http\u{e9}://{a}/m/"), ".c2pa");
    p("http".to_string(), "");
    p("https".to_string(), ":");
    p("data:text/plain,".to_string(), "");
    p("self#jumbf=/c2pa/".to_string(), "");
    f.push((" ".to_string(), Some(' '), " ".to_string()));
    N_FIXED_URL_FORMS.store(f.len() as u32, Ordering::SeqCst);
    // random compositions
    let lead = ["", "", "", " ", "\t", "\n ", "\r"];
    let scheme = ["http", "http", "https", "HTTP", "hTTps", "ftp", "htt", "ht\ttp", "https+", "1http", "ws", "file"];
    let slashes = ["//", "//", "", "/", "///", "\\", "/\\", "\\\\", "/\t/"];
    let user = ["", "", "", "u@", "u:p@", "@", "a@b@", "u:@"];
    let host = [
        "127.0.0.1", "127.0.0.1", "localhost", "LOCALHOST", "127.1", "0x7f.1", "1.2.3.4.5", "a.1", "a.1.", "0", "08", "0x", "256.1", "a b", "a_b", "a<b", "a^", "", ".", "a..b", "h\tost", "[::1]", "[::1", "a%41", "xn--a", "a--b", "ab--c", "\u{e9}", "4294967295", "4294967296", "1.2.3.0x", "a.0x",
    ];
    let ports = ["", "", "", ":", ":80", ":65535", ":65536", ":0", ":8a", ":00000000080", ": 1", ":1\t2"];
    let tail = ["/", "/m/", "/m/\tx", "?q=", "#f", "\\p", "/ /", "/..//", "?#", "/%zz"];
    let trail = ["", "", "", " ", "\n", "\t \r"];
    let stray = [' ', '\t', ':', '/', '\\', '@', '[', ']', '%', '#', '?', '.', '0', 'x', 'A', '-', '\u{7f}', '\u{e9}', '"', '<'];
    for _ in 0..n_random {
        let mut pre = format!("{}{}:{}{}{}{}{}", rng.pick(&lead), rng.pick(&scheme), rng.pick(&slashes), rng.pick(&user), rng.pick(&host), rng.pick(&ports), rng.pick(&tail));
        if rng.below(3) == 0 {
            let cs: Vec<char> = pre.chars().collect();
            let at = rng.below(cs.len() as u64 + 1) as usize;
            let mut n: Vec<char> = cs[..at].to_vec();
            if rng.below(2) == 0 || at >= cs.len() {
                n.push(*rng.pick(&stray)); // insert
                n.extend_from_slice(&cs[at..]);
            } else {
                n.extend_from_slice(&cs[at + 1..]); // delete
            }
            pre = n.into_iter().collect();
        }
        f.push((pre, Some('x'), rng.pick(&trail).to_string()));
    }
    f
}

fn make_assets(w: &World, run: &mut Run, rng: &mut Rng, n_random: usize) -> Vec<Asset> {
    let mut v: Vec<Asset> = vec![];
    let base = w.sh.base.clone();
    let mut add = |v: &mut Vec<Asset>, name: &str, fmt: &'static str, remote: Option<String>, no_embed: bool, cert: usize, stapled: u8, inner: Option<usize>| {
        let store = match inner {
            None => claim(cert, stapled),
            Some(i) => format!("{},{}", claim(cert, stapled), v[i].emb),
        };
        let r = guarded(std::panic::AssertUnwindSafe(|| build_asset(w, fmt, remote.as_deref(), no_embed, cert, stapled, inner.map(|i| &v[i]))));
        match r {
            Ok(Ok((bytes, manifest))) => {
                if let Some(u) = &remote {
                    w.sh.manifests.lock().unwrap_or_else(|e| e.into_inner()).push((u.clone(), manifest));
                }
                v.push(Asset {
                    name: name.to_string(),
                    fmt,
                    bytes: Arc::new(bytes),
                    emb: if no_embed { "-".into() } else { store.clone() },
                    xmp: remote.clone(),
                    rem: if remote.is_some() { store } else { "-".into() },
                });
            }
            other => run.notes.push(format!("asset {name} not built: {:?}", other.map(|r| r.map(|_| ()).map_err(|e| e.to_string())))),
        }
    };
    let jpg = "image/jpeg";
    let png = "image/png";
    // 0..: per certificate, embedded / remote-only / both
    for (ci, (cn, _)) in CERTS.iter().enumerate() {
        add(&mut v, &format!("emb-{cn}"), jpg, None, false, ci, 0, None);
        add(&mut v, &format!("rem-{cn}"), jpg, Some(format!("{base}/m/rem-{cn}.c2pa")), true, ci, 0, None);
        add(&mut v, &format!("both-{cn}"), jpg, Some(format!("{base}/m/both-{cn}.c2pa")), false, ci, 0, None);
    }
    add(&mut v, "emb-aia1-stapled", jpg, None, false, 0, 1, None);
    add(&mut v, "emb-aia1-stapled-good", jpg, None, false, 0, 2, None);
    add(&mut v, "rem-aia1-stapled", jpg, Some(format!("{base}/m/rem-st.c2pa")), true, 0, 1, None);
    // nested: outer signed by aia2, inner = emb-aia1
    add(&mut v, "nested", jpg, None, false, 1, 0, Some(0));
    add(&mut v, "nested-rem", jpg, Some(format!("{base}/m/nested.c2pa")), true, 1, 0, Some(0));
    // references that are not absolute http(s) URLs, and scheme variants
    add(&mut v, "ref-ftp", jpg, Some("ftp://127.0.0.1/m/x.c2pa".to_string()), true, 0, 0, None);
    add(&mut v, "ref-file", jpg, Some("file:///tmp/x.c2pa".to_string()), true, 0, 0, None);
    add(&mut v, "ref-https", jpg, Some(format!("https://127.0.0.1:{}/m/https.c2pa", base.rsplit(':').next().unwrap())), true, 0, 0, None);
    // byte-patched references (same length, so the container stays well-formed; these assets have
    // no embedded manifest, hence no hash binding to disturb): a relative reference, which the
    // Builder refuses to write, and an upper-case scheme
    let patch = |v: &mut Vec<Asset>, from: &str, name: &str, old: String, new: String, valid: bool| {
        let Some(src) = v.iter().find(|a| a.name == from) else { return };
        assert_eq!(old.len(), new.len());
        let mut bytes = src.bytes.as_ref().clone();
        let mut hits = 0;
        let mut i = 0;
        while i + old.len() <= bytes.len() {
            if &bytes[i..i + old.len()] == old.as_bytes() {
                bytes[i..i + old.len()].copy_from_slice(new.as_bytes());
                hits += 1;
                i += old.len();
            } else {
                i += 1;
            }
        }
        if hits == 0 {
            return;
        }
        let rem = if valid { src.rem.clone() } else { "-".to_string() };
        v.push(Asset { name: name.to_string(), fmt: src.fmt, bytes: Arc::new(bytes), emb: "-".into(), xmp: Some(new), rem });
    };
    patch(&mut v, "ref-ftp", "ref-relative", "ftp://127.0.0.1/m/x.c2pa".to_string(), "manifests/dir/file1.c2pa".to_string(), false);
    let u = format!("{base}/m/rem-aia1.c2pa");
    patch(&mut v, "rem-aia1", "ref-upper", u.clone(), u.replacen("http://", "HTTP://", 1), true);
    // PNG container (XMP in iTXt)
    add(&mut v, "png-emb", png, None, false, 0, 0, None);
    add(&mut v, "png-rem", png, Some(format!("{base}/m/png-rem.c2pa")), true, 0, 0, None);
    add(&mut v, "png-both", png, Some(format!("{base}/m/png-both.c2pa")), false, 0, 0, None);
    // an embedded manifest store that cannot be loaded (the caBX chunk twice: TooManyManifestStores)
    // next to a valid http reference
    if let Some(src) = v.iter().find(|a| a.name == "png-both") {
        let b = src.bytes.as_ref();
        let mut i = 8;
        let mut out = None;
        while i + 12 <= b.len() {
            let len = u32::from_be_bytes([b[i], b[i + 1], b[i + 2], b[i + 3]]) as usize;
            let end = i + 12 + len;
            if end > b.len() {
                break;
            }
            if &b[i + 4..i + 8] == b"caBX" {
                let mut o = b[..end].to_vec();
                o.extend_from_slice(&b[i..end]);
                o.extend_from_slice(&b[end..]);
                out = Some(o);
                break;
            }
            i = end;
        }
        if let Some(o) = out {
            let (xmp, rem) = (src.xmp.clone(), src.rem.clone());
            v.push(Asset { name: "png-broken-both".into(), fmt: png, bytes: Arc::new(o), emb: "!".into(), xmp, rem });
        }
    }
    // references in the forms `url::Url::parse` accepts or rejects (byte-patched into the XMP of a
    // remote-only asset in XML-escaped form, padded to the length of the template's URL)
    let tpl_url = format!("{base}/m/{}.c2pa", "u".repeat(150));
    add(&mut v, "urlform-template", jpg, Some(tpl_url.clone()), true, 0, 0, None);
    let mut built = 0usize;
    if let Some(tpl) = v.iter().find(|a| a.name == "urlform-template").map(|a| (a.bytes.clone(), a.rem.clone())) {
        let forms = url_forms(&base, rng, n_random);
        for (k, (pre, pad, suf)) in forms.iter().enumerate() {
            let fixed = xml_attr_escape(pre).len() + xml_attr_escape(suf).len();
            if fixed > tpl_url.len() || (fixed < tpl_url.len() && pad.is_none()) {
                run.notes.push(format!("url form {k} ({pre:?}…{suf:?}) does not fit the template"));
                continue;
            }
            let raw = format!("{pre}{}{suf}", pad.map_or(String::new(), |c| c.to_string().repeat(tpl_url.len() - fixed)));
            let enc = xml_attr_escape(&raw);
            if enc.len() != tpl_url.len() || raw.is_empty() {
                continue;
            }
            let Some(bytes) = patch_bytes(&tpl.0, tpl_url.as_bytes(), enc.as_bytes()) else { continue };
            // nothing is registered with the recorder for these URLs: a fetch is answered 404
            v.push(Asset { name: format!("urlform-{k:03}"), fmt: jpg, bytes: Arc::new(bytes), emb: "-".into(), xmp: Some(raw), rem: "-".into() });
            built += 1;
        }
        run.obligations.insert("url-form-assets-built".into(), built >= 80);
        let _ = tpl.1;
    } else {
        run.obligations.insert("url-form-assets-built".into(), false);
    }
    let building = w.drain();
    run.obligations.insert("no-request-while-building-assets-with-fetching-off".into(), building.is_empty());
    if !building.is_empty() {
        run.notes.push(format!("requests while building assets: {building:?}"));
    }
    // --- assets that need a transport that answers (requests issued here are expected and dropped)
    // signed with a time-stamp from the local TSA: the claim is time-stamped
    w.set_env(&EnvM { mr: 0, or: 1, tr: 0 });
    w.listener_tsa.store(0, Ordering::SeqCst);
    let r = guarded(std::panic::AssertUnwindSafe(|| -> c2pa::Result<Vec<u8>> {
        let off = S { rf: false, of: false, ..S::default() };
        let mut b = Builder::from_context(w.ctx(&off)).with_definition(definition("c28 asset", jpg).as_str())?;
        let s = w.pki.signer(0, Some(w.tsa_url()), 0);
        let mut out = Cursor::new(Vec::new());
        b.sign(&s, jpg, &mut Cursor::new(w.src_jpg.as_ref().clone()), &mut out)?;
        Ok(out.into_inner())
    }));
    match r {
        Ok(Ok(bytes)) => v.push(Asset { name: "emb-aia1-ts".into(), fmt: jpg, bytes: Arc::new(bytes), emb: "r1s0c0t".into(), xmp: None, rem: "-".into() }),
        other => run.notes.push(format!("asset emb-aia1-ts not built: {:?}", other.map(|r| r.map(|_| ()).map_err(|e| e.to_string())))),
    }
    // signed by aia1 over the ingredient emb-aia1 while the OCSP responder answers "good" and
    // certificate-status fetching is on: the new claim carries a certificate-status assertion
    // whose response covers the (shared) signing certificate of both claims
    w.set_env(&EnvM { mr: 0, or: 3, tr: 1 });
    w.listener_tsa.store(1, Ordering::SeqCst);
    let r = guarded(std::panic::AssertUnwindSafe(|| -> c2pa::Result<Vec<u8>> {
        let st = S { rf: false, of: false, sf: 2, so: 1, ..S::default() };
        let mut b = Builder::from_context(w.ctx(&st)).with_definition(definition("c28 asset", jpg).as_str())?;
        let inner = v.iter().find(|a| a.name == "emb-aia1").ok_or(c2pa::Error::NotFound)?;
        b.add_ingredient_from_stream(
            serde_json::json!({"title": "inner", "relationship": "componentOf"}).to_string(),
            jpg,
            &mut Cursor::new(inner.bytes.as_ref().clone()),
        )?;
        let s = w.pki.signer(0, None, 0);
        let mut out = Cursor::new(Vec::new());
        b.sign(&s, jpg, &mut Cursor::new(w.src_jpg.as_ref().clone()), &mut out)?;
        Ok(out.into_inner())
    }));
    match r {
        Ok(Ok(bytes)) => v.push(Asset { name: "status-aia1".into(), fmt: jpg, bytes: Arc::new(bytes), emb: "r1s0c0ap,r1s0c0".into(), xmp: None, rem: "-".into() }),
        other => run.notes.push(format!("asset status-aia1 not built: {:?}", other.map(|r| r.map(|_| ()).map_err(|e| e.to_string())))),
    }
    w.set_env(&EnvM::default());
    let special = w.drain();
    run.notes.push(format!("requests while building the time-stamped and the certificate-status asset (expected): {}", special.iter().map(|e| ev_token(w, e)).collect::<Vec<_>>().join(",")));
    // no manifest at all
    v.push(Asset { name: "none".into(), fmt: jpg, bytes: w.src_jpg.clone(), emb: "-".into(), xmp: None, rem: "-".into() });
    v
}

// ------------------------------------------------------------------ enumeration

fn bools() -> [bool; 2] {
    [false, true]
}

pub fn run(run: &mut Run, rng: &mut Rng) {
    run.rule = "exhaustive products of the settings that gate requests (remote_manifest_fetch, ocsp_fetch, certificate_status_fetch x certificate_status_should_override, auto_timestamp_assertion.{enabled,skip_existing,fetch_scope}, verify_after_sign) x signer (TSA URL, certificate with 0/1/2 OCSP responders, stapled OCSP) x asset (embedded / remote-only / both / none / non-http reference / nested ingredient; JPEG and PNG) x operation (read, sign, ingredient import + sign, two ingredients, edit with automatic parent) x transport answers (200 / 404 / transport error per request class), sync and async API; plus ~200 fixed and 300 (quick) / 2000 (thorough) random reference forms (white space and control characters, scheme case, missing or extra slashes, back-slashes, userinfo, ports, IPv4 number notations, forbidden host code points, IPv6 / percent-encoded / IDNA hosts, other schemes) byte-patched into a remote-only asset and read with fetching off and on; plus the signer built from `signer.local` + `cawg_x509_signer.local` settings with a TSA URL on either, both or none. non-trivial = the operation involves something that some setting could turn into a request (remote reference, certificate naming an OCSP responder, signer TSA URL); distinct by request line".to_string();
    let thorough = run.thorough();
    if std::env::var("C28_DEBUG").is_ok() {
        std::panic::set_hook(Box::new(|i| eprintln!("panic: {i}")));
    }
    let dir = scratch("c28");
    let log: Log = Arc::new(Mutex::new(vec![]));
    let tsa_mode = Arc::new(AtomicU8::new(1));
    let port = loop_server(log.clone(), tsa_mode.clone(), dir.clone());
    let pki = match Pki::new(dir.clone(), port) {
        Ok(p) => p,
        Err(e) => {
            run.obligations.insert("pki-generated-with-openssl-cli".into(), false);
            run.notes.push(e);
            let _ = std::fs::remove_dir_all(&dir);
            return;
        }
    };
    run.obligations.insert("pki-generated-with-openssl-cli".into(), true);
    run.obligations.insert("harness-internal-panic-free".into(), true);
    let sh = Arc::new(Shared {
        log,
        modes: Modes { manifest: AtomicU8::new(0), ocsp: AtomicU8::new(1), tsa: AtomicU8::new(1) },
        base: format!("http://127.0.0.1:{port}"),
        manifests: Mutex::new(vec![]),
        dir: dir.clone(),
    });
    let w = World {
        sh,
        pki,
        src_jpg: Arc::new(std::fs::read(fixtures().join("IMG_0003.jpg")).expect("fixture")),
        src_png: Arc::new(std::fs::read(fixtures().join("libpng-test.png")).expect("fixture")),
        rt: tokio::runtime::Builder::new_current_thread().enable_all().build().expect("tokio"),
        listener_tsa: tsa_mode.clone(),
        root_pem: std::fs::read_to_string(dir.join("root.crt")).unwrap_or_default(),
    };
    // the listener's TSA behaviour follows the env of the case
    let tsa_follow = tsa_mode.clone();
    let assets = make_assets(&w, run, rng, if thorough { 2000 } else { 300 });
    if std::env::var("C28_DEBUG").is_ok() {
        eprintln!("notes: {:?}", run.notes);
    }
    let by = |n: &str| assets.iter().find(|a| a.name == n).unwrap_or_else(|| panic!("asset {n}"));
    let mut seen = BTreeSet::new();
    let modes: &[bool] = &[false, true];

    // transport answers: one axis at a time (quick) or the full product (thorough). A TSA that
    // answers (tr=ok) costs one `openssl ts` process per request, so those cases are enumerated
    // separately below.
    let envs_axis: Vec<EnvM> = {
        let d = EnvM::default();
        vec![d, EnvM { mr: 1, ..d }, EnvM { mr: 2, ..d }, EnvM { or: 2, ..d }, EnvM { or: 0, ..d }, EnvM { tr: 2, ..d }]
    };
    let envs_full: Vec<EnvM> = {
        let mut v = vec![];
        for mr in 0..3 {
            for or in 0..3 {
                for tr in 1..3 {
                    v.push(EnvM { mr, or, tr });
                }
            }
        }
        v
    };
    let envs: &Vec<EnvM> = if thorough { &envs_full } else { &envs_axis };
    let ts_ok = EnvM { tr: 0, ..EnvM::default() };
    let do_case = |run: &mut Run, seen: &mut BTreeSet<String>, op: Op, is_async: bool, s: S, env: EnvM, sg: Sg, a: &[&Asset]| {
        tsa_follow.store(env.tr, Ordering::SeqCst);
        // a panic of the harness itself (not of the SDK call, which `one` guards) must not lose the run
        if let Err(p) = guarded(std::panic::AssertUnwindSafe(|| one(run, &w, seen, op, is_async, s, env, sg, a))) {
            run.obligations.insert("harness-internal-panic-free".into(), false);
            run.notes.push(format!("harness panic in case {op:?} {}: {p}", s.line()));
        }
    };
    let sg0 = Sg { tsa: false, cert: 0, stapled: 0, cawg: None };

    // ---- read: relevant settings rf x of x so; all assets; the other settings at both extremes
    let others = [S::default(), S { sf: 2, at: true, sk: false, scp: true, va: false, di: false, ..S::default() }];
    for a in assets.iter().filter(|a| !a.name.starts_with("urlform-")) {
        for rf in bools() {
            for of in bools() {
                for so in 0..3u8 {
                    for o in &others {
                        let s = S { rf, of, so, ..*o };
                        for env in envs {
                            if env.tr != 1 {
                                continue; // no TSA involved in reading
                            }
                            for &m in modes {
                                do_case(run, &mut seen, Op::Read, m, s, *env, sg0, &[a]);
                            }
                        }
                    }
                }
            }
        }
    }

    // ---- sign without ingredient: of x va x so x signer; rf/sf/at at both extremes
    let signers: Vec<Sg> = {
        let mut v = vec![];
        for tsa in bools() {
            for (cert, stapled) in [(0, 0u8), (1, 0), (2, 0), (0, 1), (0, 2)] {
                v.push(Sg { tsa, cert, stapled, cawg: None });
            }
        }
        v
    };
    let others = [S { rf: false, ..S::default() }, S { rf: true, sf: 2, at: true, sk: false, scp: true, di: false, ..S::default() }];
    let none = by("none");
    for sg in &signers {
        for of in bools() {
            for va in bools() {
                for so in 0..3u8 {
                    for (oi, o) in others.iter().enumerate() {
                        let s = S { of, va, so, ..*o };
                        for env in envs {
                            if env.mr != 0 {
                                continue; // no manifest involved
                            }
                            for &m in modes {
                                do_case(run, &mut seen, Op::Sign, m, s, *env, *sg, &[none]);
                            }
                        }
                        if sg.tsa && (thorough || (so == 0 && oi == 0)) {
                            for &m in modes {
                                if m && !thorough {
                                    continue;
                                }
                                do_case(run, &mut seen, Op::Sign, m, s, ts_ok, *sg, &[none]);
                            }
                        }
                    }
                }
            }
        }
    }

    // ---- ingredient import + sign: full product of the gating settings x TSA x asset kind
    let kinds = ["emb-aia1", "rem-aia1", "both-aia1", "none", "ref-ftp", "nested"];
    let more_kinds = [
        "png-broken-both", "status-aia1", "emb-aia1-ts", "ref-upper", "emb-aia2", "rem-aia2", "emb-plain", "rem-plain", "emb-aia1-stapled", "emb-aia1-stapled-good", "rem-aia1-stapled", "nested-rem", "ref-relative",
        "ref-https", "png-rem", "png-both", "png-emb",
    ];
    let mut full: Vec<S> = vec![];
    for rf in bools() {
        for of in bools() {
            for sf in 0..3u8 {
                for so in 0..3u8 {
                    for at in bools() {
                        for va in bools() {
                            full.push(S { rf, of, sf, so, at, va, ..S::default() });
                        }
                    }
                }
            }
        }
    }
    for k in kinds {
        let a = by(k);
        for s in &full {
            for tsa in bools() {
                let sg = Sg { tsa, cert: 0, stapled: 0, cawg: None };
                do_case(run, &mut seen, Op::Import { explicit: false }, false, *s, EnvM::default(), sg, &[a]);
                if thorough {
                    do_case(run, &mut seen, Op::Import { explicit: false }, true, *s, EnvM::default(), sg, &[a]);
                    do_case(run, &mut seen, Op::Edit, false, *s, EnvM::default(), sg, &[a]);
                }
            }
        }
    }
    // time-stamp assertion selection: at x sk x scope x explicit x tsa, import and edit;
    // with a TSA that refuses (only the first request is seen) and one that answers (all are)
    for k in ["emb-aia1", "rem-aia1", "nested", "none", "emb-aia1-ts"] {
        let a = by(k);
        for at in bools() {
            for sk in bools() {
                for scp in bools() {
                    for tsa in bools() {
                        for rf in bools() {
                            let s = S { rf, at, sk, scp, ..S::default() };
                            let sg = Sg { tsa, cert: 0, stapled: 0, cawg: None };
                            for &m in modes {
                                for ex in bools() {
                                    do_case(run, &mut seen, Op::Import { explicit: ex }, m, s, EnvM::default(), sg, &[a]);
                                }
                                do_case(run, &mut seen, Op::Edit, m, s, EnvM::default(), sg, &[a]);
                                let quick_ok = !m && rf && (k == "nested" || k == "emb-aia1-ts");
                                if tsa && (thorough || quick_ok) {
                                    for ex in bools() {
                                        do_case(run, &mut seen, Op::Import { explicit: ex }, m, s, ts_ok, sg, &[a]);
                                    }
                                    do_case(run, &mut seen, Op::Edit, m, s, ts_ok, sg, &[a]);
                                }
                            }
                        }
                    }
                }
            }
        }
    }
    // two ingredients (disjoint stores) with a TSA that answers: every selected claim is requested
    for at in bools() {
        for sk in bools() {
            for scp in bools() {
                let s = S { at, sk, scp, ..S::default() };
                let sg = Sg { tsa: true, cert: 0, stapled: 0, cawg: None };
                let pairs: &[(&str, &str)] = if thorough { &[("emb-aia2", "nested"), ("nested", "emb-aia1-ts"), ("rem-aia1", "emb-aia2")] } else { &[("nested", "emb-aia1-ts")] };
                for (k1, k2) in pairs {
                    do_case(run, &mut seen, Op::Import2, false, s, ts_ok, sg, &[by(k1), by(k2)]);
                }
            }
        }
    }
    // reduced settings grid for the remaining dimensions
    let mut grid: Vec<S> = vec![];
    for rf in bools() {
        for of in bools() {
            for (sf, so) in [(0u8, 0u8), (2, 1), (1, 2), (2, 2)] {
                for at in bools() {
                    grid.push(S { rf, of, sf, so, at, ..S::default() });
                }
            }
        }
    }
    // asset certificate variants, containers, reference forms
    for k in more_kinds {
        let a = by(k);
        for s in &grid {
            for tsa in bools() {
                let sg = Sg { tsa, cert: 0, stapled: 0, cawg: None };
                for &m in modes {
                    do_case(run, &mut seen, Op::Import { explicit: false }, m, *s, EnvM::default(), sg, &[a]);
                }
            }
        }
    }
    // signer variants and transport answers
    for k in ["emb-aia1", "rem-aia2", "nested", "status-aia1"] {
        let a = by(k);
        for s in &grid {
            for sg in &signers {
                for env in envs {
                    do_case(run, &mut seen, Op::Import { explicit: false }, false, *s, *env, *sg, &[a]);
                    if thorough {
                        do_case(run, &mut seen, Op::Import { explicit: false }, true, *s, *env, *sg, &[a]);
                    }
                }
                let quick_ok = k == "nested" && s.rf && s.of && s.sf == 2 && s.so == 1;
                if sg.tsa && (quick_ok || (thorough && s.rf)) {
                    do_case(run, &mut seen, Op::Import { explicit: false }, false, *s, ts_ok, *sg, &[a]);
                }
            }
        }
    }
    // edit (automatic parent) and two ingredients over the grid
    for s in &grid {
        for tsa in bools() {
            let sg = Sg { tsa, cert: 1, stapled: 0, cawg: None };
            for &m in modes {
                for k in ["emb-aia1", "rem-aia1", "both-aia1", "none", "nested", "png-rem"] {
                    do_case(run, &mut seen, Op::Edit, m, *s, EnvM::default(), sg, &[by(k)]);
                }
                for (k1, k2) in [("emb-aia2", "rem-aia1"), ("rem-aia1", "emb-aia2"), ("rem-aia1", "rem-aia2"), ("none", "nested"), ("ref-ftp", "both-aia1")] {
                    do_case(run, &mut seen, Op::Import2, m, *s, EnvM::default(), sg, &[by(k1), by(k2)]);
                }
            }
        }
    }

    // ---- reference forms: is_valid_remote_url (url crate) and http::Request::get (http crate) on
    // references that are not of the plain form scheme://host/path. Read with fetching off / on
    // (the recorder knows none of these URLs: a fetch is answered 404), sync and async; the fixed
    // forms also as ingredient.
    let nf = EnvM { mr: 1, ..EnvM::default() };
    for a in assets.iter().filter(|a| a.name.starts_with("urlform-") && a.name != "urlform-template") {
        let fixed = a.name["urlform-".len()..].parse::<usize>().is_ok_and(|k| k < N_FIXED_URL_FORMS.load(Ordering::SeqCst) as usize);
        for rf in bools() {
            let s = S { rf, ..S::default() };
            do_case(run, &mut seen, Op::Read, false, s, nf, sg0, &[a]);
            if fixed {
                do_case(run, &mut seen, Op::Read, true, s, nf, sg0, &[a]);
                do_case(run, &mut seen, Op::Import { explicit: false }, false, s, nf, sg0, &[a]);
            }
        }
    }

    // ---- the signer the Context builds from its settings, with and without a TSA URL on the C2PA
    // signer and on the CAWG X.509 identity signer (`cawg_x509_signer.local.tsa_url`)
    for tsa in bools() {
        for ctsa in bools() {
            for va in bools() {
                for tr in [1u8, 0] {
                    if tr == 0 && !(tsa || ctsa) {
                        continue;
                    }
                    let s = S { va, ..S::default() };
                    let sg = Sg { tsa, cert: 2, stapled: 0, cawg: Some(ctsa) };
                    do_case(run, &mut seen, Op::SignSettings, false, s, EnvM { tr, ..EnvM::default() }, sg, &[none]);
                }
            }
        }
    }

    // ---- everything disabled: no fixture of the repository causes any request, whatever its
    // manifests, certificates (real AIA responders), remote references (cloud.jpg) or CAWG identity
    // assertions (did:web issuers) say
    quiet_sweep(run, &w, thorough);

    let stray = w.drain();
    run.obligations.insert("no-stray-request-after-last-case".into(), stray.is_empty());
    let _ = std::fs::remove_dir_all(&dir);
}
