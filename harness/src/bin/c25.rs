//! C25 — settings updates follow JSON-merge semantics and fail atomically.
//!
//! Request lines (see lean/C2paModel/Model/C25.lean):
//!   C25 merge t=<v> o=<v> d=<depth>                       -> <v>               (hook merge_json_depth)
//!   C25 set t=<v> p=<pct> v=<v>                           -> ok <v> | err      (hook set_at_path)
//!   C25 get t=<v> p=<pct>                                 -> some <v> | none   (hook get_at_path)
//!   C25 getval cur=<v> p=<pct>                            -> ok <sv> | err:bad (Settings::get_value::<Value>)
//!   C25 update cur=<v> fmt=<pct> pj=<v|!> pt=<v|!> n=<sv|!>
//!                         -> m=<v|-> ok s=<sv> | m=<v|-> err:<class> s=<sv>   (update_from_str / with_json / with_toml / Context::with_settings)
//!   C25 setval cur=<v> p=<pct> v=<v> n=<sv|!>            -> m=<v> ok s=<sv> | m=<v> err:<class> s=<sv>   (set_value / with_value)
//!   C25 tlfrom tl=<v> fmt=<pct> pj= pt= n=               -> ok s=<sv> tl=<v> | err:<class> tl=<v>   (Settings::from_string, thread-local)
//!   C25 tlset tl=<v> p=<pct> v=<v> n=                    -> ok tl=<v> | err:<class> tl=<v>          (set_thread_local_value)
//!   C25 ctx dflt=<v> cur=<v> pj= pt= nj= nt=             -> ok s=<sv> | err:<class> s=<sv>         (Context::set_settings(&str))
//!   C25 ctxval dflt=<v> cur=<v> pj= n=                   -> ok s=<sv> | err:<class> s=<sv>         (Context::set_settings(serde_json::Value))
//!   C25 file cur=<v> ext=<pct|-> u=<0|1> rd=<0|1> pj= pt= n=   -> ok s=<sv> | err:<class>           (Settings::with_file)
//!   C25 tlfile tl=<v> ext= u= rd= pj= pt= n=             -> ok s=<sv> tl=<v> | err:<class> tl=<v>  (Settings::from_file, thread-local)
//! <class> = the `c2pa::Error` variant name (BadParam, UnsupportedType, IoError, VersionCompatibility, …; never the message).
//! <v>  = n | t | f | #<number text>; | s<pct>; | [<v>*] | {(<pct>;<v>)*}   (insertion order)
//! <sv> = the same with keys sorted recursively; <pct> = [A-Za-z0-9_] literal, other bytes %xx.
//! `pj`/`pt` = what the JSON / TOML parser made of the document (`!` = rejected),
//! `n` = deserialize→validate→serialize of the merged value, executed by the real serde
//!       (`!` = rejected by the deserializer, `!<Variant>` = rejected by `validate` with that error variant).

use std::{fmt::Write as _, panic::AssertUnwindSafe};

use c2pa::{settings::Settings, verif_hooks::c25 as hk, Context};
use serde_json::{json, Map, Number, Value};
use sha2::{Digest, Sha256};
use vh::common::{guarded, main_with, Rng, Run};

fn main() {
    main_with("C25", run);
}

/// The documented recursion limit of the merge (`MERGE_MAX_DEPTH`); the oracle states it itself.
const LIMIT: usize = 64;

// ---------------------------------------------------------------- encoding

fn pct(s: &str, out: &mut String) {
    for b in s.bytes() {
        if b.is_ascii_alphanumeric() || b == b'_' {
            out.push(b as char);
        } else {
            let _ = write!(out, "%{:02x}", b);
        }
    }
}

fn pcts(s: &str) -> String {
    let mut o = String::new();
    pct(s, &mut o);
    o
}

fn enc_into(v: &Value, out: &mut String) {
    match v {
        Value::Null => out.push('n'),
        Value::Bool(true) => out.push('t'),
        Value::Bool(false) => out.push('f'),
        Value::Number(n) => {
            out.push('#');
            out.push_str(&n.to_string());
            out.push(';');
        }
        Value::String(s) => {
            out.push('s');
            pct(s, out);
            out.push(';');
        }
        Value::Array(a) => {
            out.push('[');
            for x in a {
                enc_into(x, out);
            }
            out.push(']');
        }
        Value::Object(m) => {
            out.push('{');
            for (k, x) in m {
                pct(k, out);
                out.push(';');
                enc_into(x, out);
            }
            out.push('}');
        }
    }
}

fn enc(v: &Value) -> String {
    let mut s = String::new();
    enc_into(v, &mut s);
    s
}

fn sorted(v: &Value) -> Value {
    match v {
        Value::Array(a) => Value::Array(a.iter().map(sorted).collect()),
        Value::Object(m) => {
            let mut ks: Vec<&String> = m.keys().collect();
            ks.sort_by(|a, b| a.as_bytes().cmp(b.as_bytes()));
            let mut o = Map::new();
            for k in ks {
                o.insert(k.clone(), sorted(&m[k]));
            }
            Value::Object(o)
        }
        x => x.clone(),
    }
}

fn enc_sorted(v: &Value) -> String {
    enc(&sorted(v))
}

fn key_of(req: &str) -> String {
    hex::encode(&Sha256::digest(req.as_bytes())[..12])
}

// ---------------------------------------------------------------- the laws, stated on serde values (oracle)

/// Recursive right-biased union below the depth limit, replacement otherwise — built
/// target-first (not by folding the overlay into the target as the implementation does).
fn ref_merge(t: &Value, o: &Value, d: usize) -> Value {
    match (t, o) {
        (Value::Object(tm), Value::Object(om)) if d < LIMIT => {
            let mut out = Map::new();
            for (k, tv) in tm {
                match om.get(k) {
                    Some(ov) => out.insert(k.clone(), ref_merge(tv, ov, d + 1)),
                    None => out.insert(k.clone(), tv.clone()),
                };
            }
            for (k, ov) in om {
                if !tm.contains_key(k) {
                    out.insert(k.clone(), ov.clone());
                }
            }
            Value::Object(out)
        }
        _ => o.clone(),
    }
}

fn ref_get<'a>(v: &'a Value, path: &str) -> Option<&'a Value> {
    let mut cur = v;
    for seg in path.split('.') {
        match cur {
            Value::Object(m) => cur = m.get(seg)?,
            _ => return None,
        }
    }
    Some(cur)
}

/// deserialize → validate → serialize with the real serde and the real validators.
fn norm_real(v: &Value) -> Option<(Settings, Value)> {
    let s: Settings = serde_json::from_value(v.clone()).ok()?;
    hk::validate(&s).ok()?;
    let out = serde_json::to_value(&s).ok()?;
    Some((s, out))
}

/// TOML document → JSON value, independently of `parse_to_value`.
fn toml_to_json(v: &toml::Value) -> Value {
    match v {
        toml::Value::String(s) => Value::String(s.clone()),
        toml::Value::Integer(i) => Value::Number(Number::from(*i)),
        toml::Value::Float(f) => Number::from_f64(*f).map(Value::Number).unwrap_or(Value::Null),
        toml::Value::Boolean(b) => Value::Bool(*b),
        toml::Value::Datetime(_) => serde_json::to_value(v).unwrap_or(Value::Null),
        toml::Value::Array(a) => Value::Array(a.iter().map(toml_to_json).collect()),
        toml::Value::Table(t) => Value::Object(t.iter().map(|(k, x)| (k.clone(), toml_to_json(x))).collect()),
    }
}

fn json_to_toml(v: &Value) -> Option<toml::Value> {
    Some(match v {
        Value::Null => return None,
        Value::Bool(b) => toml::Value::Boolean(*b),
        Value::Number(n) => {
            if let Some(i) = n.as_i64() {
                toml::Value::Integer(i)
            } else if n.is_u64() {
                return None;
            } else {
                toml::Value::Float(n.as_f64()?)
            }
        }
        Value::String(s) => toml::Value::String(s.clone()),
        Value::Array(a) => toml::Value::Array(a.iter().map(json_to_toml).collect::<Option<Vec<_>>>()?),
        Value::Object(m) => {
            let mut t = toml::map::Map::new();
            for (k, x) in m {
                t.insert(k.clone(), json_to_toml(x)?);
            }
            toml::Value::Table(t)
        }
    })
}

fn parse_json_ref(text: &str) -> Option<Value> {
    serde_json::from_str::<Value>(text).ok()
}

fn parse_toml_ref(text: &str) -> Option<Value> {
    toml::from_str::<toml::Value>(text).ok().map(|t| toml_to_json(&t))
}

fn parse_ref(text: &str, fmt: &str) -> Result<Value, &'static str> {
    match fmt.to_ascii_lowercase().as_str() {
        "json" => parse_json_ref(text).ok_or(BADPARAM),
        "toml" => parse_toml_ref(text).ok_or(BADPARAM),
        _ => Err(FORMAT),
    }
}

/// The variant name of the error (the identifier before any payload) — never its message.
fn err_class(e: &c2pa::Error) -> String {
    format!("{e:?}").chars().take_while(|c| c.is_ascii_alphanumeric() || *c == '_').collect()
}

const FORMAT: &str = "UnsupportedType";
const BADPARAM: &str = "BadParam";

/// `norm_real` with the reason of a rejection: `Err("")` = the deserializer refused (surfaces as
/// `BadParam`), `Err(variant)` = `validate` refused with that error variant.
fn norm_class(v: &Value) -> Result<(Settings, Value), String> {
    let s: Settings = serde_json::from_value(v.clone()).map_err(|_| String::new())?;
    hk::validate(&s).map_err(|e| err_class(&e))?;
    let out = serde_json::to_value(&s).map_err(|_| "to_value".to_string())?;
    Ok((s, out))
}

/// the `n=` field of a request: what `norm` does with the merged value the implementation built
fn n_enc(merged: Option<&Value>) -> String {
    match merged.map(norm_class) {
        None => "!".to_string(),
        Some(Ok((_, v))) => enc_sorted(&v),
        Some(Err(c)) => format!("!{c}"),
    }
}

/// the error variant the caller must see when `norm` refuses `v` (oracle side)
fn norm_err_class(v: &Value) -> Option<String> {
    match norm_class(v) {
        Ok(_) => None,
        Err(c) if c.is_empty() => Some(BADPARAM.to_string()),
        Err(c) => Some(c),
    }
}

// ---------------------------------------------------------------- generators

const KEYS: &[&str] = &["a", "b", "c", "k", "verify", "", "x.y", "é", "0", "A"];

fn rnd_scalar(r: &mut Rng) -> Value {
    match r.below(9) {
        0 => Value::Null,
        1 => Value::Bool(true),
        2 => Value::Bool(false),
        3 => json!(r.below(50)),
        4 => json!(-(r.below(50) as i64) - 1),
        5 => json!(1.5),
        6 => json!(u64::MAX - r.below(3)),
        7 => Value::String(r.pick(&["", "x", "hello world", "ü.ñ", "a b=c"]).to_string()),
        _ => Value::String(format!("s{}", r.below(5))),
    }
}

fn rnd_tree(r: &mut Rng, depth: usize) -> Value {
    let k = if depth == 0 { r.below(6) } else { r.below(10) };
    match k {
        0..=5 => rnd_scalar(r),
        6 => Value::Array((0..r.below(3)).map(|_| rnd_tree(r, depth - 1)).collect()),
        _ => rnd_obj(r, depth - 1),
    }
}

fn rnd_obj(r: &mut Rng, depth: usize) -> Value {
    let mut m = Map::new();
    for _ in 0..r.below(5) {
        let k = r.pick(KEYS).to_string();
        let v = if depth > 0 && r.chance(1, 2) { rnd_obj(r, depth - 1) } else { rnd_tree(r, depth) };
        m.insert(k, v);
    }
    Value::Object(m)
}

/// `levels` nested objects under key `k`, each level optionally with a sibling; `leaf` at the bottom.
fn chain(levels: usize, leaf: Value, sib: Option<(&str, u64)>) -> Value {
    let mut v = leaf;
    for i in (0..levels).rev() {
        let mut m = Map::new();
        m.insert("k".to_string(), v);
        if let Some((name, tag)) = sib {
            m.insert(name.to_string(), json!(tag * 1000 + i as u64));
        }
        v = Value::Object(m);
    }
    v
}

fn rnd_path(r: &mut Rng) -> String {
    match r.below(12) {
        0 => String::new(),
        1 => ".".to_string(),
        2 => "a..b".to_string(),
        3 => ".a".to_string(),
        4 => "a.".to_string(),
        _ => {
            let n = r.range(1, 5);
            (0..n)
                .map(|_| r.pick(&["a", "b", "c", "k", "verify", "é", "0", "A", ""]).to_string())
                .collect::<Vec<_>>()
                .join(".")
        }
    }
}

/// Paths that exist in `v` (object walk), for get/set on present paths.
fn existing_paths(v: &Value, prefix: Option<&str>, out: &mut Vec<String>) {
    if let Value::Object(m) = v {
        for (k, x) in m {
            if k.contains('.') {
                continue;
            }
            let p = match prefix {
                Some(pre) => format!("{pre}.{k}"),
                None => k.clone(),
            };
            out.push(p.clone());
            existing_paths(x, Some(&p), out);
        }
    }
}

const KNOWN_OPTION_PATHS: &[&str] = &[
    "trust.user_anchors",
    "trust.trust_anchors",
    "trust.trust_config",
    "trust.allowed_list",
    "cawg_trust.user_anchors",
    "cawg_trust.trust_anchors",
    "cawg_trust.trust_config",
    "cawg_trust.allowed_list",
    "cawg_trust.trusted_ica_issuers",
    "core.merkle_tree_chunk_size_in_kb",
    "core.allowed_network_hosts",
    "builder.vendor",
    "builder.thumbnail.format",
    "builder.actions.all_actions_included",
    "builder.actions.templates",
    "builder.actions.actions",
    "builder.certificate_status_fetch",
    "builder.certificate_status_should_override",
    "builder.intent",
    "builder.created_assertion_labels",
    "builder.generate_c2pa_archive",
    "soft_binding.soft_binding_algorithms",
];

struct Schema {
    dflt: Value,
    /// every path of the default settings value with the default found there
    nodes: Vec<(String, Value)>,
}

impl Schema {
    fn new() -> Self {
        let dflt = serde_json::to_value(Settings::default()).expect("default settings");
        let mut nodes = vec![];
        fn walk(v: &Value, p: &str, out: &mut Vec<(String, Value)>) {
            if let Value::Object(m) = v {
                for (k, x) in m {
                    let q = if p.is_empty() { k.clone() } else { format!("{p}.{k}") };
                    out.push((q.clone(), x.clone()));
                    walk(x, &q, out);
                }
            }
        }
        walk(&dflt, "", &mut nodes);
        // optional members the serializer may leave out of the default value: they are schema
        // paths all the same (tracked and given edge values like the others)
        for p in KNOWN_OPTION_PATHS {
            if !nodes.iter().any(|(q, _)| q == p) {
                nodes.push((p.to_string(), Value::Null));
            }
        }
        Schema { dflt, nodes }
    }
}

/// Paths the default value does not show (skipped `None`s, free-form maps) with values that fit.
fn extra_valid(r: &mut Rng) -> (String, Value) {
    let deep = r.range(0, 70) as usize;
    let cands: Vec<(&str, Value)> = vec![
        ("builder.thumbnail.format", json!(r.pick(&["png", "jpeg", "gif", "webp", "tiff", "PNG"]))),
        ("builder.actions.all_actions_included", json!(r.chance(1, 2))),
        ("builder.actions.templates", json!([{"action": "c2pa.edited", "template_parameters": {"p": chain(r.below(4) as usize, json!(1), None)}}])),
        ("builder.actions.actions", json!([{"action": "c2pa.edited", "description": "d"}])),
        ("builder.actions.auto_created_action", json!({"enabled": true, "source_type": "empty"})),
        ("builder.actions.auto_created_action.source_type", json!(r.pick(&["empty", "digitalCapture", "http://cv.iptc.org/newscodes/digitalsourcetype/digitalCapture"]))),
        ("builder.actions.auto_opened_action.source_type", json!("empty")),
        ("builder.claim_generator_info", json!({"name": format!("gen{}", r.below(3)), "version": "1.0"})),
        ("builder.claim_generator_info", json!({"name": "deep", "x": chain(deep, json!(r.below(9)), Some(("s", r.below(5))))})),
        ("builder.claim_generator_info.x", chain(deep, json!(r.below(9)), Some((*r.pick(&["s", "u"]), r.below(5))))),
        ("builder.claim_generator_info.name", json!("renamed")),
        ("builder.claim_generator_info.extra", rnd_tree(r, 3)),
        ("signer", json!({"local": {"alg": "es256", "sign_cert": "C", "private_key": "K", "tsa_url": null}})),
        ("signer.local.tsa_url", json!("http://tsa.example")),
        ("cawg_x509_signer", json!({"remote": {"url": "http://s.example", "alg": "ps256", "sign_cert": "C"}})),
        ("signer", Value::Null),
        ("trust.user_anchors", json!(r.pick(&["QUJD", "aGVsbG8gd29ybGQ="]))),
        ("trust.trust_config", json!("1.3.6.1.5.5.7.3.4")),
        ("cawg_trust.allowed_list", json!("QUJD")),
        ("cawg_trust.trusted_ica_issuers", json!(["did:web:example.com"])),
        ("core.merkle_tree_chunk_size_in_kb", json!(r.below(4096))),
        ("core.allowed_network_hosts", json!(["*.example.com", "https://a.example:443"])),
        ("core.allowed_network_hosts", json!([])),
        ("core.max_decompressed_manifest_size_in_mb", json!(r.range(0, 1024))),
        ("builder.vendor", json!("acme")),
        ("builder.intent", json!(r.pick(&["edit", "update", "Edit"]))),
        ("builder.intent", json!({"create": "digitalCapture"})),
        ("builder.certificate_status_fetch", json!(r.pick(&["all", "active", "ALL"]))),
        ("builder.certificate_status_should_override", json!(r.chance(1, 2))),
        ("builder.created_assertion_labels", json!(["c2pa.metadata", "x.y"])),
        ("builder.generate_c2pa_archive", json!(r.chance(1, 2))),
        ("builder.thumbnail.quality", json!(r.pick(&["low", "medium", "high", "HIGH", "Low"]))),
        ("builder.auto_timestamp_assertion.fetch_scope", json!(r.pick(&["all", "parent", "Parent"]))),
        ("soft_binding.soft_binding_algorithms", json!(["com.example.alg"])),
        ("version", json!(r.below(2))),
    ];
    let (p, v) = cands[r.below(cands.len() as u64) as usize].clone();
    (p.to_string(), v)
}

/// Values that deserialize but fail `validate`.
fn invalid_by_validation(r: &mut Rng) -> (String, Value) {
    let cands: Vec<(&str, Value)> = vec![
        ("version", json!(r.range(2, 9))),
        ("core.max_decompressed_manifest_size_in_mb", json!(r.range(1025, 5000))),
        ("builder.actions.auto_created_action", json!({"enabled": true})),
        ("builder.actions.auto_created_action.enabled", json!(true)),
        ("trust.user_anchors", json!("not base64 !!")),
        ("trust.allowed_list", json!("***")),
        ("cawg_trust.trust_anchors", json!("-----BEGIN CERTIFICATE-----\n???\n-----END CERTIFICATE-----")),
    ];
    let (p, v) = cands[r.below(cands.len() as u64) as usize].clone();
    (p.to_string(), v)
}

fn wrong_type(dflt: &Value, r: &mut Rng) -> Value {
    let pool = [
        json!(true),
        json!(7),
        json!(-1),
        json!(1.5),
        json!("str"),
        json!([]),
        json!([1]),
        json!({}),
        json!({"a": 1}),
        Value::Null,
    ];
    for _ in 0..8 {
        let c = r.pick(&pool).clone();
        if std::mem::discriminant(&c) != std::mem::discriminant(dflt) {
            return c;
        }
    }
    json!([[]])
}

fn same_type(dflt: &Value, r: &mut Rng) -> Value {
    match dflt {
        Value::Bool(_) => json!(r.chance(1, 2)),
        Value::Number(_) => json!(r.below(1000)),
        Value::String(s) => Value::String(s.clone()),
        other => other.clone(),
    }
}

fn put(doc: &mut Value, path: &str, v: Value) {
    let segs: Vec<&str> = path.split('.').collect();
    let mut cur = doc;
    for (i, s) in segs.iter().enumerate() {
        if !cur.is_object() {
            *cur = Value::Object(Map::new());
        }
        let m = cur.as_object_mut().expect("object");
        if i + 1 == segs.len() {
            m.insert(s.to_string(), v);
            return;
        }
        cur = m.entry(s.to_string()).or_insert_with(|| Value::Object(Map::new()));
    }
}

#[derive(Default)]
struct DocInfo {
    kinds: Vec<&'static str>,
}

/// A settings document over the real schema: 1–5 edits of mixed kinds.
fn gen_doc(sc: &Schema, cur: &Value, r: &mut Rng, info: &mut DocInfo) -> Value {
    match r.below(40) {
        0 => {
            info.kinds.push("empty_object");
            return json!({});
        }
        1 => {
            info.kinds.push("non_object_root");
            return rnd_scalar(r);
        }
        2 => {
            info.kinds.push("full_current");
            return cur.clone();
        }
        3 => {
            info.kinds.push("full_default");
            return sc.dflt.clone();
        }
        _ => {}
    }
    let mut doc = json!({});
    let mostly_valid = r.chance(3, 5);
    for _ in 0..r.range(1, 5) {
        let k = if mostly_valid { r.below(6) } else { r.below(12) };
        match k {
            0 | 1 => {
                let (p, d) = r.pick(&sc.nodes).clone();
                info.kinds.push("schema_same_type");
                put(&mut doc, &p, same_type(&d, r));
            }
            2..=4 => {
                let (p, v) = extra_valid(r);
                info.kinds.push("typed_valid");
                put(&mut doc, &p, v);
            }
            5 => {
                // unknown key somewhere (ignored by the deserializer)
                let objs: Vec<&(String, Value)> = sc.nodes.iter().filter(|(_, v)| v.is_object()).collect();
                let base = if r.chance(1, 4) { String::new() } else { r.pick(&objs).0.clone() };
                let key = format!("zz_{}", r.below(4));
                let p = if base.is_empty() { key } else { format!("{base}.{key}") };
                info.kinds.push("unknown_key");
                put(&mut doc, &p, rnd_tree(r, 3));
            }
            6 | 7 => {
                let (p, d) = r.pick(&sc.nodes).clone();
                info.kinds.push("wrong_type");
                put(&mut doc, &p, wrong_type(&d, r));
            }
            8 => {
                let (p, _) = r.pick(&sc.nodes).clone();
                info.kinds.push("null");
                put(&mut doc, &p, Value::Null);
            }
            9 | 10 => {
                let (p, v) = invalid_by_validation(r);
                info.kinds.push("fails_validation");
                put(&mut doc, &p, v);
            }
            _ => {
                let (p, _) = r.pick(&sc.nodes).clone();
                info.kinds.push("below_leaf");
                put(&mut doc, &format!("{p}.sub"), rnd_scalar(r));
            }
        }
    }
    doc
}

fn json_text(doc: &Value, r: &mut Rng) -> String {
    if r.chance(1, 3) {
        serde_json::to_string_pretty(doc).expect("json")
    } else {
        serde_json::to_string(doc).expect("json")
    }
}

fn toml_text(doc: &Value) -> Option<String> {
    match json_to_toml(doc)? {
        t @ toml::Value::Table(_) => toml::to_string(&t).ok(),
        _ => None,
    }
}

fn corrupt(text: &str, r: &mut Rng) -> String {
    let mut cs: Vec<char> = text.chars().collect();
    match r.below(4) {
        0 => {
            let n = r.below(cs.len() as u64 + 1) as usize;
            cs.truncate(n);
        }
        1 => {
            let i = r.below(cs.len() as u64 + 1) as usize;
            cs.insert(i, *r.pick(&['{', '}', '"', ',', ']', '=', '\n', 'x']));
        }
        2 => {
            if !cs.is_empty() {
                let i = r.below(cs.len() as u64) as usize;
                cs.remove(i);
            }
        }
        _ => return r.pick(&["", "{", "invalid toml { ]", "{ invalid json }", "a = ", "[x", "null", "[]", "7", "a = 1\na = 2"]).to_string(),
    }
    cs.into_iter().collect()
}

fn gen_fmt(r: &mut Rng, natural: &str) -> String {
    match r.below(20) {
        0 => natural.to_uppercase(),
        1 => {
            let mut c = natural.chars();
            c.next().map(|f| f.to_uppercase().collect::<String>() + c.as_str()).unwrap_or_default()
        }
        2 => r.pick(&["yaml", "", "jsonc", "tom", "json ", "xml"]).to_string(),
        _ => natural.to_string(),
    }
}

// ---------------------------------------------------------------- hook-level cases

fn case_merge(run: &mut Run, t: Value, o: Value, d: usize) {
    let req = format!("C25 merge t={} o={} d={}", enc(&t), enc(&o), d);
    let got = guarded(AssertUnwindSafe(|| {
        let mut x = t.clone();
        if d == 0 {
            hk::merge_json(&mut x, o.clone());
        } else {
            hk::merge_json_depth(&mut x, o.clone(), d);
        }
        x
    }));
    let got = match got {
        Ok(v) => v,
        Err(p) => {
            let idx = run.case(req, "panic".to_string());
            run.fail(idx, "panic", p);
            return;
        }
    };
    let both_obj = t.is_object() && o.is_object();
    let shared_obj = both_obj
        && t.as_object().unwrap().iter().any(|(k, tv)| tv.is_object() && o.get(k).map(|x| x.is_object()).unwrap_or(false));
    run.count(if !both_obj {
        "merge_replace"
    } else if shared_obj {
        "merge_recursive"
    } else {
        "merge_flat"
    });
    if d >= 58 {
        run.count("merge_near_depth_limit");
    }
    if shared_obj {
        run.nontrivial(key_of(&req));
    }
    let idx = run.case(req, enc(&got));
    let want = ref_merge(&t, &o, d);
    if want != got {
        run.fail(idx, "merge-law", format!("merge_json_depth gave {} but the recursive right-biased union is {}", got, want));
    }
    // idempotence, evaluated on the implementation
    let mut again = got.clone();
    hk::merge_json_depth(&mut again, o.clone(), d);
    if again != got {
        run.fail(idx, "merge-not-idempotent", format!("merging the overlay a second time changed the result: {} -> {}", got, again));
    }
    // every leaf of the overlay is read back from the merged value
    let mut leaves = vec![];
    collect_leaves(&o, &mut vec![], &mut leaves);
    for (segs, leaf) in leaves {
        let mut cur = Some(&got);
        for s in &segs {
            cur = cur.and_then(|c| c.as_object()).and_then(|m| m.get(s));
        }
        if cur != Some(&leaf) {
            run.fail(idx, "merge-leaf-lost", format!("overlay leaf at {:?} = {} is not in the merged value", segs, leaf));
            break;
        }
    }
}

fn collect_leaves(v: &Value, pre: &mut Vec<String>, out: &mut Vec<(Vec<String>, Value)>) {
    match v {
        Value::Object(m) if !m.is_empty() => {
            for (k, x) in m {
                pre.push(k.clone());
                collect_leaves(x, pre, out);
                pre.pop();
            }
        }
        Value::Object(_) => {}
        leaf => out.push((pre.clone(), leaf.clone())),
    }
}

fn case_set(run: &mut Run, t: Value, p: String, v: Value) {
    let req = format!("C25 set t={} p={} v={}", enc(&t), pcts(&p), enc(&v));
    let mut x = t.clone();
    let res = hk::set_at_path(&mut x, &p, v.clone());
    run.count(if p.contains('.') { "set_nested" } else { "set_top" });
    if p.split('.').count() >= 2 {
        run.nontrivial(key_of(&req));
    }
    let imp = match &res {
        Ok(()) => format!("ok {}", enc(&x)),
        Err(_) => "err".to_string(),
    };
    let idx = run.case(req, imp);
    match res {
        Ok(()) => {
            if hk::get_at_path(&x, &p) != Some(&v) || ref_get(&x, &p) != Some(&v) {
                run.fail(idx, "get-after-set", format!("after set_at_path({p:?}) get_at_path returns {:?}, not {}", hk::get_at_path(&x, &p), v));
            }
            // frame at every depth (set_frame): a path that is neither a prefix of `p` nor below
            // `p` reads the same before and after
            let psegs: Vec<&str> = p.split('.').collect();
            let mut qs = vec![];
            existing_paths(&t, None, &mut qs);
            let mut deep_siblings = 0;
            for q in &qs {
                let qsegs: Vec<&str> = q.split('.').collect();
                let n = psegs.len().min(qsegs.len());
                if psegs[..n] == qsegs[..n] {
                    continue; // one is a prefix of the other
                }
                if qsegs.len() >= 2 {
                    deep_siblings += 1;
                }
                if hk::get_at_path(&x, q) != hk::get_at_path(&t, q) {
                    run.fail(idx, "set-frame", format!("set_at_path({p:?}) changed the unrelated path {q:?}"));
                    break;
                }
            }
            if deep_siblings > 0 && psegs.len() >= 2 {
                run.count("set_frame_nested_siblings_checked");
            }
            // frame: other top-level keys are untouched
            let first = p.split('.').next().unwrap_or("");
            if let (Value::Object(tm), Value::Object(xm)) = (&t, &x) {
                for (k, tv) in tm {
                    if k != first && xm.get(k) != Some(tv) {
                        run.fail(idx, "set-frame", format!("set_at_path({p:?}) changed unrelated key {k:?}"));
                        break;
                    }
                }
            }
        }
        Err(e) => run.fail(idx, "set-error", format!("set_at_path({p:?}) failed: {e}")),
    }
}

fn case_get(run: &mut Run, t: Value, p: String) {
    let req = format!("C25 get t={} p={}", enc(&t), pcts(&p));
    let got = hk::get_at_path(&t, &p).cloned();
    run.count(if got.is_some() { "get_some" } else { "get_none" });
    if got.is_some() && p.contains('.') {
        run.nontrivial(key_of(&req));
    }
    let imp = match &got {
        Some(v) => format!("some {}", enc(v)),
        None => "none".to_string(),
    };
    let idx = run.case(req, imp);
    if got.as_ref() != ref_get(&t, &p) {
        run.fail(idx, "get-law", format!("get_at_path({p:?}) = {:?}, walking the objects gives {:?}", got, ref_get(&t, &p)));
    }
}

// ---------------------------------------------------------------- settings-level cases

struct Tl {
    at_start: Value,
    /// what the current session has set so far (path -> value set), checked after every step
    track: std::cell::RefCell<Track>,
}

/// Ledger of the values a multi-step session has SET on schema paths. The expectation is the
/// value that was set — never a value that went through deserialize/serialize.
#[derive(Default)]
struct Track {
    /// schema paths of `to_value(Settings::default())` with the default found there
    schema: std::collections::BTreeMap<String, Value>,
    ledger: Vec<(String, Value, usize)>,
    step: usize,
}

fn related(a: &str, b: &str) -> bool {
    a == b || a.is_empty() || b.is_empty() || a.strip_prefix(b).map(|r| r.starts_with('.')).unwrap_or(false)
        || b.strip_prefix(a).map(|r| r.starts_with('.')).unwrap_or(false)
}

/// leaves of an overlay document: (dotted path, value); an empty object is a leaf; the root
/// being a non-object is the single leaf "" (everything is named).
fn overlay_leaves(v: &Value, pre: &str, out: &mut Vec<(String, Value)>) {
    overlay_leaves_at(v, pre, 0, out)
}

/// An object `LIMIT` levels down replaces the target's value wholesale (the documented depth
/// limit of the merge), so it names its whole subtree: it is a leaf here.
fn overlay_leaves_at(v: &Value, pre: &str, depth: usize, out: &mut Vec<(String, Value)>) {
    match v {
        Value::Object(m) if !m.is_empty() && depth < LIMIT => {
            for (k, x) in m {
                let p = if depth == 0 { k.clone() } else { format!("{pre}.{k}") };
                overlay_leaves_at(x, &p, depth + 1, out);
            }
        }
        leaf => out.push((pre.to_string(), leaf.clone())),
    }
}

fn diff_paths(a: &Value, b: &Value, pre: &str, out: &mut Vec<String>) {
    match (a, b) {
        (Value::Object(x), Value::Object(y)) => {
            let mut ks: Vec<&String> = x.keys().chain(y.keys()).collect();
            ks.sort();
            ks.dedup();
            for k in ks {
                let p = if pre.is_empty() { k.clone() } else { format!("{pre}.{k}") };
                match (x.get(k), y.get(k)) {
                    (Some(p1), Some(p2)) => diff_paths(p1, p2, &p, out),
                    _ => out.push(p),
                }
            }
        }
        _ => {
            if a != b {
                out.push(pre.to_string());
            }
        }
    }
}

/// Values that a schema path must give back exactly as set (no case folding, no defaults
/// filled in): null, booleans, non-negative integers, the empty string, empty arrays and
/// arrays of plain strings. Objects are not tracked (missing members are filled in).
fn trackable(path: &str, dflt: &Value, v: &Value) -> bool {
    match v {
        Value::Null => true,
        Value::Bool(_) => dflt.is_boolean() || dflt.is_null(),
        Value::Number(n) => n.is_u64() && (dflt.is_number() || dflt.is_null()),
        Value::String(s) => s.is_empty() && dflt.is_null(),
        Value::Array(a) => {
            (dflt.is_null() || dflt.is_array())
                && (a.is_empty() || (a.iter().all(|x| x.is_string()) && !path.ends_with("allowed_network_hosts")))
        }
        Value::Object(_) => false,
    }
}

const SECTIONS: &[&str] = &["version", "trust", "cawg_trust", "core", "verify", "builder", "signer", "cawg_x509_signer", "soft_binding"];

fn section_eq(a: &Settings, b: &Settings, sec: &str) -> bool {
    match sec {
        "version" => a.version == b.version,
        "trust" => a.trust == b.trust,
        "cawg_trust" => a.cawg_trust == b.cawg_trust,
        "core" => a.core == b.core,
        "verify" => a.verify == b.verify,
        "builder" => a.builder == b.builder,
        "signer" => a.signer == b.signer,
        "cawg_x509_signer" => a.cawg_x509_signer == b.cawg_x509_signer,
        "soft_binding" => a.soft_binding == b.soft_binding,
        _ => true,
    }
}

/// The sequence oracle, evaluated on the implementation after every step of a session:
///  * frame: what the step did not name is unchanged — per settings section on the structs
///    themselves (no serializer in between) and per path on `to_value`;
///  * an update with the empty document is the identity on the settings reached;
///  * every path set earlier in the session (and not named since) still reads back the value SET.
fn post_step(run: &mut Run, idx: usize, tl: &Tl, before: &Settings, after: &Settings, named: &[(String, Value)], ok: bool, what: &str) {
    let mut trk = tl.track.borrow_mut();
    trk.step += 1;
    let step = trk.step;
    if ok {
        let names_all = named.iter().any(|(p, _)| p.is_empty());
        if !names_all {
            for sec in SECTIONS {
                let is_named = named.iter().any(|(p, _)| related(p, sec));
                if !is_named && !section_eq(before, after, sec) {
                    run.fail(idx, "frame", format!("step {step} ({what}) names only {:?} but settings section `{sec}` changed", named.iter().map(|x| &x.0).collect::<Vec<_>>()));
                }
            }
            let (bv, av) = (serde_json::to_value(before).expect("to_value"), serde_json::to_value(after).expect("to_value"));
            let mut d = vec![];
            diff_paths(&bv, &av, "", &mut d);
            for p in d {
                if !named.iter().any(|(q, _)| related(q, &p)) {
                    run.fail(idx, "frame", format!("step {step} ({what}) names only {:?} but `{p}` changed", named.iter().map(|x| &x.0).collect::<Vec<_>>()));
                    break;
                }
            }
        }
        // the empty document changes nothing
        match after.with_json("{}") {
            Ok(same) if same == *after => {}
            Ok(_) => run.fail(idx, "empty-overlay-not-identity", format!("after step {step} ({what}) an update with the empty document `{{}}` changes the settings")),
            Err(e) => run.fail(idx, "empty-overlay-not-identity", format!("after step {step} ({what}) an update with the empty document fails: {e}")),
        }
        // ledger: forget what this step named, remember what it set
        trk.ledger.retain(|(p, _, _)| !named.iter().any(|(q, _)| related(q, p)));
        for (p, v) in named {
            if let Some(d) = trk.schema.get(p) {
                if trackable(p, d, v) {
                    let entry = (p.clone(), v.clone(), step);
                    trk.ledger.push(entry);
                }
            }
        }
    }
    // everything set earlier still reads back the value that was set
    for (p, v, at) in trk.ledger.iter() {
        let got = after.get_value::<Value>(p);
        let fine = match (&got, v) {
            (Ok(g), v) if g == v => true,
            (Err(_), Value::Null) => true, // an absent optional and an explicit null are the same setting
            _ => false,
        };
        if !fine {
            run.fail(idx, "set-value-lost", format!("`{p}` was set to {v} in step {at}; after step {step} ({what}) get_value gives {:?}", got.as_ref().ok()));
        } else if *at < step {
            run.count("ledger_readback_after_later_step");
        }
    }
}

fn tl_check(run: &mut Run, idx: usize, tl: &Tl, what: &str) {
    let now = hk::thread_local_value();
    if now != tl.at_start {
        run.fail(idx, "thread-local-touched", format!("{what} changed the thread-local settings value"));
    }
}

struct ParsedDoc {
    pj: Option<Value>,
    pt: Option<Value>,
}

fn hook_parse(text: &str) -> ParsedDoc {
    ParsedDoc {
        pj: hk::parse_to_value(text, "json").ok(),
        pt: hk::parse_to_value(text, "toml").ok(),
    }
}

fn pv(v: &Option<Value>) -> String {
    match v {
        Some(v) => enc(v),
        None => "!".to_string(),
    }
}

/// One overlay step on a real `Settings` (update_from_str / with_json / with_toml / Context::with_settings).
fn step_update(run: &mut Run, tl: &Tl, s: &mut Settings, text: &str, fmt: &str, r: &mut Rng, kinds: &[&'static str]) {
    let before = s.clone();
    let cur = serde_json::to_value(&before).expect("to_value");
    let pd = hook_parse(text);
    // the implementation's own pieces on exactly these inputs
    let overlay = hk::parse_to_value(text, fmt);
    let merged = overlay.as_ref().ok().map(|ov| {
        let mut m = cur.clone();
        hk::merge_json(&mut m, ov.clone());
        m
    });
    let n = merged.as_ref().and_then(norm_real);
    let req = format!(
        "C25 update cur={} fmt={} pj={} pt={} n={}",
        enc(&cur),
        pcts(fmt),
        pv(&pd.pj),
        pv(&pd.pt),
        n_enc(merged.as_ref())
    );
    // the public API
    let variant = match (fmt, r.below(4)) {
        ("json", 0) => "with_json",
        ("toml", 0) => "with_toml",
        ("json", 1) if before == Settings::default() && parse_json_ref(text).is_some() => "context_value",
        _ => "update_from_str",
    };
    run.count(&format!("api_{variant}"));
    let res: Result<Result<(), c2pa::Error>, String> = guarded(AssertUnwindSafe(|| match variant {
        "with_json" => s.with_json(text).map(|n| *s = n),
        "with_toml" => s.with_toml(text).map(|n| *s = n),
        "context_value" => {
            let v: Value = serde_json::from_str(text).expect("json");
            Context::new().with_settings(v).map(|c| *s = c.settings().clone())
        }
        _ => s.update_from_str(text, fmt),
    }));
    let res = match res {
        Ok(x) => x,
        Err(p) => {
            let idx = run.case(req, "panic".to_string());
            run.fail(idx, "panic", p);
            return;
        }
    };
    let after = serde_json::to_value(&*s).expect("to_value");
    let m_s = merged.as_ref().map(enc).unwrap_or_else(|| "-".to_string());
    let imp = match &res {
        Ok(()) => format!("m={} ok s={}", m_s, enc_sorted(&after)),
        Err(e) => format!("m={} err:{} s={}", m_s, err_class(e), enc_sorted(&after)),
    };
    for k in kinds {
        run.count(&format!("doc_{k}"));
    }
    run.count(if res.is_ok() { "update_ok" } else { "update_err" });
    let idx = run.case(req.clone(), imp);

    // ---- the property, on the implementation
    let want = parse_ref(text, fmt).map(|ov| ref_merge(&cur, &ov, 0));
    match (&want, &res) {
        (Ok(wm), Ok(())) => match norm_real(wm) {
            Some((ws, wv)) => {
                if wv != after || ws != *s {
                    run.fail(idx, "merge-law", format!("settings after the update differ from the recursive merge of the previous settings with the document (fmt {fmt})"));
                }
                if after != cur {
                    run.nontrivial(key_of(&req));
                }
            }
            None => run.fail(idx, "invalid-accepted", format!("update succeeded although the merged document does not deserialize/validate (fmt {fmt})")),
        },
        (Ok(_), Err(e)) if fmt != "json" && fmt != "toml" && err_class(e) == FORMAT => {
            // the statement does not require format names to be matched case-insensitively
            run.count("format_name_variant_rejected");
        }
        (Ok(wm), Err(e)) => {
            match norm_err_class(wm) {
                None => run.fail(idx, "valid-rejected", format!("update failed ({e}) although the merged document deserializes and validates (fmt {fmt})")),
                Some(want_cls) => {
                    run.count("rejected_after_parse");
                    run.count(&format!("rejected_as_{want_cls}"));
                    run.nontrivial(key_of(&req));
                    // the caller sees the deserializer's refusal as BadParam and a validator's error as it is
                    if err_class(e) != want_cls {
                        run.fail(idx, "error-kind", format!("the merged document is refused with {want_cls}, the update reports {}", err_class(e)));
                    }
                }
            }
        }
        (Err(_), Ok(())) => run.fail(idx, "invalid-accepted", format!("update succeeded although the document does not parse as {fmt:?}")),
        (Err(c), Err(e)) => {
            run.count(if *c == FORMAT { "rejected_format" } else { "rejected_parse" });
            // an unsupported format name is UnsupportedType, an unparsable document is BadParam
            if err_class(e) != *c {
                run.fail(idx, "error-kind", format!("format {fmt:?}: expected {c}, got error {e}"));
            }
        }
    }
    if res.is_err() && (*s != before || after != cur) {
        run.fail(idx, "atomicity", format!("failed update (fmt {fmt}) changed the settings"));
    }
    {
        let mut named = vec![];
        if let Ok(ov) = parse_ref(text, fmt) {
            overlay_leaves(&ov, "", &mut named);
        }
        post_step(run, idx, tl, &before, s, &named, res.is_ok(), variant);
    }
    // deserialisation does not depend on key order (the hypothesis of json_toml_equiv)
    if let Some(m) = &merged {
        if norm_real(&sorted(m)).map(|x| x.1) != n.as_ref().map(|x| x.1.clone()) {
            run.fail(idx, "deserialize-order-dependent", "sorting the keys of the merged document changes what it deserializes to".to_string());
        }
    }
    tl_check(run, idx, tl, variant);
}

/// JSON and the equivalent TOML give equal settings (from the same starting point).
fn check_json_toml(run: &mut Run, s: &Settings, doc: &Value, jtext: &str) {
    let Some(ttext) = toml_text(doc) else {
        run.count("toml_unrepresentable");
        return;
    };
    // equivalence of the two texts, decided without the code under test
    match (parse_json_ref(jtext), parse_toml_ref(&ttext)) {
        (Some(a), Some(b)) if a == b => {}
        _ => {
            run.count("toml_not_equivalent");
            return;
        }
    }
    run.count("json_toml_pairs");
    let a = s.with_json(jtext);
    let b = s.with_toml(&ttext);
    let idx = run.reqs.len().saturating_sub(1);
    match (a, b) {
        (Ok(x), Ok(y)) => {
            if x != y || serde_json::to_value(&x).ok() != serde_json::to_value(&y).ok() {
                run.fail(idx, "json-toml-differ", format!("equivalent documents give different settings: json {jtext} / toml {ttext:?}"));
            }
        }
        (Err(_), Err(_)) => {}
        (x, y) => run.fail(idx, "json-toml-differ", format!("equivalent documents: json ok={} toml ok={}: {jtext} / {ttext:?}", x.is_ok(), y.is_ok())),
    }
    // and the two parsers of the implementation agree on the overlay value
    let (hj, ht) = (hk::parse_to_value(jtext, "json").ok(), hk::parse_to_value(&ttext, "toml").ok());
    if hj != ht {
        run.fail(idx, "json-toml-differ", format!("parse_to_value differs for equivalent documents: {jtext} / {ttext:?}"));
    }
}

fn step_setval(run: &mut Run, tl: &Tl, s: &mut Settings, path: &str, v: Value, r: &mut Rng) {
    let before = s.clone();
    let cur = serde_json::to_value(&before).expect("to_value");
    let mut merged = cur.clone();
    let set_ok = hk::set_at_path(&mut merged, path, v.clone()).is_ok();
    let req = format!(
        "C25 setval cur={} p={} v={} n={}",
        enc(&cur),
        pcts(path),
        enc(&v),
        n_enc(if set_ok { Some(&merged) } else { None })
    );
    let by_with = r.chance(1, 3);
    run.count(if by_with { "api_with_value" } else { "api_set_value" });
    let res = guarded(AssertUnwindSafe(|| {
        if by_with {
            s.with_value(path, v.clone()).map(|n| *s = n)
        } else {
            s.set_value(path, v.clone())
        }
    }));
    let res = match res {
        Ok(x) => x,
        Err(p) => {
            let idx = run.case(req, "panic".to_string());
            run.fail(idx, "panic", p);
            return;
        }
    };
    let after = serde_json::to_value(&*s).expect("to_value");
    let m_s = if set_ok { enc(&merged) } else { "-".to_string() };
    let imp = match &res {
        Ok(()) => format!("m={} ok s={}", m_s, enc_sorted(&after)),
        Err(e) => format!("m={} err:{} s={}", m_s, err_class(e), enc_sorted(&after)),
    };
    run.count(if res.is_ok() { "setval_ok" } else { "setval_err" });
    let idx = run.case(req.clone(), imp);

    // the property on the implementation: reading the path returns the value (as the schema keeps it)
    match &res {
        Ok(()) => {
            // expected settings: the previous value with `v` at `path`, through the real serde
            let mut want = cur.clone();
            put(&mut want, path, v.clone());
            match norm_real(&want) {
                Some((ws, wv)) => {
                    if wv != after || ws != *s {
                        run.fail(idx, "set-law", format!("settings after set_value({path:?}) are not the previous settings with the value placed at the path"));
                    }
                    let got: Result<Value, _> = s.get_value::<Value>(path);
                    let kept = ref_get(&wv, path).cloned();
                    match (&got, &kept) {
                        (Ok(g), Some(k)) if g == k => {}
                        (Err(_), None) => {}
                        _ => run.fail(idx, "get-after-set", format!("get_value({path:?}) = {:?} but the settings hold {:?}", got.as_ref().ok(), kept)),
                    }
                    // when the schema keeps the document as it is, the value read is exactly the value set
                    if wv == want {
                        run.count("setval_exact");
                        run.nontrivial(key_of(&req));
                        if got.as_ref().ok() != Some(&v) {
                            run.fail(idx, "get-after-set", format!("set_value({path:?}, {v}) succeeded, get_value returns {:?}", got.as_ref().ok()));
                        }
                    }
                    // the keep condition of `setValue_getValue_kept`, on the real serde: does the
                    // normalised settings value hold at the path what the edited document held
                    // (= the value set)? Every failure of it is counted and has to be one of the
                    // documented normalisations of the schema; anything else is a violation.
                    let schema = &tl.track.borrow().schema;
                    let mut tags = vec![];
                    if got.as_ref().ok() == Some(&v) {
                        run.count("keep_holds");
                    } else if explain_kept(path, &v, got.as_ref().ok(), &|p| schema.contains_key(p), &mut tags) {
                        run.count("keep_fails_explained");
                        tags.sort();
                        tags.dedup();
                        for t in tags {
                            run.count(&format!("keep_fails_{t}"));
                        }
                    } else {
                        run.count("keep_fails_unexplained");
                        run.fail(idx, "get-after-set-unexplained", format!("set_value({path:?}, {v}) succeeded but get_value returns {:?}, which no schema normalisation (null = absent, enum case / alias, defaults filled in, unknown member dropped) accounts for", got.as_ref().ok()));
                    }
                }
                None => run.fail(idx, "invalid-accepted", format!("set_value({path:?}, {v}) succeeded although the result does not deserialize/validate")),
            }
        }
        Err(e) => {
            let mut want = cur.clone();
            put(&mut want, path, v.clone());
            if norm_real(&want).is_some() {
                run.fail(idx, "valid-rejected", format!("set_value({path:?}, {v}) failed: {e}"));
            } else {
                run.nontrivial(key_of(&req));
            }
            if *s != before || after != cur {
                run.fail(idx, "atomicity", format!("failed set_value({path:?}) changed the settings"));
            }
            // the deserializer's refusal is BadParam, a validator's error comes through as it is
            if let Some(want_cls) = norm_err_class(&want) {
                if err_class(e) != want_cls {
                    run.fail(idx, "error-kind", format!("set_value({path:?}): the edited document is refused with {want_cls}, reported {}", err_class(e)));
                }
            }
        }
    }
    post_step(run, idx, tl, &before, s, &[(path.to_string(), v.clone())], res.is_ok(), "set_value/with_value");
    tl_check(run, idx, tl, "set_value/with_value");
}

/// Does a documented normalisation of the schema account for `get_value(path)` returning `got`
/// after `set_value(path, set)` succeeded? The normalisations (each tagged when used):
///  * `null_is_absent`      — an optional set to null is serialized as absent (or as null);
///  * `enum_case_folded`    — enum-valued strings are matched case-insensitively and written canonically;
///  * `number_retyped`      — the same number in another serde_json number class;
///  * `source_type_alias_expanded` — a digital source type given by its short alias is written as its URI;
///  * `defaults_filled`     — members the value set did not mention appear with their defaults;
///  * `unknown_dropped`     — a member / path that is not in the settings schema is ignored
///                            (never a schema path: dropping one of those is a loss).
fn explain_kept(path: &str, set: &Value, got: Option<&Value>, is_schema: &dyn Fn(&str) -> bool, tags: &mut Vec<&'static str>) -> bool {
    match (set, got) {
        (a, Some(b)) if a == b => true,
        (Value::Null, None) => {
            tags.push("null_is_absent");
            true
        }
        (_, None) => {
            if is_schema(path) {
                false
            } else {
                tags.push("unknown_dropped");
                true
            }
        }
        (Value::String(a), Some(Value::String(b))) if a.eq_ignore_ascii_case(b) => {
            tags.push("enum_case_folded");
            true
        }
        (Value::Number(a), Some(Value::Number(b))) if a.as_f64() == b.as_f64() => {
            tags.push("number_retyped");
            true
        }
        (Value::String(a), Some(Value::String(b)))
            if *b == format!("http://c2pa.org/digitalsourcetype/{a}") || *b == format!("http://cv.iptc.org/newscodes/digitalsourcetype/{a}") =>
        {
            // `DigitalSourceType`: `#[serde(alias = "<short name>", rename = "<URI>")]`
            tags.push("source_type_alias_expanded");
            true
        }
        (Value::Object(a), Some(Value::Object(b))) => {
            let mut ok = true;
            for (k, av) in a {
                ok &= explain_kept(&format!("{path}.{k}"), av, b.get(k), is_schema, tags);
            }
            if b.keys().any(|k| !a.contains_key(k)) {
                tags.push("defaults_filled");
            }
            ok
        }
        (Value::Array(a), Some(Value::Array(b))) if a.len() == b.len() => {
            let mut ok = true;
            for (x, y) in a.iter().zip(b.iter()) {
                ok &= explain_kept(&format!("{path}[]"), x, Some(y), is_schema, tags);
            }
            ok
        }
        _ => false,
    }
}

fn step_getval(run: &mut Run, s: &Settings, path: &str) {
    let cur = serde_json::to_value(s).expect("to_value");
    let req = format!("C25 getval cur={} p={}", enc(&cur), pcts(path));
    let got = s.get_value::<Value>(path);
    let imp = match &got {
        Ok(v) => format!("ok {}", enc_sorted(v)),
        Err(e) => format!("err:{}", err_class(e)),
    };
    run.count(if got.is_ok() { "getval_ok" } else { "getval_err" });
    let idx = run.case(req, imp);
    if got.as_ref().ok() != ref_get(&cur, path) {
        run.fail(idx, "get-law", format!("get_value({path:?}) = {:?}, the serialized settings hold {:?}", got.as_ref().ok(), ref_get(&cur, path)));
    }
}

fn gen_path_value(sc: &Schema, r: &mut Rng) -> (String, Value) {
    match r.below(10) {
        0..=2 => {
            let (p, d) = r.pick(&sc.nodes).clone();
            (p, same_type(&d, r))
        }
        3..=5 => extra_valid(r),
        6 => {
            let (p, d) = r.pick(&sc.nodes).clone();
            (p, wrong_type(&d, r))
        }
        7 => invalid_by_validation(r),
        8 => {
            let objs: Vec<&(String, Value)> = sc.nodes.iter().filter(|(_, v)| v.is_object()).collect();
            (format!("{}.zz_{}", r.pick(&objs).0, r.below(3)), rnd_tree(r, 2))
        }
        _ => (rnd_path(r), rnd_tree(r, 2)),
    }
}

fn new_session(tl: &Tl) {
    let mut t = tl.track.borrow_mut();
    t.ledger.clear();
    t.step = 0;
}

/// Edge values on every schema path, then unrelated updates: 2–4 steps on one Settings
/// (plain or held by a Context), every step through a different entry point.
fn edge_session(run: &mut Run, sc: &Schema, tl: &Tl, path: &str, edge: &Value, r: &mut Rng) {
    new_session(tl);
    let mut ctx = Context::new();
    let mut plain = Settings::new();
    let in_ctx = r.chance(1, 3);
    run.count(if in_ctx { "edge_session_in_context" } else { "edge_session_plain" });
    let s: &mut Settings = if in_ctx { ctx.settings_mut() } else { &mut plain };
    // step 1: the edge value, through one of the entry points
    let mut doc = json!({});
    put(&mut doc, path, edge.clone());
    match (r.below(3), toml_text(&doc)) {
        (0, _) => step_setval(run, tl, s, path, edge.clone(), r),
        (1, Some(t)) => step_update(run, tl, s, &t, "toml", r, &["edge_value"]),
        _ => step_update(run, tl, s, &doc.to_string(), "json", r, &["edge_value"]),
    }
    let accepted = tl.track.borrow().ledger.iter().any(|(p, _, _)| p == path);
    run.count(if accepted { "edge_value_accepted" } else { "edge_value_not_tracked" });
    // steps 2..: keys in other sections
    let sec = path.split('.').next().unwrap_or("");
    for _ in 0..r.range(1, 3) {
        let (p, v) = loop {
            let (p, d) = r.pick(&sc.nodes).clone();
            if d.is_object() || p.split('.').next() == Some(sec) {
                continue;
            }
            let v = match &d {
                Value::Null => Value::Null,
                other => same_type(other, r),
            };
            break (p, v);
        };
        let mut doc = json!({});
        put(&mut doc, &p, v.clone());
        match (r.below(4), toml_text(&doc)) {
            (0, _) => step_setval(run, tl, s, &p, v, r),
            (1, Some(t)) => step_update(run, tl, s, &t, "toml", r, &["unrelated_key"]),
            (2, _) => step_update(run, tl, s, "{}", "json", r, &["empty_object"]),
            _ => step_update(run, tl, s, &doc.to_string(), "json", r, &["unrelated_key"]),
        }
    }
    step_getval(run, s, path);
}

fn session(run: &mut Run, sc: &Schema, tl: &Tl, r: &mut Rng) {
    new_session(tl);
    let mut s = Settings::new();
    let steps = r.range(1, 6);
    for _ in 0..steps {
        let cur = serde_json::to_value(&s).expect("to_value");
        match r.below(10) {
            0..=5 => {
                let mut info = DocInfo::default();
                let doc = gen_doc(sc, &cur, r, &mut info);
                let jtext = json_text(&doc, r);
                let use_toml = r.chance(2, 5);
                let (mut text, natural) = match (use_toml, toml_text(&doc)) {
                    (true, Some(t)) => (t, "toml"),
                    _ => (jtext.clone(), "json"),
                };
                if r.chance(1, 12) {
                    text = corrupt(&text, r);
                    info.kinds.push("corrupted_text");
                }
                let fmt = gen_fmt(r, natural);
                let snap = s.clone();
                step_update(run, tl, &mut s, &text, &fmt, r, &info.kinds);
                if r.chance(1, 2) {
                    check_json_toml(run, &snap, &doc, &jtext);
                }
            }
            6..=8 => {
                let (p, v) = gen_path_value(sc, r);
                step_setval(run, tl, &mut s, &p, v, r);
            }
            _ => {
                let p = if r.chance(2, 3) { r.pick(&sc.nodes).0.clone() } else { gen_path_value(sc, r).0 };
                step_getval(run, &s, &p);
            }
        }
    }
}

/// The depth limit through the public API: a free-form map (`claim_generator_info`) nested
/// `levels` deep with a sibling at every level, then an overlay along the same chain.
fn deep_session(run: &mut Run, tl: &Tl, levels: usize, r: &mut Rng) {
    new_session(tl);
    let mut s = Settings::new();
    let base = json!({"builder": {"claim_generator_info": {"name": "deep", "x": chain(levels, json!(1), Some(("s", 1)))}}});
    step_update(run, tl, &mut s, &base.to_string(), "json", r, &["deep_base"]);
    let over_levels = r.range(0, levels as u64 + 2) as usize;
    let over = json!({"builder": {"claim_generator_info": {"x": chain(over_levels, json!(2), Some(("u", 2)))}}});
    let as_toml = r.chance(1, 3);
    let snap = s.clone();
    match (as_toml, toml_text(&over)) {
        (true, Some(t)) => step_update(run, tl, &mut s, &t, "toml", r, &["deep_overlay"]),
        _ => step_update(run, tl, &mut s, &over.to_string(), "json", r, &["deep_overlay"]),
    }
    check_json_toml(run, &snap, &over, &over.to_string());
    // a path through a scalar inside the free-form map: the scalar is replaced by an object
    step_setval(run, tl, &mut s, "builder.claim_generator_info.extra", json!(r.below(9)), r);
    let below = format!("builder.claim_generator_info.extra.{}", r.pick(&["a", "a.b", "a..b", ""]));
    step_setval(run, tl, &mut s, &below, rnd_tree(r, 2), r);
    step_getval(run, &s, &below);
    if levels + 3 >= LIMIT {
        run.count("public_api_reaches_depth_limit");
    }
}

// ---------------------------------------------------------------- thread-local (deprecated) flows

#[allow(deprecated)]
fn tl_session(run: &mut Run, sc: &Schema, r: &mut Rng) {
    hk::reset_thread_local().expect("reset");
    for _ in 0..r.range(1, 5) {
        let before = hk::thread_local_value();
        if r.chance(2, 3) {
            let mut info = DocInfo::default();
            let doc = gen_doc(sc, &before, r, &mut info);
            let mut text = match (r.chance(1, 3), toml_text(&doc)) {
                (true, Some(t)) => t,
                _ => doc.to_string(),
            };
            let natural = if parse_json_ref(&text).is_some() { "json" } else { "toml" };
            if r.chance(1, 12) {
                text = corrupt(&text, r);
            }
            let fmt = gen_fmt(r, natural);
            let pd = hook_parse(&text);
            let merged = hk::parse_to_value(&text, &fmt).ok().map(|ov| {
                let mut m = before.clone();
                hk::merge_json(&mut m, ov);
                m
            });
            let req = format!(
                "C25 tlfrom tl={} fmt={} pj={} pt={} n={}",
                enc(&before),
                pcts(&fmt),
                pv(&pd.pj),
                pv(&pd.pt),
                n_enc(merged.as_ref())
            );
            let res = Settings::from_string(&text, &fmt);
            let after = hk::thread_local_value();
            let imp = match &res {
                Ok(s) => format!("ok s={} tl={}", enc_sorted(&serde_json::to_value(s).expect("to_value")), enc(&after)),
                Err(e) => format!("err:{} tl={}", err_class(e), enc(&after)),
            };
            run.count(if res.is_ok() { "tl_from_string_ok" } else { "tl_from_string_err" });
            let idx = run.case(req.clone(), imp);
            match &res {
                Ok(_) => {
                    let want = parse_ref(&text, &fmt).map(|ov| ref_merge(&before, &ov, 0));
                    if want.as_ref().ok() != Some(&after) {
                        run.fail(idx, "merge-law", "thread-local value after from_string is not the recursive merge".to_string());
                    }
                    if after != before {
                        run.nontrivial(key_of(&req));
                    }
                }
                Err(_) => {
                    if after != before {
                        run.fail(idx, "atomicity", format!("failed Settings::from_string (fmt {fmt}) changed the thread-local settings"));
                    }
                    if merged.is_some() {
                        run.nontrivial(key_of(&req));
                    }
                }
            }
        } else {
            let (p, v) = gen_path_value(sc, r);
            let mut merged = before.clone();
            let set_ok = hk::set_at_path(&mut merged, &p, v.clone()).is_ok();
            let req = format!(
                "C25 tlset tl={} p={} v={} n={}",
                enc(&before),
                pcts(&p),
                enc(&v),
                n_enc(if set_ok { Some(&merged) } else { None })
            );
            let res = hk::set_thread_local_value(&p, v.clone());
            let after = hk::thread_local_value();
            let imp = match &res {
                Ok(()) => format!("ok tl={}", enc(&after)),
                Err(e) => format!("err:{} tl={}", err_class(e), enc(&after)),
            };
            run.count(if res.is_ok() { "tl_set_ok" } else { "tl_set_err" });
            let idx = run.case(req.clone(), imp);
            match &res {
                Ok(()) => {
                    if ref_get(&after, &p) != Some(&v) {
                        run.fail(idx, "get-after-set", format!("thread-local value at {p:?} is not the value set"));
                    }
                    run.nontrivial(key_of(&req));
                }
                Err(_) => {
                    if after != before {
                        run.fail(idx, "atomicity", format!("failed set_thread_local_value({p:?}) changed the thread-local settings"));
                    }
                }
            }
        }
        // instance-based construction does not read the thread-local value
        if serde_json::to_value(Settings::new()).ok().as_ref() != Some(&sc.dflt)
            || serde_json::to_value(Context::new().settings()).ok().as_ref() != Some(&sc.dflt)
        {
            let idx = run.reqs.len() - 1;
            run.fail(idx, "instance-touched", "a thread-local update changed what Settings::new() / Context::new() build".to_string());
        }
    }
    hk::reset_thread_local().expect("reset");
}

// ---------------------------------------------------------------- Context

fn ctx_case(run: &mut Run, sc: &Schema, tl: &Tl, r: &mut Rng) {
    // a context that already carries non-default settings
    let (p0, v0) = extra_valid(r);
    let start = Settings::new().with_value(&p0, v0).unwrap_or_else(|_| Settings::new());
    let mut ctx = Context::new().with_settings(&start).expect("context");
    let cur = serde_json::to_value(ctx.settings()).expect("to_value");
    let mut info = DocInfo::default();
    let doc = gen_doc(sc, &sc.dflt, r, &mut info);
    let mut text = match (r.chance(1, 2), toml_text(&doc)) {
        (true, Some(t)) => t,
        _ => json_text(&doc, r),
    };
    if r.chance(1, 10) {
        text = corrupt(&text, r);
    }
    let pd = hook_parse(&text);
    let norm_of = |ov: &Option<Value>| {
        n_enc(ov.as_ref()
            .map(|ov| {
                let mut m = sc.dflt.clone();
                hk::merge_json(&mut m, ov.clone());
                m
            })
            .as_ref())
    };
    let req = format!(
        "C25 ctx dflt={} cur={} pj={} pt={} nj={} nt={}",
        enc(&sc.dflt),
        enc(&cur),
        pv(&pd.pj),
        pv(&pd.pt),
        norm_of(&pd.pj),
        norm_of(&pd.pt)
    );
    let res = ctx.set_settings(text.as_str());
    let after = serde_json::to_value(ctx.settings()).expect("to_value");
    let imp = match &res {
        Ok(()) => format!("ok s={}", enc_sorted(&after)),
        Err(e) => format!("err:{} s={}", err_class(e), enc_sorted(&after)),
    };
    run.count(if res.is_ok() { "ctx_set_ok" } else { "ctx_set_err" });
    let idx = run.case(req.clone(), imp);
    // oracle: JSON first, then TOML, both onto the defaults; failure leaves the context as it was
    let want = parse_json_ref(&text)
        .and_then(|ov| norm_real(&ref_merge(&sc.dflt, &ov, 0)))
        .or_else(|| parse_toml_ref(&text).and_then(|ov| norm_real(&ref_merge(&sc.dflt, &ov, 0))));
    match (&res, &want) {
        (Ok(()), Some((ws, wv))) => {
            if *wv != after || ws != ctx.settings() {
                run.fail(idx, "merge-law", "Context::set_settings result is not defaults merged with the document".to_string());
            }
            run.nontrivial(key_of(&req));
        }
        (Err(e), None) => {
            if after != cur {
                run.fail(idx, "atomicity", "failed Context::set_settings changed the context's settings".to_string());
            }
            run.nontrivial(key_of(&req));
            // the error reported is the one of the second (TOML) attempt
            let want_cls = match parse_toml_ref(&text) {
                None => Some(BADPARAM.to_string()),
                Some(ov) => norm_err_class(&ref_merge(&sc.dflt, &ov, 0)),
            };
            if want_cls.as_deref() != Some(err_class(e).as_str()) {
                run.fail(idx, "error-kind", format!("Context::set_settings(&str): the TOML attempt fails with {want_cls:?}, reported {}", err_class(e)));
            }
            if parse_json_ref(&text).is_some() {
                run.count("ctx_json_parsed_but_refused_then_toml");
            }
        }
        (Ok(()), None) => run.fail(idx, "invalid-accepted", "Context::set_settings accepted an invalid document".to_string()),
        (Err(e), Some(_)) => run.fail(idx, "valid-rejected", format!("Context::set_settings rejected a valid document: {e}")),
    }
    tl_check(run, idx, tl, "Context::set_settings");
}

/// `Context::set_settings(serde_json::Value)` on a context that carries non-default settings.
fn ctxval_case(run: &mut Run, sc: &Schema, tl: &Tl, r: &mut Rng) {
    let (p0, v0) = extra_valid(r);
    let start = Settings::new().with_value(&p0, v0).unwrap_or_else(|_| Settings::new());
    let mut ctx = Context::new().with_settings(&start).expect("context");
    let cur = serde_json::to_value(ctx.settings()).expect("to_value");
    let mut info = DocInfo::default();
    let doc = gen_doc(sc, &sc.dflt, r, &mut info);
    // what the JSON parser makes of the value's serialisation
    let text = serde_json::to_string(&doc).expect("to_string");
    let pj = hk::parse_to_value(&text, "json").ok();
    let merged = pj.as_ref().map(|ov| {
        let mut m = sc.dflt.clone();
        hk::merge_json(&mut m, ov.clone());
        m
    });
    let req = format!("C25 ctxval dflt={} cur={} pj={} n={}", enc(&sc.dflt), enc(&cur), pv(&pj), n_enc(merged.as_ref()));
    let res = ctx.set_settings(doc.clone());
    let after = serde_json::to_value(ctx.settings()).expect("to_value");
    let imp = match &res {
        Ok(()) => format!("ok s={}", enc_sorted(&after)),
        Err(e) => format!("err:{} s={}", err_class(e), enc_sorted(&after)),
    };
    run.count(if res.is_ok() { "ctxval_set_ok" } else { "ctxval_set_err" });
    let idx = run.case(req.clone(), imp);
    // serde_json round-trips the value (hypothesis of intoSettingsValue_roundtrip)
    if pj.as_ref() != Some(&doc) {
        run.fail(idx, "value-roundtrip", format!("parsing serde_json::to_string(value) does not give the value back: {doc}"));
    }
    // oracle: the defaults merged with the value itself; failure leaves the context as it was
    let wm = ref_merge(&sc.dflt, &doc, 0);
    match (&res, norm_class(&wm)) {
        (Ok(()), Ok((ws, wv))) => {
            if wv != after || ws != *ctx.settings() {
                run.fail(idx, "merge-law", "Context::set_settings(Value) result is not defaults merged with the value".to_string());
            }
            run.nontrivial(key_of(&req));
        }
        (Err(e), Err(c)) => {
            if after != cur {
                run.fail(idx, "atomicity", "failed Context::set_settings(Value) changed the context's settings".to_string());
            }
            let want_cls = if c.is_empty() { BADPARAM.to_string() } else { c };
            if err_class(e) != want_cls {
                run.fail(idx, "error-kind", format!("Context::set_settings(Value): expected {want_cls}, reported {}", err_class(e)));
            }
            run.nontrivial(key_of(&req));
        }
        (Ok(()), Err(_)) => run.fail(idx, "invalid-accepted", "Context::set_settings(Value) accepted an invalid document".to_string()),
        (Err(e), Ok(_)) => run.fail(idx, "valid-rejected", format!("Context::set_settings(Value) rejected a valid document: {e}")),
    }
    tl_check(run, idx, tl, "Context::set_settings(Value)");
}

// ---------------------------------------------------------------- files

struct FileCase {
    path: std::path::PathBuf,
    /// the extension as `to_string_lossy` gives it; None = the path has none
    ext: Option<String>,
    ext_utf8: bool,
    /// None = the file does not exist
    bytes: Option<Vec<u8>>,
}

fn gen_file(dir: &std::path::Path, sc: &Schema, cur: &Value, r: &mut Rng, n: usize) -> FileCase {
    use std::os::unix::ffi::OsStrExt;
    let mut info = DocInfo::default();
    let doc = gen_doc(sc, cur, r, &mut info);
    let (mut text, natural) = match (r.chance(1, 2), toml_text(&doc)) {
        (true, Some(t)) => (t, "toml"),
        _ => (json_text(&doc, r), "json"),
    };
    if r.chance(1, 10) {
        text = corrupt(&text, r);
    }
    let mut bytes = text.into_bytes();
    match r.below(12) {
        0 => {
            // bytes that are not UTF-8, inside a string value where there is one (from_utf8_lossy)
            let at = bytes.iter().position(|b| *b == b'"').map(|i| i + 1).unwrap_or(bytes.len());
            bytes.splice(at..at, [0xff, 0xfe]);
        }
        1 => bytes.extend_from_slice(&[0xc3]), // truncated multi-byte sequence at the end
        2 => {
            let mut b = vec![0xef, 0xbb, 0xbf]; // byte-order mark
            b.extend_from_slice(&bytes);
            bytes = b;
        }
        _ => {}
    }
    // the extension: mostly the natural one, in several spellings; sometimes the other format,
    // an unsupported one, none at all, or one that is not UTF-8
    let stem = format!("s{n}");
    let (name, ext, ext_utf8): (std::ffi::OsString, Option<String>, bool) = match r.below(16) {
        0 => (stem.clone().into(), None, true),
        1 => (format!(".{natural}").into(), None, true), // a dot-file has no extension
        2 => (format!("{stem}.").into(), Some(String::new()), true),
        3 => {
            let mut raw = format!("{stem}.").into_bytes();
            raw.extend_from_slice(&[b'j', 0xff, b's']);
            let os = std::ffi::OsStr::from_bytes(&raw).to_os_string();
            (os, Some(String::from_utf8_lossy(&[b'j', 0xff, b's']).into_owned()), false)
        }
        4 => {
            let e = *r.pick(&["yaml", "jsonc", "txt", "json5", "tml"]);
            (format!("{stem}.{e}").into(), Some(e.to_string()), true)
        }
        5 => {
            let other = if natural == "json" { "toml" } else { "json" };
            (format!("{stem}.{other}").into(), Some(other.to_string()), true)
        }
        6 => {
            let e = natural.to_uppercase();
            (format!("{stem}.{e}").into(), Some(e), true)
        }
        7 => {
            let e = if natural == "json" { "Json" } else { "Toml" };
            (format!("{stem}.x.{e}").into(), Some(e.to_string()), true)
        }
        _ => (format!("{stem}.{natural}").into(), Some(natural.to_string()), true),
    };
    let path = dir.join(name);
    let exists = !r.chance(1, 12);
    if exists {
        std::fs::write(&path, &bytes).expect("write scratch file");
    } else {
        let _ = std::fs::remove_file(&path);
    }
    FileCase { path, ext, ext_utf8, bytes: if exists { Some(bytes) } else { None } }
}

fn file_fields(f: &FileCase) -> (String, Option<ParsedDoc>) {
    let pd = f.bytes.as_ref().map(|b| hook_parse(&String::from_utf8_lossy(b)));
    let s = format!(
        "ext={} u={} rd={} pj={} pt={}",
        f.ext.as_ref().map(|e| pcts(e)).unwrap_or_else(|| "-".to_string()),
        if f.ext_utf8 { 1 } else { 0 },
        if f.bytes.is_some() { 1 } else { 0 },
        pd.as_ref().map(|p| pv(&p.pj)).unwrap_or_else(|| "!".to_string()),
        pd.as_ref().map(|p| pv(&p.pt)).unwrap_or_else(|| "!".to_string()),
    );
    (s, pd)
}

/// `Settings::with_file`: the oracle is stated on the file's bytes and name, without the code under test.
fn file_case(run: &mut Run, sc: &Schema, tl: &Tl, dir: &std::path::Path, r: &mut Rng, n: usize) {
    let (p0, v0) = extra_valid(r);
    let s = Settings::new().with_value(&p0, v0).unwrap_or_else(|_| Settings::new());
    let cur = serde_json::to_value(&s).expect("to_value");
    let f = gen_file(dir, sc, &cur, r, n);
    let (ff, _) = file_fields(&f);
    let merged = match (&f.ext, f.ext_utf8, &f.bytes) {
        (Some(e), true, Some(b)) => hk::parse_to_value(&String::from_utf8_lossy(b), e).ok().map(|ov| {
            let mut m = cur.clone();
            hk::merge_json(&mut m, ov);
            m
        }),
        _ => None,
    };
    let req = format!("C25 file cur={} {} n={}", enc(&cur), ff, n_enc(merged.as_ref()));
    let res = guarded(AssertUnwindSafe(|| s.with_file(&f.path)));
    let res = match res {
        Ok(x) => x,
        Err(p) => {
            let idx = run.case(req, "panic".to_string());
            run.fail(idx, "panic", p);
            return;
        }
    };
    let imp = match &res {
        Ok(n) => format!("ok s={}", enc_sorted(&serde_json::to_value(n).expect("to_value"))),
        Err(e) => format!("err:{}", err_class(e)),
    };
    run.count(if res.is_ok() { "file_ok" } else { "file_err" });
    let idx = run.case(req.clone(), imp);
    // the property on the implementation
    let want: Result<(Settings, Value), String> = match (&f.ext, f.ext_utf8, &f.bytes) {
        (None, _, _) | (_, false, _) => Err(BADPARAM.to_string()),
        (_, _, None) => Err("IoError".to_string()),
        (Some(e), true, Some(b)) => match parse_ref(&String::from_utf8_lossy(b), e) {
            Err(c) => Err(c.to_string()),
            Ok(ov) => norm_class(&ref_merge(&cur, &ov, 0)).map_err(|c| if c.is_empty() { BADPARAM.to_string() } else { c }),
        },
    };
    match (&res, &want) {
        (Ok(n), Ok((ws, _))) => {
            if n != ws {
                run.fail(idx, "merge-law", format!("with_file({:?}) is not the recursive merge of the settings with the file's document", f.path.file_name()));
            }
            if *n != s {
                run.nontrivial(key_of(&req));
            }
        }
        (Err(e), Err(c)) => {
            run.count(&format!("file_rejected_{c}"));
            if err_class(e) != *c {
                run.fail(idx, "error-kind", format!("with_file({:?}): expected {c}, reported {}", f.path.file_name(), err_class(e)));
            }
            run.nontrivial(key_of(&req));
        }
        (Ok(_), Err(c)) => run.fail(idx, "invalid-accepted", format!("with_file({:?}) succeeded, expected {c}", f.path.file_name())),
        (Err(e), Ok(_)) => run.fail(idx, "valid-rejected", format!("with_file({:?}) failed: {e}", f.path.file_name())),
    }
    // `with_file` takes `&self`: the settings it was called on are as before
    if serde_json::to_value(&s).ok().as_ref() != Some(&cur) {
        run.fail(idx, "atomicity", "with_file changed the settings it was called on".to_string());
    }
    tl_check(run, idx, tl, "with_file");
    if f.bytes.is_some() {
        let _ = std::fs::remove_file(&f.path);
    }
}

/// `Settings::from_file` (deprecated): the thread-local value.
#[allow(deprecated)]
fn tlfile_case(run: &mut Run, sc: &Schema, dir: &std::path::Path, r: &mut Rng, n: usize) {
    let before = hk::thread_local_value();
    let f = gen_file(dir, sc, &before, r, n);
    let (ff, _) = file_fields(&f);
    let merged = match (&f.ext, &f.bytes) {
        (Some(e), Some(b)) => hk::parse_to_value(&String::from_utf8_lossy(b), e).ok().map(|ov| {
            let mut m = before.clone();
            hk::merge_json(&mut m, ov);
            m
        }),
        _ => None,
    };
    let req = format!("C25 tlfile tl={} {} n={}", enc(&before), ff, n_enc(merged.as_ref()));
    let res = Settings::from_file(&f.path);
    let after = hk::thread_local_value();
    let imp = match &res {
        Ok(s) => format!("ok s={} tl={}", enc_sorted(&serde_json::to_value(s).expect("to_value")), enc(&after)),
        Err(e) => format!("err:{} tl={}", err_class(e), enc(&after)),
    };
    run.count(if res.is_ok() { "tl_from_file_ok" } else { "tl_from_file_err" });
    let idx = run.case(req.clone(), imp);
    let want: Result<Value, String> = match (&f.ext, &f.bytes) {
        (None, _) => Err(FORMAT.to_string()),
        (_, None) => Err("IoError".to_string()),
        (Some(e), Some(b)) => match parse_ref(&String::from_utf8_lossy(b), e) {
            Err(c) => Err(c.to_string()),
            Ok(ov) => {
                let m = ref_merge(&before, &ov, 0);
                match norm_err_class(&m) {
                    None => Ok(m),
                    Some(c) => Err(c),
                }
            }
        },
    };
    match (&res, &want) {
        (Ok(_), Ok(m)) => {
            if *m != after {
                run.fail(idx, "merge-law", "thread-local value after from_file is not the recursive merge".to_string());
            }
            if after != before {
                run.nontrivial(key_of(&req));
            }
        }
        (Err(e), Err(c)) => {
            if after != before {
                run.fail(idx, "atomicity", format!("failed Settings::from_file({:?}) changed the thread-local settings", f.path.file_name()));
            }
            if err_class(e) != *c {
                run.fail(idx, "error-kind", format!("from_file({:?}): expected {c}, reported {}", f.path.file_name(), err_class(e)));
            }
            run.nontrivial(key_of(&req));
        }
        (Ok(_), Err(c)) => run.fail(idx, "invalid-accepted", format!("from_file({:?}) succeeded, expected {c}", f.path.file_name())),
        (Err(e), Ok(_)) => run.fail(idx, "valid-rejected", format!("from_file({:?}) failed: {e}", f.path.file_name())),
    }
    if f.bytes.is_some() {
        let _ = std::fs::remove_file(&f.path);
    }
}

// ---------------------------------------------------------------- run

pub fn run(run: &mut Run, rng: &mut Rng) {
    run.rule = "hook merge: target and overlay are objects sharing a key whose values are both objects (the recursive branch); \
                set/get: path of >= 2 segments (get: found); settings steps: the document parsed and either changed the settings \
                or was rejected by deserialisation/validation (the atomicity branch); set_value: rejected, or accepted with the \
                schema keeping the document exactly; sessions are 1-6 successive steps on one Settings/Context, with a ledger of the \
                values SET (edge values [] \"\" {} 0 false null on every schema leaf, then unrelated keys) re-read after every step; \
                distinct by request text"
        .to_string();
    let sc = Schema::new();
    run.notes.push(format!("schema paths from serde_json::to_value(Settings::default()): {}", sc.nodes.len()));

    // environment obligations
    let order_kept = serde_json::from_str::<Value>(r#"{"b":1,"a":2}"#)
        .map(|v| v.as_object().map(|m| m.keys().cloned().collect::<Vec<_>>()) == Some(vec!["b".to_string(), "a".to_string()]))
        .unwrap_or(false);
    run.obligations.insert("serde_json-map-keeps-insertion-order".to_string(), order_kept);
    run.obligations.insert("merge-max-depth-is-64".to_string(), hk::MERGE_MAX_DEPTH == LIMIT);
    run.obligations.insert("default-settings-are-a-fixpoint".to_string(), norm_real(&sc.dflt).map(|(_, v)| v == sc.dflt).unwrap_or(false));

    hk::reset_thread_local().expect("reset");
    let tl = Tl {
        at_start: hk::thread_local_value(),
        track: std::cell::RefCell::new(Track { schema: sc.nodes.iter().cloned().collect(), ..Default::default() }),
    };

    let thorough = run.thorough();
    let n_hook = if thorough { 500_000 } else { 100_000 };
    let n_sessions = if thorough { 20_000 } else { 4_000 };
    let n_tl = if thorough { 3_000 } else { 600 };
    let n_ctx = if thorough { 5_000 } else { 1_000 };
    let n_files = if thorough { 6_000 } else { 1_200 };

    // fixed boundary sweep of the depth limit on the helper
    for d in [0usize, 1, 2, 31, 32, 33, 61, 62, 63, 64, 65, 66, 70, 200] {
        for levels in 0..4usize {
            let t = chain(levels + 1, json!(1), Some(("s", 1)));
            let o = chain(levels + 1, json!(2), Some(("u", 2)));
            case_merge(run, t, o, d);
        }
    }
    // chains crossing the limit from depth 0
    for levels in [0usize, 1, 5, 60, 62, 63, 64, 65, 66, 70] {
        let t = chain(levels, json!({"keep": 1, "z": 1}), Some(("s", 1)));
        let o = chain(levels, json!({"z": 2, "new": 2}), Some(("u", 2)));
        case_merge(run, t, o, 0);
    }

    for _ in 0..n_hook {
        let mut r = rng.fork();
        match r.below(10) {
            0..=4 => {
                let t = if r.chance(1, 8) { rnd_tree(&mut r, 3) } else { rnd_obj(&mut r, 4) };
                let o = if r.chance(1, 8) { rnd_tree(&mut r, 3) } else { rnd_obj(&mut r, 4) };
                let d = match r.below(10) {
                    0 => r.range(58, 66) as usize,
                    1 => r.range(1, 3) as usize,
                    _ => 0,
                };
                case_merge(run, t, o, d);
            }
            5 => {
                // deep chains with a random start depth around the limit
                let lt = r.range(0, 70) as usize;
                let lo = r.range(0, 70) as usize;
                let d = *r.pick(&[0usize, 0, 0, 1, 30, 60, 63, 64]);
                let t = chain(lt, rnd_tree(&mut r, 1), if r.chance(2, 3) { Some(("s", 1)) } else { None });
                let o = chain(lo, rnd_tree(&mut r, 1), if r.chance(2, 3) { Some((*r.pick(&["s", "u"]), 2)) } else { None });
                case_merge(run, t, o, d);
            }
            6 | 7 => {
                let t = if r.chance(1, 6) { rnd_tree(&mut r, 2) } else { rnd_obj(&mut r, 4) };
                let p = if r.chance(1, 2) {
                    let mut ps = vec![];
                    existing_paths(&t, None, &mut ps);
                    if ps.is_empty() { rnd_path(&mut r) } else { r.pick(&ps).clone() }
                } else {
                    rnd_path(&mut r)
                };
                let v = rnd_tree(&mut r, 2);
                case_set(run, t, p, v);
            }
            _ => {
                let t = if r.chance(1, 6) { rnd_tree(&mut r, 2) } else { rnd_obj(&mut r, 4) };
                let p = if r.chance(2, 3) {
                    let mut ps = vec![];
                    existing_paths(&t, None, &mut ps);
                    if ps.is_empty() { rnd_path(&mut r) } else { r.pick(&ps).clone() }
                } else {
                    rnd_path(&mut r)
                };
                case_get(run, t, p);
            }
        }
    }

    for i in 0..n_sessions {
        let mut r = rng.fork();
        if i % 10 == 0 {
            let levels = r.range(0, 70) as usize;
            deep_session(run, &tl, levels, &mut r);
        } else {
            session(run, &sc, &tl, &mut r);
        }
    }
    // edge values ([] "" {} 0 false null) on every schema leaf, followed by unrelated updates
    let edges = [json!([]), json!(""), json!({}), json!(0), json!(false), Value::Null];
    let leaves: Vec<(String, Value)> = sc.nodes.iter().filter(|(_, d)| !d.is_object()).cloned().collect();
    for _ in 0..(if thorough { 6 } else { 1 }) {
        for (p, _) in &leaves {
            for e in &edges {
                let mut r = rng.fork();
                edge_session(run, &sc, &tl, p, e, &mut r);
            }
        }
    }
    // the boundary of the depth limit through the public API
    for levels in 55..=70usize {
        let mut r = rng.fork();
        deep_session(run, &tl, levels, &mut r);
    }
    for _ in 0..n_ctx {
        let mut r = rng.fork();
        ctx_case(run, &sc, &tl, &mut r);
    }
    for _ in 0..n_ctx / 2 {
        let mut r = rng.fork();
        ctxval_case(run, &sc, &tl, &mut r);
    }
    let dir = vh::common::scratch("c25");
    for i in 0..n_files {
        let mut r = rng.fork();
        file_case(run, &sc, &tl, &dir, &mut r, i);
    }
    // builder-style calls left the thread-local settings alone
    run.obligations.insert("thread-local-untouched-by-instance-api".to_string(), hk::thread_local_value() == tl.at_start);
    for _ in 0..n_tl {
        let mut r = rng.fork();
        tl_session(run, &sc, &mut r);
    }
    hk::reset_thread_local().expect("reset");
    for i in 0..n_files / 2 {
        let mut r = rng.fork();
        if i % 5 == 0 {
            hk::reset_thread_local().expect("reset");
        }
        tlfile_case(run, &sc, &dir, &mut r, i);
    }
    hk::reset_thread_local().expect("reset");
    let _ = std::fs::remove_dir_all(&dir);
}
