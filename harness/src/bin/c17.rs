//! C17 — BMFF mdat hashing is independent of how the payload is chunked.
//!
//! Real code driven
//!   level 1 `acc`  : `MerkleAccumulator::add_merkle_leaf` (hook re-export), any leaf size in bytes
//!   level 2 `final`: `Builder::placeholder` → `hash_bmff_mdat_bytes` … → `update_hash_from_stream`
//!                    on an asset built here (ftyp ‖ free ‖ moov ‖ mdat…) → the stored MerkleMaps
//!                    and `BmffHash::verify_stream_hash` on that asset
//!   level 3 e2e    : … → `sign_embeddable` → patch into the reserved free box → `Reader`
//!
//!   histories      : `update_hash_from_stream` called twice (`flushes=2`), the leaf size set or
//!                    changed by `set_bmff_hash_fixed_leaf_size` / the hook accessor (`set:<bytes>`)
//!   leaf budget    : `create_mms_from_mdat_leaves` (hook) and the whole placeholder workflow at the
//!                    validator's `MAX_MERKLE_LEAVES_SIZE` boundary (`caps`), and
//!                    `BmffHash::verify_stream_hash` on hand-made MerkleMaps at that boundary (`capv`)
//!
//! Requests (see lean/C2paModel/Model/C17.lean): the model never sees payload bytes, only chunk
//! sizes; it answers with payload *segments* `off+len`.  Here every leaf digest of the
//! implementation is named by the payload segment whose real SHA-256 it is (`name_digest`).
//!   C17 acc   fixed=<bytes|-> calls=<id:<L|S>:size,…>  -> `id/leaves/rem/skip;…`
//!   C17 final fixed=<bytes|-> calls=… [flushes=n]       -> `<maps> <ok|bad|nomerkle>`
//!   C17 caps  fixed= n=<leaves> hsz=                    -> `ok <count>` | toomany | err
//!   C17 capv  fb= varn= vars= len= hsz= count=          -> toomany | rej | go

use std::{
    collections::BTreeSet,
    io::{Cursor, Seek, Write},
    sync::Arc,
};

use c2pa::{
    assertions::{BmffHash, ExclusionsMap, MerkleMap, SubsetMap},
    verif_hooks::c17::{create_mms_from_mdat_leaves, find_bmff_hash, MerkleAccumulator},
    Builder, Context, EphemeralSigner, Error, Reader, Signer, SigningAlg, ValidationState,
};
use sha2::{Digest, Sha256};
use vh::common::{fixtures, guarded, main_with, Rng, Run};

fn main() {
    main_with("C17", run);
}

fn sha(d: &[u8]) -> Vec<u8> {
    Sha256::digest(d).to_vec()
}

#[derive(Clone)]
struct Mdat {
    large: bool,
    pay: Vec<u8>,
}

#[derive(Clone)]
struct Case {
    fixed: Option<usize>,
    /// (mdat id, chunk size); every mdat's sizes sum to its payload length
    calls: Vec<(usize, usize)>,
    mdats: Vec<Mdat>,
    /// how often `update_hash_from_stream` is called (levels 2/3)
    flushes: usize,
    /// (index of the call before which it happens, leaf size in bytes): the leaf size setter
    sets: Vec<(usize, usize)>,
}

impl Case {
    fn calls_str(&self) -> String {
        if self.calls.is_empty() {
            return "-".to_string();
        }
        let mut out = vec![];
        for (k, (id, n)) in self.calls.iter().enumerate() {
            for (_, b) in self.sets.iter().filter(|s| s.0 == k) {
                out.push(format!("set:{b}"));
            }
            out.push(format!("{id}:{}:{n}", if self.mdats[*id].large { "L" } else { "S" }));
        }
        out.join(",")
    }

    /// the setter is documented to be called before the first chunk; anything later is outside
    /// the property (the oracles are then limited to "no panic" and model = code)
    fn midstream(&self) -> bool {
        self.sets.iter().any(|s| s.0 > 0)
    }

    /// the leaf size the whole history runs with (when it is not changed mid-stream)
    fn eff_fixed(&self) -> Option<usize> {
        self.sets.iter().filter(|s| s.0 == 0).last().map(|s| Some(s.1)).unwrap_or(self.fixed)
    }

    fn flushes_str(&self) -> String {
        if self.flushes == 1 {
            String::new()
        } else {
            format!(" flushes={}", self.flushes)
        }
    }

    fn fixed_str(&self) -> String {
        self.fixed.map(|f| f.to_string()).unwrap_or("-".to_string())
    }

    /// the chunks in call order
    fn chunks(&self) -> Vec<(usize, &[u8])> {
        let mut pos = vec![0usize; self.mdats.len()];
        self.calls
            .iter()
            .map(|&(id, n)| {
                let s = &self.mdats[id].pay[pos[id]..pos[id] + n];
                pos[id] += n;
                (id, s)
            })
            .collect()
    }

    /// what the verifier hashes for this mdat: the box minus its first 16 bytes
    fn covered(&self, id: usize) -> &[u8] {
        let m = &self.mdats[id];
        let skip = if m.large { 0 } else { 8 };
        if m.pay.len() > skip {
            &m.pay[skip..]
        } else {
            &[]
        }
    }
}

/// Name a digest by the payload segment it is the SHA-256 of (`cursor` is only tried first).
fn name_digest(pay: &[u8], len: usize, digest: &[u8], cursor: usize) -> String {
    if digest.is_empty() {
        return format!("e+{len}");
    }
    if digest.len() != 32 {
        return "?".to_string();
    }
    if cursor + len <= pay.len() && sha(&pay[cursor..cursor + len]) == digest {
        return format!("{cursor}+{len}");
    }
    if len <= pay.len() {
        for off in 0..=pay.len() - len {
            if sha(&pay[off..off + len]) == digest {
                return format!("{off}+{len}");
            }
        }
    }
    format!("?{}", &hex::encode(digest)[..8])
}

/// like `name_digest` when the leaf length is not known (leaf size changed mid-stream)
fn name_digest_anylen(pay: &[u8], digest: &[u8], cursor: usize) -> (String, usize) {
    if digest.len() == 32 {
        for len in 1..=pay.len().saturating_sub(cursor) {
            if sha(&pay[cursor..cursor + len]) == digest {
                return (format!("{cursor}+{len}"), len);
            }
        }
    }
    ("?".to_string(), 0)
}

fn name_bytes(pay: &[u8], b: &[u8], cursor: usize) -> String {
    if b.is_empty() {
        return "0+0".to_string();
    }
    if cursor + b.len() <= pay.len() && &pay[cursor..cursor + b.len()] == b {
        return format!("{cursor}+{}", b.len());
    }
    if b.len() <= pay.len() {
        for off in 0..=pay.len() - b.len() {
            if &pay[off..off + b.len()] == b {
                return format!("{off}+{}", b.len());
            }
        }
    }
    "?".to_string()
}

fn list_str(v: Vec<String>, sep: &str) -> String {
    if v.is_empty() {
        "-".to_string()
    } else {
        v.join(sep)
    }
}

/// leaves `(len, digest)` of one mdat as segments
fn leaves_str(m: &Mdat, leaves: &[(u64, Vec<u8>)]) -> String {
    let mut cursor = if m.large { 0 } else { 8 };
    let mut out = vec![];
    for (len, d) in leaves {
        out.push(name_digest(&m.pay, *len as usize, d, cursor));
        cursor += *len as usize;
    }
    list_str(out, ",")
}

// ---------------------------------------------------------------------------------------------
// level 1

fn new_acc(fixed: Option<usize>) -> MerkleAccumulator {
    let mut acc = MerkleAccumulator::new("sha256").expect("accumulator");
    acc.fixed_size = fixed;
    acc
}

fn acc_state_str(c: &Case, acc: &MerkleAccumulator) -> String {
    let mut ids: BTreeSet<usize> = acc.merkle_leaves.keys().cloned().collect();
    ids.extend(acc.fixed_size_remainder.keys().cloned());
    ids.extend(acc.mdat_header_skip.keys().cloned());
    let mut out = vec![];
    for id in ids {
        let m = &c.mdats[id];
        let empty = vec![];
        let leaves = acc.merkle_leaves.get(&id).unwrap_or(&empty);
        let done: usize = leaves.iter().map(|l| l.0 as usize).sum();
        let rem = match acc.fixed_size_remainder.get(&id) {
            None => "-".to_string(),
            Some(b) => name_bytes(&m.pay, b, (if m.large { 0 } else { 8 }) + done),
        };
        let skip = match acc.mdat_header_skip.get(&id) {
            None => "-".to_string(),
            Some(n) => n.to_string(),
        };
        out.push(format!("{id}/{}/{rem}/{skip}", leaves_str(m, leaves)));
    }
    list_str(out, ";")
}

/// The property on the accumulator state, directly from the payload: with a fixed leaf size the
/// leaves are the SHA-256 of the consecutive F-byte blocks of the covered payload (the tail is
/// the buffered remainder); with variable sizes the leaves tile the covered payload.
fn acc_oracle(c: &Case, acc: &MerkleAccumulator) -> Option<(String, String)> {
    for (id, m) in c.mdats.iter().enumerate() {
        let cov = c.covered(id);
        let empty = vec![];
        let leaves = acc.merkle_leaves.get(&id).unwrap_or(&empty);
        let rem: &[u8] = acc.fixed_size_remainder.get(&id).map(|v| v.as_slice()).unwrap_or(&[]);
        match c.eff_fixed() {
            Some(f) if f > 0 => {
                let full = cov.len() / f;
                let want: Vec<(u64, Vec<u8>)> = (0..full).map(|k| (f as u64, sha(&cov[k * f..(k + 1) * f]))).collect();
                if *leaves != want {
                    return Some((
                        "fixed-leaves-depend-on-chunking".to_string(),
                        format!("mdat {id} ({} payload bytes, large={}): recorded {} leaves {:?}, the {f}-byte blocks of the covered payload give {}", m.pay.len(), m.large, leaves.len(), leaves.iter().map(|l| l.0).collect::<Vec<_>>(), want.len()),
                    ));
                }
                if rem != &cov[full * f..] {
                    return Some((
                        "fixed-leaves-depend-on-chunking".to_string(),
                        format!("mdat {id}: buffered remainder has {} bytes, the covered payload leaves {}", rem.len(), cov.len() - full * f),
                    ));
                }
            }
            Some(_) => {}
            None => {
                let mut off = 0usize;
                for (len, d) in leaves {
                    let len = *len as usize;
                    if len == 0 || off + len > cov.len() || sha(&cov[off..off + len]) != *d {
                        return Some((
                            "variable-leaves-do-not-tile-payload".to_string(),
                            format!("mdat {id} ({} payload bytes): leaf at covered offset {off} of length {len} is not the digest of that payload segment", m.pay.len()),
                        ));
                    }
                    off += len;
                }
                if off != cov.len() {
                    return Some((
                        "variable-leaves-do-not-tile-payload".to_string(),
                        format!("mdat {id}: leaves cover {off} bytes, the verifier hashes {}", cov.len()),
                    ));
                }
            }
        }
    }
    None
}

fn level1(run: &mut Run, c: &Case, tag: &str) {
    let req = format!("C17 acc fixed={} calls={}", c.fixed_str(), c.calls_str());
    let res = guarded(std::panic::AssertUnwindSafe(|| {
        let mut acc = new_acc(c.fixed);
        for (k, (id, chunk)) in c.chunks().into_iter().enumerate() {
            for (_, b) in c.sets.iter().filter(|s| s.0 == k) {
                if b % 1024 == 0 && *b > 0 {
                    acc.set_fixed_size(b / 1024);
                } else {
                    acc.fixed_size = Some(*b);
                }
            }
            if acc.add_merkle_leaf(id, c.mdats[id].large, chunk).is_err() {
                return Err(());
            }
        }
        Ok(acc)
    }));
    run.count(&format!("acc_{tag}"));
    run.count(if c.eff_fixed().is_some() { "acc_fixed" } else { "acc_variable" });
    if c.midstream() {
        run.count("acc_leaf_size_changed_midstream");
    }
    if c.calls.iter().any(|x| x.1 == 0) {
        run.count("acc_with_empty_chunk");
    }
    if let Some(&(id, n)) = c.calls.first() {
        if !c.mdats[id].large && n <= 8 {
            run.count("acc_first_chunk_le_8");
        }
    }
    match res {
        Ok(Ok(acc)) => {
            let idx = run.case(req.clone(), acc_state_str(c, &acc));
            if c.calls.len() >= 2 {
                run.nontrivial(req);
            }
            if !c.midstream() {
                if let Some((class, detail)) = acc_oracle(c, &acc) {
                    run.fail(idx, &class, detail);
                }
            }
        }
        Ok(Err(())) => {
            let idx = run.case(req, "err".to_string());
            if c.midstream() {
                // a refusal is an acceptable answer to a leaf size changed between chunks
                run.count("acc_midstream_change_refused");
            } else {
                run.fail(idx, "add-merkle-leaf-error", "add_merkle_leaf returned an error for a well-formed chunk sequence".to_string());
            }
        }
        Err(p) => {
            let idx = run.case(req, "panic".to_string());
            let class = if c.midstream() { "leaf-size-change-panic" } else { "panic" };
            run.fail(idx, class, format!("add_merkle_leaf panicked: {p}"));
        }
    }
}

// ---------------------------------------------------------------------------------------------
// level 2 / 3

struct SharedSigner(Arc<EphemeralSigner>);

impl Signer for SharedSigner {
    fn sign(&self, data: &[u8]) -> c2pa::Result<Vec<u8>> {
        self.0.sign(data)
    }

    fn alg(&self) -> SigningAlg {
        self.0.alg()
    }

    fn certs(&self) -> c2pa::Result<Vec<Vec<u8>>> {
        self.0.certs()
    }

    fn reserve_size(&self) -> usize {
        self.0.reserve_size()
    }
}

struct Env {
    signer: Arc<EphemeralSigner>,
    ftyp: Vec<u8>,
    moov: Vec<u8>,
    fixture_mdat: Vec<u8>,
}

fn boxes_of(d: &[u8]) -> Vec<(usize, usize, [u8; 4])> {
    let mut out = vec![];
    let mut o = 0usize;
    while o + 8 <= d.len() {
        let mut sz = u32::from_be_bytes(d[o..o + 4].try_into().unwrap()) as usize;
        let t: [u8; 4] = d[o + 4..o + 8].try_into().unwrap();
        if sz == 1 {
            sz = u64::from_be_bytes(d[o + 8..o + 16].try_into().unwrap()) as usize;
        }
        if sz < 8 {
            break;
        }
        out.push((o, sz, t));
        o += sz;
    }
    out
}

impl Env {
    fn new() -> Env {
        let d = std::fs::read(fixtures().join("video1_no_manifest.mp4")).expect("fixture mp4");
        let mut ftyp = vec![];
        let mut moov = vec![];
        let mut mdat = vec![];
        for (o, sz, t) in boxes_of(&d) {
            match &t {
                b"ftyp" => ftyp = d[o..o + sz].to_vec(),
                b"moov" => moov = d[o..o + sz].to_vec(),
                b"mdat" => mdat = d[o + 8..o + sz].to_vec(),
                _ => {}
            }
        }
        Env {
            signer: Arc::new(EphemeralSigner::new("c17.verif.test").expect("signer")),
            ftyp,
            moov,
            fixture_mdat: mdat,
        }
    }
}

const DEFINITION: &str = r#"{
  "claim_generator_info": [{"name": "c17_verif", "version": "1.0.0"}],
  "title": "c17",
  "assertions": [{"label": "c2pa.actions", "data": {"actions": [{"action": "c2pa.created", "digitalSourceType": "http://c2pa.org/digitalsourcetype/empty"}]}}]
}"#;

fn mdat_box(m: &Mdat) -> Vec<u8> {
    let mut b = vec![];
    if m.large {
        b.extend_from_slice(&1u32.to_be_bytes());
        b.extend_from_slice(b"mdat");
        b.extend_from_slice(&((m.pay.len() + 16) as u64).to_be_bytes());
    } else {
        b.extend_from_slice(&((m.pay.len() + 8) as u32).to_be_bytes());
        b.extend_from_slice(b"mdat");
    }
    b.extend_from_slice(&m.pay);
    b
}

/// the asset an application would write: ftyp ‖ free(reserved) ‖ moov ‖ mdat… ; returns the
/// bytes and the offset of the reserved free box
fn build_asset(env: &Env, c: &Case, reserve: usize) -> (Vec<u8>, usize) {
    let mut a = env.ftyp.clone();
    let off = a.len();
    a.extend_from_slice(&((reserve + 8) as u32).to_be_bytes());
    a.extend_from_slice(b"free");
    a.extend(std::iter::repeat(0u8).take(reserve));
    a.extend_from_slice(&env.moov);
    for m in &c.mdats {
        a.extend_from_slice(&mdat_box(m));
    }
    (a, off)
}

fn maps_str(c: &Case, maps: &[MerkleMap]) -> String {
    let mut out = vec![];
    for mm in maps {
        let id = mm.local_id;
        let m = &c.mdats[id.min(c.mdats.len() - 1)];
        // lengths of the leaves are needed to name the digests: fixed → blocks of the covered
        // payload, variable → the stored sizes
        let cov_len = c.covered(id.min(c.mdats.len() - 1)).len();
        let lens: Vec<usize> = match (&mm.fixed_block_size, &mm.variable_block_sizes) {
            (_, Some(v)) => v.iter().map(|x| *x as usize).collect(),
            (Some(fb), None) => {
                let fb = (*fb as usize).max(1);
                let mut v = vec![];
                let mut left = cov_len;
                for _ in 0..mm.hashes.len() {
                    let l = left.min(fb);
                    v.push(l);
                    left -= l;
                }
                v
            }
            _ => vec![cov_len; mm.hashes.len()],
        };
        let mut cursor = if m.large { 0 } else { 8 };
        let mut hs = vec![];
        for (k, h) in mm.hashes.iter().enumerate() {
            let mut len = lens.get(k).cloned().unwrap_or(0);
            let nm = if c.midstream() && mm.variable_block_sizes.is_none() {
                // leaves of mixed sizes under one fixed_block_size: find the length
                let (nm, l) = name_digest_anylen(&m.pay, h, cursor);
                len = l;
                nm
            } else {
                name_digest(&m.pay, len, h, cursor)
            };
            // the model prints the digest only (segment), not the stored size
            hs.push(if h.is_empty() { "e".to_string() } else { nm });
            cursor += len;
        }
        let fb = mm.fixed_block_size.map(|x| x.to_string()).unwrap_or("-".to_string());
        let var = match &mm.variable_block_sizes {
            None => "-".to_string(),
            Some(v) => list_str(v.iter().map(|x| x.to_string()).collect(), ","),
        };
        out.push(format!("{id}/{}/{}/{fb}/{var}", mm.count, list_str(hs, ",")));
    }
    if out.is_empty() {
        "none".to_string()
    } else {
        out.join(";")
    }
}

struct Built {
    builder: Builder,
    asset: Vec<u8>,
    free_off: usize,
    reserve: usize,
    bh: BmffHash,
}

fn build(env: &Env, c: &Case) -> Result<Built, String> {
    let ctx = Context::new().with_signer(SharedSigner(env.signer.clone()));
    let mut builder = Builder::from_context(ctx).with_definition(DEFINITION).map_err(|e| format!("definition: {e}"))?;
    let placeholder = builder.placeholder("video/mp4").map_err(|e| format!("placeholder: {e}"))?;
    match c.fixed {
        // the public setter takes KiB; other sizes go through the hook accessor
        Some(f) if f > 0 && f % 1024 == 0 => {
            builder.set_bmff_hash_fixed_leaf_size(f / 1024);
        }
        Some(f) => builder.bmff_hasher_for_verif().fixed_size = Some(f),
        None => {}
    }
    let mut nleaves = c.calls.len() + c.mdats.len();
    let minf = c.sets.iter().map(|s| s.1).chain(c.fixed).filter(|f| *f > 0).min();
    if let Some(f) = minf {
        nleaves = nleaves.max(c.mdats.iter().map(|m| m.pay.len() / f + 2).sum());
    }
    for (k, (id, chunk)) in c.chunks().into_iter().enumerate() {
        for (_, b) in c.sets.iter().filter(|s| s.0 == k) {
            if b % 1024 == 0 && *b > 0 {
                builder.set_bmff_hash_fixed_leaf_size(b / 1024);
            } else {
                builder.bmff_hasher_for_verif().fixed_size = Some(*b);
            }
        }
        builder.hash_bmff_mdat_bytes(id, chunk, c.mdats[id].large).map_err(|e| format!("hash_bmff_mdat_bytes: {e}"))?;
    }
    let reserve = placeholder.len() + 48 * nleaves * c.flushes.max(1) + 2048;
    let (asset, free_off) = build_asset(env, c, reserve);
    let mut cur = Cursor::new(asset);
    // a caller may run the hashing step again (e.g. a retry after an I/O error)
    for _ in 0..c.flushes.max(1) {
        builder.update_hash_from_stream("video/mp4", &mut cur).map_err(|e| format!("update_hash_from_stream: {e}"))?;
    }
    let asset = cur.into_inner();
    let mut bh = find_bmff_hash(&builder).map_err(|e| format!("find bmff hash: {e}"))?;
    // the version lives in the label (serde skips the field); read it the way a reader would
    let ver = builder
        .definition
        .assertions
        .iter()
        .find(|a| a.label.contains(BmffHash::LABEL))
        .and_then(|a| a.label.rsplit(".v").next().and_then(|v| v.parse::<usize>().ok()))
        .unwrap_or(1);
    bh.set_bmff_version(ver);
    Ok(Built { builder, asset, free_off, reserve, bh })
}

fn level2(run: &mut Run, env: &Env, c: &Case, tag: &str, e2e: bool) {
    let req = format!("C17 final fixed={} calls={}{}", c.fixed_str(), c.calls_str(), c.flushes_str());
    run.count(&format!("final_{tag}"));
    if c.flushes > 1 {
        run.count("final_update_hash_twice");
    }
    if c.midstream() {
        run.count("final_leaf_size_changed_midstream");
    }
    let built = guarded(std::panic::AssertUnwindSafe(|| build(env, c)));
    let b = match built {
        Ok(Ok(b)) => b,
        Ok(Err(e)) => {
            let idx = run.case(req, "err".to_string());
            if c.midstream() && e.starts_with("hash_bmff_mdat_bytes") {
                run.count("final_midstream_change_refused");
            } else {
                run.fail(idx, "workflow-error", e);
            }
            return;
        }
        Err(p) => {
            let idx = run.case(req, "panic".to_string());
            run.fail(idx, if c.midstream() { "leaf-size-change-panic" } else { "panic" }, p);
            return;
        }
    };
    let maps: Vec<MerkleMap> = match b.bh.merkle() {
        Some(v) => v.iter().map(|m| MerkleMap {
            unique_id: m.unique_id,
            local_id: m.local_id,
            count: m.count,
            alg: m.alg.clone(),
            init_hash: m.init_hash.clone(),
            hashes: m.hashes.clone(),
            fixed_block_size: m.fixed_block_size,
            variable_block_sizes: m.variable_block_sizes.clone(),
        }).collect(),
        None => vec![],
    };
    let verdict = {
        let mut cur = Cursor::new(&b.asset);
        match guarded(std::panic::AssertUnwindSafe(|| b.bh.verify_stream_hash(&mut cur, None))) {
            Ok(Ok(())) => Ok(()),
            Ok(Err(e)) => Err(e.to_string()),
            Err(p) => Err(format!("panic: {p}")),
        }
    };
    let vs = if maps.is_empty() { "nomerkle" } else if verdict.is_ok() { "ok" } else { "bad" };
    let idx = run.case(req.clone(), format!("{} {vs}", maps_str(c, &maps)));
    run.nontrivial(req);
    if c.midstream() {
        // outside the documented use: only "no panic" and model = code are checked
        return;
    }
    if let Err(e) = &verdict {
        // which input kind? (stable class for known_findings.json)
        let class = if c.mdats.len() > 1 && c.mdats.iter().enumerate().any(|(i, _)| c.covered(i).is_empty()) {
            "multi-mdat-with-uncovered-mdat"
        } else if c.flushes > 1 {
            "second-update-hash-breaks-binding"
        } else {
            "hash-binding-rejected"
        };
        run.fail(idx, class, format!("the asset's BMFF hash does not verify after hashing the mdat payload in {} chunks: {e}", c.calls.len()));
    }
    // leaves must not depend on the chunking (fixed) / must tile the payload (variable)
    if let Some((class, detail)) = maps_oracle(c, &maps) {
        let class = if c.flushes > 1 { "second-update-hash-changes-maps".to_string() } else { class };
        run.fail(idx, &class, detail);
    }
    if e2e {
        run.count("e2e");
        match guarded(std::panic::AssertUnwindSafe(|| end_to_end(&b))) {
            Ok(Ok(())) => run.count("e2e_valid"),
            Ok(Err(e)) => {
                let class = if verdict.is_err() && c.mdats.len() > 1 && c.mdats.iter().enumerate().any(|(i, _)| c.covered(i).is_empty()) {
                    "multi-mdat-with-uncovered-mdat"
                } else if c.flushes > 1 {
                    "second-update-hash-breaks-binding"
                } else {
                    "asset-not-valid"
                };
                run.fail(idx, class, format!("sign_embeddable → patch → Reader: {e}"));
            }
            Err(p) => run.fail(idx, "panic", p),
        }
    }
}

fn maps_oracle(c: &Case, maps: &[MerkleMap]) -> Option<(String, String)> {
    for (id, m) in c.mdats.iter().enumerate() {
        let cov = c.covered(id);
        let mm = maps.iter().find(|mm| mm.local_id == id);
        let Some(mm) = mm else {
            if cov.is_empty() {
                continue;
            }
            return Some(("mdat-without-merkle-map".to_string(), format!("mdat {id} has {} covered bytes but no MerkleMap", cov.len())));
        };
        let got: Vec<Vec<u8>> = mm.hashes.iter().map(|h| h.to_vec()).collect();
        match c.eff_fixed() {
            Some(f) if f > 0 => {
                let want: Vec<Vec<u8>> = cov.chunks(f).map(sha).collect();
                if got != want || mm.count != want.len() {
                    return Some(("fixed-leaves-depend-on-chunking".to_string(), format!("mdat {id} ({} payload bytes, large={}): stored {} leaf hashes, the {f}-byte blocks of the covered payload give {}", m.pay.len(), m.large, got.len(), want.len())));
                }
            }
            _ => {
                let sizes = mm.variable_block_sizes.clone().unwrap_or_default();
                let mut off = 0usize;
                for (k, s) in sizes.iter().enumerate() {
                    let s = *s as usize;
                    if s == 0 || off + s > cov.len() || got.get(k) != Some(&sha(&cov[off..off + s])) {
                        return Some(("variable-leaves-do-not-tile-payload".to_string(), format!("mdat {id}: leaf {k} (size {s}) is not the digest of the payload segment at covered offset {off}")));
                    }
                    off += s;
                }
                if off != cov.len() || sizes.len() != got.len() {
                    return Some(("variable-leaves-do-not-tile-payload".to_string(), format!("mdat {id}: sizes cover {off} of {} bytes", cov.len())));
                }
            }
        }
    }
    None
}

// ---------------------------------------------------------------------------------------------
// leaf-memory budget (`MAX_MERKLE_LEAVES_SIZE` = 32 MiB of digests per mdat)

const MAX_MERKLE_LEAVES_SIZE: usize = 32 * 1024 * 1024;

fn alg_of(hsz: usize) -> &'static str {
    match hsz {
        48 => "sha384",
        64 => "sha512",
        _ => "sha256",
    }
}

/// signer side: `create_mms_from_mdat_leaves` on `n` leaves
fn caps(run: &mut Run, fixed: Option<usize>, n: usize, hsz: usize) {
    let req = format!("C17 caps fixed={} n={n} hsz={hsz}", fixed.map(|f| f.to_string()).unwrap_or("-".to_string()));
    run.count("budget_signer");
    let res = guarded(std::panic::AssertUnwindSafe(|| {
        let mut leaves = std::collections::BTreeMap::new();
        leaves.insert(0usize, vec![(1u64, Vec::<u8>::new()); n]);
        create_mms_from_mdat_leaves(alg_of(hsz), &leaves, fixed)
    }));
    let fits = n * hsz <= MAX_MERKLE_LEAVES_SIZE;
    match res {
        Ok(Ok(v)) => {
            let idx = run.case(req.clone(), format!("ok {}", v.first().map(|m| m.count).unwrap_or(0)));
            run.nontrivial(req);
            if !fits {
                run.fail(idx, "over-budget-map-stored", format!("create_mms_from_mdat_leaves stores a MerkleMap with {n} leaves of {hsz} bytes; validate_merkle_maps_mdat_boxes refuses every such map (leaf memory over {MAX_MERKLE_LEAVES_SIZE} bytes)"));
            }
        }
        Ok(Err(e)) => {
            let over = matches!(e, Error::InvalidAsset(_));
            let idx = run.case(req.clone(), if over { "toomany" } else { "err" }.to_string());
            run.nontrivial(req);
            if fits && fixed != Some(0) {
                run.fail(idx, "within-budget-map-refused", format!("create_mms_from_mdat_leaves refuses {n} leaves of {hsz} bytes: {e}"));
            }
        }
        Err(p) => {
            let idx = run.case(req, "panic".to_string());
            run.fail(idx, "panic", p);
        }
    }
}

/// validator side: a hand-made MerkleMap (wrong `count`, so no range is ever hashed) against an
/// asset whose mdat has `len` bytes after the 16-byte exclusion
fn capv(run: &mut Run, env: &Env, fb: Option<usize>, var: Option<(usize, usize)>, len: usize, hsz: usize, count: usize) {
    let req = format!(
        "C17 capv fb={} varn={} vars={} len={len} hsz={hsz} count={count}",
        fb.map(|f| f.to_string()).unwrap_or("-".to_string()),
        var.map(|v| v.0.to_string()).unwrap_or("-".to_string()),
        var.map(|v| v.1).unwrap_or(0)
    );
    run.count("budget_validator");
    let mut asset = env.ftyp.clone();
    asset.extend_from_slice(&env.moov);
    asset.extend_from_slice(&((len + 16) as u32).to_be_bytes());
    asset.extend_from_slice(b"mdat");
    asset.extend(std::iter::repeat(0x5au8).take(len + 8));
    let mm = MerkleMap {
        unique_id: 0,
        local_id: 0,
        count,
        alg: Some(alg_of(hsz).to_string()),
        init_hash: None,
        hashes: c2pa::assertions::VecByteBuf(vec![serde_bytes::ByteBuf::from(vec![0u8; hsz])]),
        fixed_block_size: fb.map(|f| f as u64),
        variable_block_sizes: var.map(|(k, sz)| vec![sz as u64; k]),
    };
    let res = guarded(std::panic::AssertUnwindSafe(|| {
        let mut bh = BmffHash::new("jumbf manifest", "sha256", None);
        bh.set_bmff_version(3);
        // the exclusion `update_hash_from_stream` adds for Merkle-hashed mdats
        let mut mdat = ExclusionsMap::new("/mdat".to_owned());
        mdat.subset = Some(vec![SubsetMap { offset: 16, length: 0 }]);
        bh.add_exclusions(&mut vec![mdat]);
        bh.set_merkle(vec![mm]);
        let mut cur = Cursor::new(&asset);
        bh.verify_stream_hash(&mut cur, None)
    }));
    let reply = match &res {
        Ok(Ok(())) => "go",
        Ok(Err(Error::InvalidAsset(_))) => "toomany",
        Ok(Err(_)) => "rej",
        Err(_) => "panic",
    };
    let idx = run.case(req.clone(), reply.to_string());
    run.nontrivial(req);
    if let Err(p) = res {
        run.fail(idx, "panic", p);
    }
}

/// the whole placeholder workflow with more chunks than the budget has leaves (variable sizes,
/// public API only): either the signer refuses or the stored binding must verify
fn over_budget_workflow(run: &mut Run, env: &Env, nchunks: usize) {
    let req = format!("C17 caps fixed=- n={nchunks} hsz=32");
    run.count("budget_workflow");
    let pay = vec![0x42u8; nchunks + 8];
    let c = Case { fixed: None, calls: vec![], mdats: vec![Mdat { large: false, pay: pay.clone() }], flushes: 1, sets: vec![] };
    let res = guarded(std::panic::AssertUnwindSafe(|| -> Result<Result<(BmffHash, Vec<u8>), Error>, String> {
        let ctx = Context::new().with_signer(SharedSigner(env.signer.clone()));
        let mut builder = Builder::from_context(ctx).with_definition(DEFINITION).map_err(|e| format!("definition: {e}"))?;
        let placeholder = builder.placeholder("video/mp4").map_err(|e| format!("placeholder: {e}"))?;
        // the 8 header-exclusion bytes, then one byte per call
        builder.hash_bmff_mdat_bytes(0, &pay[..8], false).map_err(|e| format!("hash_bmff_mdat_bytes: {e}"))?;
        for b in pay[8..].chunks(1) {
            builder.hash_bmff_mdat_bytes(0, b, false).map_err(|e| format!("hash_bmff_mdat_bytes: {e}"))?;
        }
        let (asset, _) = build_asset(env, &c, placeholder.len() + 2048);
        let mut cur = Cursor::new(asset);
        match builder.update_hash_from_stream("video/mp4", &mut cur) {
            Err(e) => Ok(Err(e)),
            Ok(_) => {
                let mut bh = find_bmff_hash(&builder).map_err(|e| format!("find bmff hash: {e}"))?;
                bh.set_bmff_version(3);
                Ok(Ok((bh, cur.into_inner())))
            }
        }
    }));
    match res {
        Ok(Ok(Err(e))) => {
            let over = matches!(e, Error::InvalidAsset(_));
            let idx = run.case(req.clone(), if over { "toomany" } else { "err" }.to_string());
            run.nontrivial(req);
            run.count("budget_workflow_refused");
            if nchunks * 32 <= MAX_MERKLE_LEAVES_SIZE {
                run.fail(idx, "within-budget-map-refused", format!("update_hash_from_stream refuses {nchunks} variable-size leaves: {e}"));
            }
        }
        Ok(Ok(Ok((bh, asset)))) => {
            let count = bh.merkle().and_then(|v| v.first().map(|m| m.count)).unwrap_or(0);
            let idx = run.case(req.clone(), format!("ok {count}"));
            run.nontrivial(req);
            let mut cur = Cursor::new(&asset);
            if let Err(e) = bh.verify_stream_hash(&mut cur, None) {
                run.fail(idx, "over-budget-map-stored", format!("mdat payload of {} bytes delivered in {} calls (variable leaf sizes): update_hash_from_stream succeeds and stores {count} leaves, the stored BMFF hash then fails verification: {e}", pay.len(), nchunks + 1));
            }
        }
        Ok(Err(e)) => {
            let idx = run.case(req, "err".to_string());
            run.fail(idx, "workflow-error", e);
        }
        Err(p) => {
            let idx = run.case(req, "panic".to_string());
            run.fail(idx, "panic", p);
        }
    }
}

fn budget(run: &mut Run, env: &Env, rng: &mut Rng, thorough: bool) {
    let mut r = rng.fork();
    for hsz in [32usize, 48, 64] {
        let n0 = MAX_MERKLE_LEAVES_SIZE / hsz; // the largest leaf count within the budget
        for n in [n0 - 1, n0, n0 + 1, n0 + 2 + r.below(5000) as usize, 1 + r.below(n0 as u64 / 4) as usize] {
            let fixed = *r.pick(&[None, Some(2usize), Some(1024), Some(4096)]);
            caps(run, fixed, n, hsz);
            if n == n0 || n == n0 + 1 {
                caps(run, if fixed.is_none() { Some(2048) } else { None }, n, hsz);
            }
        }
        for fb in [2usize, 3] {
            capv(run, env, Some(fb), None, fb * n0, hsz, 7); // n0 ranges: within
            capv(run, env, Some(fb), None, fb * n0 + 1, hsz, 7); // n0 + 1: over
            capv(run, env, Some(fb), None, fb * (n0 - 1) + 1, hsz, 7);
        }
        capv(run, env, Some(1), None, 4096, hsz, 7);
        capv(run, env, None, Some((n0, 1)), n0, hsz, 7);
        capv(run, env, None, Some((n0 + 1, 1)), n0 + 1, hsz, 7);
        capv(run, env, None, Some((n0 + 1, 1)), n0 + 2, hsz, 7); // sizes do not sum to the region
        capv(run, env, None, Some((n0 / 2, 2)), n0, hsz, n0 / 2 + 1);
    }
    capv(run, env, Some(0), None, 4096, 32, 7);
    caps(run, Some(0), 10, 32);
    // public API only, one byte per call
    over_budget_workflow(run, env, MAX_MERKLE_LEAVES_SIZE / 32 + 1);
    if thorough {
        over_budget_workflow(run, env, MAX_MERKLE_LEAVES_SIZE / 32);
    }
}

fn end_to_end(b: &Built) -> Result<(), String> {
    let signed = b.builder.sign_embeddable("video/mp4").map_err(|e| format!("sign_embeddable: {e}"))?;
    let total = b.reserve + 8;
    if signed.len() + 8 >= total {
        return Err(format!("reserved {total} bytes, signed manifest {}", signed.len()));
    }
    let mut asset = b.asset.clone();
    let mut cur = Cursor::new(&mut asset);
    cur.seek(std::io::SeekFrom::Start(b.free_off as u64)).map_err(|e| e.to_string())?;
    cur.write_all(&signed).map_err(|e| e.to_string())?;
    let rest = total - signed.len();
    cur.write_all(&(rest as u32).to_be_bytes()).map_err(|e| e.to_string())?;
    cur.write_all(b"free").map_err(|e| e.to_string())?;
    let reader = Reader::from_context(Context::new())
        .with_stream("video/mp4", Cursor::new(asset))
        .map_err(|e| format!("Reader: {e}"))?;
    let st = reader.validation_state();
    if st == ValidationState::Invalid {
        let codes: Vec<String> = reader
            .validation_results()
            .and_then(|r| r.active_manifest().map(|a| a.failure().iter().map(|s| s.code().to_string()).collect()))
            .unwrap_or_default();
        return Err(format!("state Invalid, failures {codes:?}"));
    }
    Ok(())
}

// ---------------------------------------------------------------------------------------------
// generators

fn split_random(r: &mut Rng, total: usize, fixed: Option<usize>) -> Vec<usize> {
    let mut out = vec![];
    let mut left = total;
    let maxk = r.range(1, 12) as usize;
    while left > 0 && out.len() < maxk {
        let n = match r.below(8) {
            0 => 0,
            1 => r.range(1, 8) as usize,
            2 => 8,
            3 => r.range(9, 17) as usize,
            4 => match fixed {
                Some(f) if f > 0 => (f + r.below(3) as usize).saturating_sub(1),
                _ => r.range(1, 64) as usize,
            },
            5 => match fixed {
                Some(f) if f > 0 => f * r.range(1, 3) as usize + r.below(2) as usize * 8,
                _ => r.range(1, 300) as usize,
            },
            _ => r.range(0, left as u64) as usize,
        }
        .min(left);
        out.push(n);
        left -= n;
    }
    if left > 0 {
        out.push(left);
    }
    // trailing / interspersed empty chunks
    if r.chance(1, 5) {
        let at = r.below(out.len() as u64 + 1) as usize;
        out.insert(at, 0);
    }
    if out.is_empty() {
        out.push(0);
    }
    out
}

fn interleave(r: &mut Rng, per: Vec<Vec<usize>>) -> Vec<(usize, usize)> {
    let mut idx = vec![0usize; per.len()];
    let mut out = vec![];
    loop {
        let live: Vec<usize> = (0..per.len()).filter(|&i| idx[i] < per[i].len()).collect();
        if live.is_empty() {
            break;
        }
        // mostly sequential (an application writes one mdat after the other), sometimes interleaved
        let i = if r.chance(3, 4) { live[0] } else { *r.pick(&live) };
        out.push((i, per[i][idx[i]]));
        idx[i] += 1;
    }
    out
}

/// `allow_one`: a leaf size of one byte exists only through the hook (the public setter takes
/// KiB) and is rejected by the validator by design (`fixed_block_size <= 1`); level 1 only.
fn pick_fixed(r: &mut Rng, thorough: bool, small_only: bool, allow_one: bool) -> Option<usize> {
    let small = [1usize, 2, 3, 5, 8, 16, 64];
    match r.below(if small_only { 3 } else { 5 }) {
        0 => None,
        1 | 2 => Some((*r.pick(&small)).max(if allow_one { 1 } else { 2 })),
        3 => Some(1024),
        _ => Some(if thorough && r.chance(1, 3) { 65536 } else { 2048 }),
    }
}

fn random_case(r: &mut Rng, thorough: bool, max_pay: usize, max_mdats: u64, allow_one: bool) -> Case {
    let nm = if r.chance(3, 4) { 1 } else { r.range(1, max_mdats) as usize };
    let fixed = pick_fixed(r, thorough, false, allow_one);
    // tiny leaf sizes: keep the number of leaves moderate
    let max_pay = match fixed {
        Some(f) if f > 0 => max_pay.min(300 * f),
        _ => max_pay,
    };
    let mut mdats = vec![];
    let mut per = vec![];
    for _ in 0..nm {
        let len = match r.below(6) {
            0 => r.range(0, 24) as usize,
            1 => r.range(0, 300) as usize,
            2 => match fixed {
                Some(f) if f > 0 && f <= max_pay => (f * r.range(1, 3) as usize + 8 + r.below(3) as usize).saturating_sub(1).min(max_pay),
                _ => r.range(0, max_pay as u64) as usize,
            },
            _ => r.range(0, max_pay as u64) as usize,
        };
        per.push(split_random(r, len, fixed));
        mdats.push(Mdat { large: r.chance(1, 4), pay: r.bytes(len) });
    }
    let calls = interleave(r, per);
    Case { fixed, calls, mdats, flushes: 1, sets: vec![] }
}

fn single(fixed: Option<usize>, large: bool, sizes: &[usize], r: &mut Rng) -> Case {
    let total: usize = sizes.iter().sum();
    Case { fixed, calls: sizes.iter().map(|&n| (0usize, n)).collect(), mdats: vec![Mdat { large, pay: r.bytes(total) }], flushes: 1, sets: vec![] }
}

pub fn run(run: &mut Run, rng: &mut Rng) {
    run.rule = "a case is non-trivial when the payload of an mdat reaches the SDK in at least two calls (level 1) or goes through the whole placeholder workflow (levels 2/3); distinct by request text".to_string();
    let thorough = run.thorough();
    let env = Env::new();

    // 0. the chunkings named in the defect description (F4)
    let mut r0 = rng.fork();
    let named: Vec<(Option<usize>, bool, Vec<usize>)> = vec![
        (None, false, vec![3, 40]),
        (None, false, vec![8, 40]),
        (None, false, vec![1, 1, 1, 1, 1, 1, 1, 1, 1, 40]),
        (None, false, vec![20, 0, 20]),
        (None, false, vec![0, 20, 20]),
        (Some(16), false, vec![3, 40]),
        (Some(16), false, vec![8, 8, 24]),
        (Some(16), false, vec![0, 9, 0, 31]),
        (Some(1024), false, vec![5, 3000]),
        (None, true, vec![3, 40]),
        (Some(16), true, vec![3, 0, 40]),
        (Some(4), false, vec![9]),
        (None, false, vec![9]),
        (None, false, vec![8]),
    ];
    for (fixed, large, sizes) in &named {
        let c = single(*fixed, *large, sizes, &mut r0);
        level1(run, &c, "named");
        level2(run, &env, &c, "named", true);
    }

    // 0b. histories named in the review: the hashing step run twice with a buffered remainder,
    //     the leaf size set before the first chunk, lowered below a buffered remainder, changed
    for (fixed, large, sizes, flushes, sets) in [
        (Some(16usize), false, vec![3usize, 40], 2usize, vec![]),
        (Some(1024), false, vec![5, 3000], 2, vec![]),
        (Some(16), true, vec![16, 16], 3, vec![]),
        (None, false, vec![20, 0, 20], 2, vec![]),
        (None, false, vec![30, 50], 1, vec![(0usize, 16usize)]),
        (Some(64), true, vec![30, 50], 1, vec![(0, 1024)]),
        (Some(8), true, vec![5, 1], 1, vec![(1, 4)]),
        (Some(2048), false, vec![1500, 100, 2000], 1, vec![(1, 1024)]),
        (Some(4), true, vec![6, 3], 1, vec![(1, 2)]),
        (Some(4), false, vec![14, 3, 9], 2, vec![(2, 8)]),
    ] {
        let mut c = single(fixed, large, &sizes, &mut r0);
        c.flushes = flushes;
        c.sets = sets;
        level1(run, &c, "history");
        level2(run, &env, &c, "history", !c.midstream());
    }

    // 1. every split point 0..32 of the first three chunks (then the rest of the payload)
    let variants = if thorough { 6 } else { 1 };
    for a in 0..=32usize {
        for b in 0..=32usize {
            for cc in 0..=32usize {
                for _ in 0..variants {
                    let mut r = rng.fork();
                    let tail = *r.pick(&[0usize, 0, 1, 7, 8, 9, 40, 200]);
                    let fixed = pick_fixed(&mut r, thorough, true, true);
                    let large = r.chance(1, 4);
                    let mut sizes = vec![a, b, cc];
                    if tail > 0 || r.chance(1, 2) {
                        sizes.push(tail);
                    }
                    let c = single(fixed, large, &sizes, &mut r);
                    level1(run, &c, "first3");
                }
            }
        }
    }

    // 2. random multi-way splits, several mdats, payloads 0..4 KiB (level 1)
    let n1 = if thorough { 300_000 } else { 30_000 };
    for _ in 0..n1 {
        let mut r = rng.fork();
        let c = random_case(&mut r, thorough, 4096, 3, true);
        level1(run, &c, "random");
    }

    // 3. level 2 (whole workflow up to the stored maps + hash verification) and level 3
    let n2 = if thorough { 12_000 } else { 700 };
    let e2e_every = if thorough { 8 } else { 10 };
    for k in 0..n2 {
        let mut r = rng.fork();
        let c = if k % 3 == 0 {
            // short first chunks, single mdat
            let a = r.range(0, 32) as usize;
            let b = r.range(0, 32) as usize;
            let tail = r.range(0, 3000) as usize;
            let fixed = pick_fixed(&mut r, thorough, false, false);
            let large = r.chance(1, 4);
            single(fixed, large, &[a, b, tail], &mut r)
        } else {
            random_case(&mut r, thorough, 4096, 3, false)
        };
        let mut c = c;
        // histories: the hashing step run again; the leaf size chosen through the setter
        if r.chance(1, 4) {
            c.flushes = 2 + r.below(2) as usize;
        }
        if r.chance(1, 6) {
            c.sets = vec![(0, *r.pick(&[2usize, 5, 16, 64, 1024, 2048]))];
        }
        level2(run, &env, &c, "random", k % e2e_every == 0);
    }

    // 3b. the leaf size changed between chunks (outside the documented use): no panic, and
    //     the model follows the code (refusal when a buffered partial leaf no longer fits)
    let n3 = if thorough { 40_000 } else { 4_000 };
    for k in 0..n3 {
        let mut r = rng.fork();
        let mut c = random_case(&mut r, thorough, 600, 2, true);
        if c.fixed.is_none() {
            c.fixed = Some(*r.pick(&[2usize, 3, 5, 8, 16, 64]));
        }
        let nsets = r.range(1, 2) as usize;
        for _ in 0..nsets {
            let at = r.range(1, c.calls.len().max(1) as u64) as usize;
            let bytes = match r.below(4) {
                0 => 1024,
                1 => c.fixed.unwrap_or(4).saturating_sub(r.range(1, 3) as usize).max(1),
                _ => *r.pick(&[1usize, 2, 3, 4, 5, 8, 16, 64]),
            };
            c.sets.push((at.min(c.calls.len().saturating_sub(1)), bytes));
        }
        c.sets.sort();
        if !c.midstream() {
            continue;
        }
        level1(run, &c, "setsize");
        if k % 20 == 0 && c.sets.iter().all(|s| s.1 > 1) {
            level2(run, &env, &c, "setsize", false);
        }
    }

    // 5. the validator's leaf-memory budget, signer and validator side
    budget(run, &env, rng, thorough);

    // 4. the fixture's real mdat payload, whole workflow (thorough)
    let nfix = if thorough { 12 } else { 2 };
    for k in 0..nfix {
        let mut r = rng.fork();
        let fixed = match k % 4 {
            0 => None,
            1 => Some(1024),
            2 => Some(65536),
            _ => Some(4096),
        };
        let total = env.fixture_mdat.len();
        let mut sizes = vec![r.range(0, 32) as usize, r.range(0, 32) as usize];
        let mut left = total - sizes[0] - sizes[1];
        while left > 0 && sizes.len() < 9 {
            let n = r.range(left as u64 / 10, left as u64) as usize;
            sizes.push(n);
            left -= n;
        }
        if left > 0 {
            sizes.push(left);
        }
        let c = Case {
            fixed,
            calls: sizes.iter().map(|&n| (0usize, n)).collect(),
            mdats: vec![Mdat { large: false, pay: env.fixture_mdat.clone() }],
            flushes: 1,
            sets: vec![],
        };
        level2(run, &env, &c, "fixture", true);
    }
}
