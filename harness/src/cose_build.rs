//! COSE_Sign1 construction in the harness (independent of the SDK's signer-side code), used by
//! signers with `direct_cose_handling() == true` so that the unprotected header (time-stamp
//! tokens, OCSP staples) and the signing certificate (expired, …) are fully controlled.
#![allow(dead_code)]

use coset::{
    cbor::value::Value, iana, CoseSign1, CoseSign1Builder, HeaderBuilder, Label, ProtectedHeader,
    SignatureContext, TaggedCborSerializable,
};

/// CBOR encoding of a byte string (major type 2).
pub fn cbor_bstr(b: &[u8]) -> Vec<u8> {
    let mut out = Vec::new();
    coset::cbor::into_writer(&Value::Bytes(b.to_vec()), &mut out).expect("cbor");
    out
}

/// What the unprotected header should carry.
#[derive(Clone, Default)]
pub struct Unprotected {
    /// (`"sigTst2"` | `"sigTst"`, token byte strings placed in `tstTokens`)
    pub tst: Option<(String, Vec<Vec<u8>>)>,
    /// raw replacement for the whole `sigTst*` value (header-level garbage)
    pub tst_raw: Option<(String, Value)>,
    /// a further `sigTst*` entry placed after the ones above (header order matters)
    pub tst_second: Option<(String, Value)>,
    /// OCSP responses placed in `rVals.ocspVals`
    pub ocsp: Option<Vec<Vec<u8>>>,
}

pub struct Built {
    pub cose: Vec<u8>,
    pub signature: Vec<u8>,
    /// the message a sigTst2 time-stamp must cover (countersignature structure over cbor(bstr(sig)))
    pub tst2_message: Vec<u8>,
}

pub fn protected_es256(certs: &[Vec<u8>]) -> ProtectedHeader {
    let chain = match certs.len() {
        1 => Value::Bytes(certs[0].clone()),
        _ => Value::Array(certs.iter().cloned().map(Value::Bytes).collect()),
    };
    let h = HeaderBuilder::new()
        .algorithm(iana::Algorithm::ES256)
        .value(iana::HeaderParameter::X5Chain as i64, chain)
        .build();
    ProtectedHeader { original_data: None, header: h }
}

pub fn countersign_message(data: &[u8], p: &ProtectedHeader) -> Vec<u8> {
    coset::sig_structure_data(SignatureContext::CounterSignature, p.clone(), None, &[], data)
}

/// Sign `payload` (detached) with `raw_sign` (P1363 ES256 signature over the Sig_structure).
pub fn sign_detached(
    certs: &[Vec<u8>],
    payload: &[u8],
    raw_sign: &dyn Fn(&[u8]) -> Vec<u8>,
) -> (CoseSign1, Vec<u8>) {
    let p = protected_es256(certs);
    let mut s1 = CoseSign1Builder::new().protected(p.header.clone()).payload(payload.to_vec()).build();
    let tbs = coset::sig_structure_data(
        SignatureContext::CoseSign1,
        s1.protected.clone(),
        None,
        &[],
        s1.payload.as_ref().unwrap(),
    );
    s1.signature = raw_sign(&tbs);
    s1.payload = None;
    let msg = countersign_message(&cbor_bstr(&s1.signature), &p);
    (s1, msg)
}

pub fn tst_container(tokens: &[Vec<u8>]) -> Value {
    Value::Map(vec![(
        Value::Text("tstTokens".to_string()),
        Value::Array(
            tokens
                .iter()
                .map(|t| Value::Map(vec![(Value::Text("val".to_string()), Value::Bytes(t.clone()))]))
                .collect(),
        ),
    )])
}

/// Fill the unprotected header and pad to exactly `box_size` bytes.
pub fn finish(mut s1: CoseSign1, u: &Unprotected, box_size: usize) -> Option<Vec<u8>> {
    if let Some((label, toks)) = &u.tst {
        s1.unprotected.rest.push((Label::Text(label.clone()), tst_container(toks)));
    }
    if let Some((label, v)) = &u.tst_raw {
        s1.unprotected.rest.push((Label::Text(label.clone()), v.clone()));
    }
    if let Some((label, v)) = &u.tst_second {
        s1.unprotected.rest.push((Label::Text(label.clone()), v.clone()));
    }
    if let Some(o) = &u.ocsp {
        s1.unprotected.rest.push((
            Label::Text("rVals".to_string()),
            Value::Map(vec![(
                Value::Text("ocspVals".to_string()),
                Value::Array(o.iter().cloned().map(Value::Bytes).collect()),
            )]),
        ));
    }
    for pad2 in [None, Some(0usize), Some(1), Some(2), Some(3)] {
        let mut p = s1.clone();
        if let Some(n) = pad2 {
            p.unprotected.rest.push((Label::Text("pad2".to_string()), Value::Bytes(vec![0; n])));
        }
        p.unprotected.rest.push((Label::Text("pad".to_string()), Value::Bytes(vec![])));
        let empty = p.clone().to_tagged_vec().ok()?.len();
        if empty > box_size {
            return None;
        }
        let mut guess = (box_size - empty).saturating_sub(9);
        loop {
            p.unprotected.rest.last_mut().unwrap().1 = Value::Bytes(vec![0u8; guess]);
            let v = p.clone().to_tagged_vec().ok()?;
            if v.len() == box_size {
                return Some(v);
            }
            if v.len() > box_size {
                break;
            }
            guess += 1;
        }
    }
    None
}
