#![allow(dead_code)]
//! vh — correspondence harness: drives the real c2pa-rs code in-process and writes the
//! request stream for the Lean model driver plus the implementation's replies.
//!
//!   vh <property> <tier> <seed> <outdir>

mod common;
mod c04;

use common::{Rng, Run};

fn main() {
    let args: Vec<String> = std::env::args().collect();
    if args.len() < 5 {
        eprintln!("usage: vh <property> <quick|thorough> <seed> <outdir>");
        std::process::exit(2);
    }
    let prop = args[1].as_str();
    let tier = args[2].as_str();
    let seed: u64 = args[3].parse().expect("seed");
    let out = std::path::PathBuf::from(&args[4]);
    // panics inside guarded sections are data; keep stderr quiet
    std::panic::set_hook(Box::new(|_| {}));
    let mut run = Run::new(prop, tier, seed);
    let mut rng = Rng::new(seed);
    match prop {
        "C04" => c04::run(&mut run, &mut rng),
        _ => {
            eprintln!("unknown property {prop}");
            std::process::exit(2);
        }
    }
    run.write(&out).expect("write outputs");
}
