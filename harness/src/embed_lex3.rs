//! Generators and independent lexers for TIFF, SVG, MP3/FLAC (ID3v2 prefix) and JPEG XL.

use crate::common::Rng;
use crate::embed_common::*;

// ───────────────────────── TIFF ─────────────────────────

fn u16e(le: bool, v: u16) -> [u8; 2] {
    if le { v.to_le_bytes() } else { v.to_be_bytes() }
}
fn u32e(le: bool, v: u32) -> [u8; 4] {
    if le { v.to_le_bytes() } else { v.to_be_bytes() }
}

struct Ent {
    tag: u16,
    ty: u16,
    count: u32,
    data: Vec<u8>, // value bytes in file byte order
}

const C2PA_TIFF_TAG: u16 = 0xCD41;

/// Small baseline TIFF: one or two IFDs, 1–3 strips each, optional pre-existing C2PA tag.
pub fn gen_tiff(rng: &mut Rng, existing: Option<&Store>) -> Asset {
    let le = rng.chance(2, 3);
    let pages = if rng.chance(1, 4) { 2 } else { 1 };
    let mut desc = format!("tiff-{}{}", if le { "le" } else { "be" }, if pages == 2 { "+2page" } else { "" });
    let mut b: Vec<u8> = if le { vec![b'I', b'I', 42, 0] } else { vec![b'M', b'M', 0, 42] };
    b.extend_from_slice(&[0; 4]); // first IFD offset, patched below
    let mut prev_next_field = 4usize;
    for page in 0..pages {
        let nstrips = rng.range(1, 3) as usize;
        let strips: Vec<Vec<u8>> = (0..nstrips).map(|_| { let k = rng.range(1, 40) as usize; rng.bytes(k) }).collect();
        // strip data first
        let mut strip_offs = vec![];
        for s in &strips {
            if b.len() % 2 == 1 {
                b.push(0);
            }
            strip_offs.push(b.len() as u32);
            b.extend_from_slice(s);
        }
        let mut ents: Vec<Ent> = vec![];
        let short = |tag: u16, v: u16| Ent { tag, ty: 3, count: 1, data: u16e(le, v).to_vec() };
        ents.push(short(256, 4));
        ents.push(short(257, nstrips as u16));
        ents.push(short(258, 8));
        ents.push(short(259, 1));
        ents.push(short(262, 1));
        let descr = format!("page {page} {}", rng.below(1000));
        let mut d = descr.into_bytes();
        d.push(0);
        ents.push(Ent { tag: 270, ty: 2, count: d.len() as u32, data: d });
        ents.push(Ent { tag: 273, ty: 4, count: nstrips as u32, data: strip_offs.iter().flat_map(|o| u32e(le, *o)).collect() });
        ents.push(short(277, 1));
        ents.push(short(278, 1));
        ents.push(Ent { tag: 279, ty: 4, count: nstrips as u32, data: strips.iter().flat_map(|s| u32e(le, s.len() as u32)).collect() });
        if page == 0 {
            if let Some(s) = existing {
                ents.push(Ent { tag: C2PA_TIFF_TAG, ty: 7, count: s.bytes.len() as u32, data: s.bytes.clone() });
                desc.push_str("+cai");
            }
        }
        ents.sort_by_key(|e| e.tag);
        // out-of-line values
        let mut val_off = vec![0u32; ents.len()];
        for (i, e) in ents.iter().enumerate() {
            if e.data.len() > 4 {
                if b.len() % 2 == 1 {
                    b.push(0);
                }
                val_off[i] = b.len() as u32;
                b.extend_from_slice(&e.data);
            }
        }
        if b.len() % 2 == 1 {
            b.push(0);
        }
        let ifd_at = b.len() as u32;
        b[prev_next_field..prev_next_field + 4].copy_from_slice(&u32e(le, ifd_at));
        b.extend_from_slice(&u16e(le, ents.len() as u16));
        for (i, e) in ents.iter().enumerate() {
            b.extend_from_slice(&u16e(le, e.tag));
            b.extend_from_slice(&u16e(le, e.ty));
            b.extend_from_slice(&u32e(le, e.count));
            if e.data.len() > 4 {
                b.extend_from_slice(&u32e(le, val_off[i]));
            } else {
                let mut v = e.data.clone();
                v.resize(4, 0);
                b.extend_from_slice(&v);
            }
        }
        prev_next_field = b.len();
        b.extend_from_slice(&[0; 4]);
    }
    Asset { family: Family::Tiff, fmt: "tif", bytes: b, desc, existing: existing.cloned() }
}

fn type_size(ty: u16) -> usize {
    match ty {
        1 | 2 | 6 | 7 => 1,
        3 | 8 => 2,
        4 | 9 | 11 | 13 => 4,
        5 | 10 | 12 | 16 | 17 | 18 => 8,
        _ => 1,
    }
}

/// TIFF: per IFD, every entry (tag, type, count, value bytes) except offset-valued tags, whose
/// *addressed data* is compared instead (strips / tiles through their byte counts); the C2PA
/// tag is the manifest item. Classic TIFF only.
pub fn lex_tiff(b: &[u8]) -> Option<Vec<Item>> {
    let le = match b.get(..4)? {
        [b'I', b'I', 42, 0] => true,
        [b'M', b'M', 0, 42] => false,
        _ => return None,
    };
    let r16 = |o: usize| -> Option<usize> { b.get(o..o + 2).map(|x| if le { u16::from_le_bytes([x[0], x[1]]) } else { u16::from_be_bytes([x[0], x[1]]) } as usize) };
    let r32 = |o: usize| -> Option<usize> { b.get(o..o + 4).map(|x| if le { u32::from_le_bytes([x[0], x[1], x[2], x[3]]) } else { u32::from_be_bytes([x[0], x[1], x[2], x[3]]) } as usize) };
    let mut v = vec![Item { tag: "hdr".into(), bytes: b[..4].to_vec(), manifest: false, start: 0 }];
    let mut ifd = r32(4)?;
    let mut k = 0;
    while ifd != 0 && k < 64 {
        let n = r16(ifd)?;
        let mut offsets: Option<Vec<usize>> = None;
        let mut counts: Option<Vec<usize>> = None;
        let mut off_pos = 0;
        for i in 0..n {
            let e = ifd + 2 + 12 * i;
            let tag = r16(e)?;
            let ty = r16(e + 2)? as u16;
            let count = r32(e + 4)?;
            let size = type_size(ty) * count;
            let at = if size <= 4 { e + 8 } else { r32(e + 8)? };
            let val = b.get(at..at + size)?.to_vec();
            let nums = |w: usize| -> Option<Vec<usize>> { (0..count).map(|j| if w == 2 { r16(at + 2 * j) } else { r32(at + 4 * j) }).collect() };
            match tag {
                273 | 324 => {
                    offsets = nums(type_size(ty));
                    off_pos = e;
                }
                279 | 325 => {
                    counts = nums(type_size(ty));
                    v.push(Item { tag: format!("ifd{k}/{tag}:{ty}:{count}"), bytes: val, manifest: false, start: e });
                }
                330 | 34665 | 34853 | 40965 => {
                    // pointers to sub-directories: only presence/type/count are compared
                    v.push(Item { tag: format!("ifd{k}/{tag}:{ty}:{count}:ptr"), bytes: vec![], manifest: false, start: e });
                }
                t if t == C2PA_TIFF_TAG as usize => {
                    v.push(Item { tag: "c2pa".into(), bytes: val, manifest: true, start: at });
                }
                _ => v.push(Item { tag: format!("ifd{k}/{tag}:{ty}:{count}"), bytes: val, manifest: false, start: e }),
            }
        }
        if let (Some(o), Some(c)) = (offsets, counts) {
            for (j, (oo, cc)) in o.iter().zip(c.iter()).enumerate() {
                v.push(Item { tag: format!("ifd{k}/strip{j}"), bytes: b.get(*oo..*oo + *cc)?.to_vec(), manifest: false, start: off_pos });
            }
        }
        ifd = r32(ifd + 2 + 12 * n)?;
        k += 1;
    }
    Some(v)
}

// ───────────────────────── SVG ─────────────────────────

pub fn gen_svg(rng: &mut Rng, existing: Option<&Store>) -> Asset {
    let mut desc = String::from("svg");
    let mut s = String::new();
    if rng.chance(2, 3) {
        s.push_str("<?xml version=\"1.0\" encoding=\"UTF-8\"?>\n");
    }
    if rng.chance(1, 3) {
        s.push_str("<!-- generated -->\n");
    }
    s.push_str("<svg xmlns=\"http://www.w3.org/2000/svg\" width=\"4\" height=\"4\" viewBox=\"0 0 4 4\">");
    let with_meta = existing.is_some() || rng.chance(1, 3);
    if with_meta {
        s.push_str("<metadata>");
        if rng.chance(1, 2) {
            s.push_str("<rdf:RDF xmlns:rdf=\"http://www.w3.org/1999/02/22-rdf-syntax-ns#\"><rdf:Description rdf:about=\"\"/></rdf:RDF>");
            desc.push_str("+rdf");
        }
        if let Some(st) = existing {
            s.push_str("<c2pa:manifest xmlns:c2pa=\"http://c2pa.org/manifest\">");
            s.push_str(&b64(&st.bytes));
            s.push_str("</c2pa:manifest>");
            desc.push_str("+cai");
        }
        s.push_str("</metadata>");
        desc.push_str("+meta");
    }
    s.push_str(&format!("\n  <rect width=\"{}\" height=\"2\" fill=\"#a1b2c3\"/>\n  <text x=\"0\" y=\"3\">t &amp; {}</text>\n", rng.range(1, 4), rng.below(100)));
    if rng.chance(1, 2) {
        s.push_str("  <g><circle cx=\"1\" cy=\"1\" r=\"1\"/></g>\n");
    }
    s.push_str("</svg>\n");
    Asset { family: Family::Svg, fmt: "svg", bytes: s.into_bytes(), desc, existing: existing.cloned() }
}

pub fn b64(b: &[u8]) -> String {
    const T: &[u8; 64] = b"ABCDEFGHIJKLMNOPQRSTUVWXYZabcdefghijklmnopqrstuvwxyz0123456789+/";
    let mut s = String::new();
    for c in b.chunks(3) {
        let n = (c[0] as u32) << 16 | (*c.get(1).unwrap_or(&0) as u32) << 8 | *c.get(2).unwrap_or(&0) as u32;
        s.push(T[(n >> 18) as usize & 63] as char);
        s.push(T[(n >> 12) as usize & 63] as char);
        s.push(if c.len() > 1 { T[(n >> 6) as usize & 63] as char } else { '=' });
        s.push(if c.len() > 2 { T[n as usize & 63] as char } else { '=' });
    }
    s
}

/// SVG: the text with the `c2pa:manifest` element cut out is the media item. Documented
/// normalisations applied to both sides: the `xmlns:c2pa` declaration the writer adds and an
/// emptied `<metadata>` element are ignored.
pub fn lex_svg(b: &[u8]) -> Option<Vec<Item>> {
    let s = std::str::from_utf8(b).ok()?;
    let mut v = vec![];
    let mut rest = String::new();
    let mut cur = s;
    let mut pos = 0usize;
    while let Some(i) = cur.find("<c2pa:manifest") {
        rest.push_str(&cur[..i]);
        let after = &cur[i..];
        let end = after.find("</c2pa:manifest>").map(|e| e + "</c2pa:manifest>".len()).or_else(|| after.find("/>").map(|e| e + 2))?;
        v.push(Item { tag: "c2pa".into(), bytes: after[..end].as_bytes().to_vec(), manifest: true, start: pos + i });
        pos += i + end;
        cur = &after[end..];
    }
    rest.push_str(cur);
    let norm = rest
        .replace(" xmlns:c2pa=\"http://c2pa.org/manifest\"", "")
        .replace("<metadata></metadata>", "")
        .replace("<metadata/>", "");
    v.insert(0, Item { tag: "xml".into(), bytes: norm.into_bytes(), manifest: false, start: 0 });
    Some(v)
}

// ───────────────────────── ID3 (MP3 / FLAC) ─────────────────────────

fn syncsafe(n: usize) -> [u8; 4] {
    [((n >> 21) & 0x7f) as u8, ((n >> 14) & 0x7f) as u8, ((n >> 7) & 0x7f) as u8, (n & 0x7f) as u8]
}

fn id3_frame(v4: bool, id: &[u8; 4], data: &[u8]) -> Vec<u8> {
    let mut f = id.to_vec();
    if v4 {
        f.extend_from_slice(&syncsafe(data.len()));
    } else {
        f.extend_from_slice(&(data.len() as u32).to_be_bytes());
    }
    f.extend_from_slice(&[0, 0]);
    f.extend_from_slice(data);
    f
}

pub fn gen_id3(rng: &mut Rng, existing: Option<&Store>, flac: bool) -> Asset {
    let mut desc = String::from(if flac { "flac" } else { "mp3" });
    let with_tag = existing.is_some() || rng.chance(1, 2);
    let mut b = vec![];
    if with_tag {
        let v4 = rng.chance(1, 2);
        let mut frames = vec![];
        let mut t = vec![3u8];
        t.extend_from_slice(format!("title {}", rng.below(1000)).as_bytes());
        frames.extend_from_slice(&id3_frame(v4, b"TIT2", &t));
        if rng.chance(1, 2) {
            let mut t = vec![0u8];
            t.extend_from_slice(b"artist");
            frames.extend_from_slice(&id3_frame(v4, b"TPE1", &t));
        }
        if let Some(s) = existing {
            let mut g = vec![0u8];
            g.extend_from_slice(b"application/x-c2pa-manifest-store\0");
            g.extend_from_slice(b"c2pa\0");
            g.extend_from_slice(b"c2pa manifest store\0");
            g.extend_from_slice(&s.bytes);
            frames.extend_from_slice(&id3_frame(v4, b"GEOB", &g));
            desc.push_str("+cai");
        }
        let pad = if rng.chance(1, 2) { rng.below(32) as usize } else { 0 };
        b.extend_from_slice(b"ID3");
        b.extend_from_slice(&[if v4 { 4 } else { 3 }, 0, 0]);
        b.extend_from_slice(&syncsafe(frames.len() + pad));
        b.extend_from_slice(&frames);
        b.extend(std::iter::repeat(0).take(pad));
        desc.push_str(if v4 { "+id3v24" } else { "+id3v23" });
    }
    if flac {
        b.extend_from_slice(b"fLaC");
        b.extend_from_slice(&[0x80, 0, 0, 34]);
        b.extend_from_slice(&[0x10, 0, 0x10, 0, 0, 0, 0, 0, 0, 0, 0x0a, 0xc4, 0x40, 0xf0, 0, 0, 0, 0]);
        b.extend_from_slice(&[0; 16]);
        for _ in 0..rng.range(1, 3) {
            b.extend_from_slice(&[0xFF, 0xF8, 0x69, 0x08]);
            b.extend_from_slice(&rng.bytes(rng.clone().range(4, 60) as usize));
        }
    } else {
        for _ in 0..rng.range(1, 4) {
            b.extend_from_slice(&[0xFF, 0xFB, 0x90, 0x64]);
            b.extend_from_slice(&rng.bytes(413));
        }
    }
    Asset { family: if flac { Family::Flac } else { Family::Mp3 }, fmt: if flac { "flac" } else { "mp3" }, bytes: b, desc, existing: existing.cloned() }
}

/// ID3v2-prefixed audio: frames (id, payload) of the leading tag — GEOB frames with the C2PA
/// mime type are manifest items — and the audio bytes after the tag.
pub fn lex_id3(b: &[u8]) -> Option<Vec<Item>> {
    let mut v = vec![];
    let mut audio_at = 0;
    if b.len() >= 10 && &b[..3] == b"ID3" {
        let ver = b[3];
        let size = ((b[6] as usize & 0x7f) << 21) | ((b[7] as usize & 0x7f) << 14) | ((b[8] as usize & 0x7f) << 7) | (b[9] as usize & 0x7f);
        let end = 10 + size;
        if end > b.len() {
            return None;
        }
        let mut p = 10;
        while p + 10 <= end && b[p] != 0 {
            let id = String::from_utf8_lossy(&b[p..p + 4]).into_owned();
            let n = if ver >= 4 {
                ((b[p + 4] as usize & 0x7f) << 21) | ((b[p + 5] as usize & 0x7f) << 14) | ((b[p + 6] as usize & 0x7f) << 7) | (b[p + 7] as usize & 0x7f)
            } else {
                u32::from_be_bytes([b[p + 4], b[p + 5], b[p + 6], b[p + 7]]) as usize
            };
            let d = b.get(p + 10..p + 10 + n)?;
            let manifest = id == "GEOB" && d.len() > 1 && (d[1..].starts_with(b"application/x-c2pa-manifest-store") || d[1..].starts_with(b"application/c2pa"));
            v.push(Item { tag: id, bytes: d.to_vec(), manifest, start: p });
            p += 10 + n;
        }
        audio_at = end;
    }
    v.push(Item { tag: "audio".into(), bytes: b[audio_at..].to_vec(), manifest: false, start: audio_at });
    Some(v)
}

// ───────────────────────── JPEG XL ─────────────────────────

fn iso_box(ty: &[u8; 4], body: &[u8]) -> Vec<u8> {
    let mut v = ((body.len() + 8) as u32).to_be_bytes().to_vec();
    v.extend_from_slice(ty);
    v.extend_from_slice(body);
    v
}

pub fn gen_jxl(rng: &mut Rng, existing: Option<&Store>) -> Asset {
    let mut desc = String::from("jxl");
    let mut b = vec![0, 0, 0, 0x0c, 0x4a, 0x58, 0x4c, 0x20, 0x0d, 0x0a, 0x87, 0x0a];
    b.extend_from_slice(&iso_box(b"ftyp", b"jxl \0\0\0\0jxl "));
    let c2pa = existing.map(|s| s.bytes.clone());
    let place = rng.below(3);
    if let (Some(c), 0) = (&c2pa, place) {
        b.extend_from_slice(c);
        desc.push_str("+cai@ftyp");
    }
    // any box may use the 64-bit `largesize` header form (size field = 1)
    let mut large_used = false;
    let mut boxl = |rng: &mut Rng, ty: &[u8; 4], body: &[u8]| -> Vec<u8> {
        if rng.chance(1, 3) {
            large_used = true;
            let mut v = 1u32.to_be_bytes().to_vec();
            v.extend_from_slice(ty);
            v.extend_from_slice(&((body.len() + 16) as u64).to_be_bytes());
            v.extend_from_slice(body);
            v
        } else {
            iso_box(ty, body)
        }
    };
    if rng.chance(1, 3) {
        b.extend_from_slice(&boxl(rng, b"Exif", &[0, 0, 0, 0, 0x4d, 0x4d, 0, 0x2a, 0, 0, 0, 8, 0, 0]));
        desc.push_str("+exif");
    }
    if rng.chance(1, 3) {
        let x = xmp_packet(rng);
        b.extend_from_slice(&boxl(rng, b"xml ", &x));
        desc.push_str("+xmp");
    }
    if rng.chance(1, 4) {
        let k = rng.range(1, 40) as usize;
        let body = rng.bytes(k);
        b.extend_from_slice(&boxl(rng, b"jbrd", &body));
        desc.push_str("+jbrd");
    }
    if rng.chance(1, 4) {
        // brotli-compressed metadata box (opaque here): original type + compressed bytes
        let mut body = b"Exif".to_vec();
        body.extend_from_slice(&rng.bytes(rng.clone().range(4, 30) as usize));
        b.extend_from_slice(&boxl(rng, b"brob", &body));
        desc.push_str("+brob");
    }
    if rng.chance(1, 4) {
        let k = rng.below(20) as usize;
        let body = rng.bytes(k);
        b.extend_from_slice(&boxl(rng, b"abcd", &body));
        desc.push_str("+unknown");
    }
    if rng.chance(1, 4) {
        // a JUMBF superbox that is not a C2PA manifest store (other content-type UUID, label)
        let mut d = b"othrjumbf\0\x11\0\x10\x80\0\0\xaa".to_vec();
        d.truncate(16);
        d.push(0x03);
        d.extend_from_slice(b"other\0");
        let mut body = iso_box(b"jumd", &d);
        let k = rng.range(1, 30) as usize;
        body.extend_from_slice(&iso_box(b"json", &rng.bytes(k)));
        b.extend_from_slice(&boxl(rng, b"jumb", &body));
        desc.push_str("+jumbother");
    }
    if let (Some(c), 1) = (&c2pa, place) {
        b.extend_from_slice(c);
        desc.push_str("+cai@mid");
    }
    let mut cs = vec![0xff, 0x0a];
    cs.extend_from_slice(&rng.bytes(rng.clone().range(4, 80) as usize));
    // the last box may have size 0 ("extends to the end of the file")
    let open_last = place != 2 && rng.chance(1, 4);
    let mut last = |rng: &mut Rng, ty: &[u8; 4], body: &[u8]| -> Vec<u8> {
        if open_last {
            let mut v = 0u32.to_be_bytes().to_vec();
            v.extend_from_slice(ty);
            v.extend_from_slice(body);
            v
        } else {
            boxl(rng, ty, body)
        }
    };
    if rng.chance(1, 3) {
        let half = cs.len() / 2;
        let mut p0 = vec![0, 0, 0, 0];
        p0.extend_from_slice(&cs[..half]);
        let mut p1 = vec![0x80, 0, 0, 1];
        p1.extend_from_slice(&cs[half..]);
        let first = last(rng, b"jxlp", &p0);
        // only the final box may be open-ended
        if open_last {
            b.extend_from_slice(&iso_box(b"jxlp", &p0));
        } else {
            b.extend_from_slice(&first);
        }
        b.extend_from_slice(&last(rng, b"jxlp", &p1));
        desc.push_str("+jxlp");
    } else {
        b.extend_from_slice(&last(rng, b"jxlc", &cs));
    }
    if open_last {
        desc.push_str("+size0");
    }
    if let (Some(c), 2) = (&c2pa, place) {
        b.extend_from_slice(c);
        desc.push_str("+cai@end");
    }
    if large_used {
        desc.push_str("+largesize");
    }
    Asset { family: Family::Jxl, fmt: "jxl", bytes: b, desc, existing: existing.cloned() }
}

/// JPEG XL container: top-level ISO boxes; a `jumb` box whose description box carries the
/// C2PA manifest-store UUID/label is the manifest item.
pub fn lex_jxl(b: &[u8]) -> Option<Vec<Item>> {
    let mut v = vec![];
    let mut p = 0;
    while p + 8 <= b.len() {
        let mut size = u32::from_be_bytes([b[p], b[p + 1], b[p + 2], b[p + 3]]) as usize;
        let ty = &b[p + 4..p + 8];
        if size == 1 {
            size = u64::from_be_bytes(b.get(p + 8..p + 16)?.try_into().ok()?) as usize;
        } else if size == 0 {
            size = b.len() - p;
        }
        if size < 8 || p + size > b.len() {
            return None;
        }
        let body = &b[p..p + size];
        let manifest = ty == b"jumb" && body.len() >= 28 && &body[12..16] == b"jumd" && &body[16..20] == b"c2pa";
        v.push(Item { tag: String::from_utf8_lossy(ty).into_owned(), bytes: body.to_vec(), manifest, start: p });
        p += size;
    }
    if p < b.len() {
        v.push(Item { tag: "trailing".into(), bytes: b[p..].to_vec(), manifest: false, start: p });
    }
    Some(v)
}
