//! Shared machinery of the C07 / C08 / C09 / C12 drivers (embedding algebra).
//!
//! * thin wrappers over the per-format handler entry points (hooks `verif_hooks::c07`),
//! * deterministic store generator (same LCG as lean/C2paModel/Model/C07Base.lean),
//! * structured asset generators per container family,
//! * **independent** lexers (written here, not using the SDK) that split an asset into
//!   (tag, bytes) items and classify manifest items — the media-preservation oracle,
//! * the sequence runner: executes an op sequence on the implementation, produces the
//!   request/reply lines for the Lean model (byte-exact formats only) and evaluates the
//!   property oracles directly on the implementation's outputs.

use std::io::Cursor;

use c2pa::verif_hooks::c07 as hook;

use crate::common::{guarded, hex, scratch, Rng, Run};

// ───────────────────────── primitive helpers ─────────────────────────

pub fn fnv(b: &[u8]) -> u64 {
    let mut h: u64 = 0xcbf29ce484222325;
    for x in b {
        h ^= *x as u64;
        h = h.wrapping_mul(0x100000001b3);
    }
    h
}

pub fn digest(b: &[u8]) -> String {
    format!("{}:{:016x}", b.len(), fnv(b))
}

pub fn crc32(b: &[u8]) -> u32 {
    let mut c: u32 = 0xFFFF_FFFF;
    for x in b {
        c ^= *x as u32;
        for _ in 0..8 {
            c = if c & 1 == 1 { (c >> 1) ^ 0xEDB8_8320 } else { c >> 1 };
        }
    }
    c ^ 0xFFFF_FFFF
}

pub const C2PA_UUID: [u8; 16] = [
    0x63, 0x32, 0x70, 0x61, 0x00, 0x11, 0x00, 0x10, 0x80, 0x00, 0x00, 0xaa, 0x00, 0x38, 0x9b, 0x71,
];

/// A store to embed: either a literal or `g<len>.<seed>` (header prefix + LCG bytes).
#[derive(Clone)]
pub struct Store {
    pub bytes: Vec<u8>,
    pub spec: String,
}

pub fn gen_store(len: usize, seed: u64) -> Store {
    let mut h: Vec<u8> = Vec::with_capacity(len);
    h.extend_from_slice(&(len as u32).to_be_bytes());
    h.extend_from_slice(b"jumb");
    h.extend_from_slice(&[0, 0, 0, 0x1e]);
    h.extend_from_slice(b"jumd");
    h.extend_from_slice(&C2PA_UUID);
    h.extend_from_slice(&[0x03, b'c', b'2', b'p', b'a', 0]);
    h.truncate(len);
    let mut s = seed;
    while h.len() < len {
        s = s.wrapping_mul(6364136223846793005).wrapping_add(1442695040888963407);
        h.push((s >> 33) as u8);
    }
    Store { bytes: h, spec: format!("g{len}.{seed}") }
}

pub fn lit_store(b: &[u8]) -> Store {
    Store { bytes: b.to_vec(), spec: if b.is_empty() { "-".into() } else { format!("x{}", hex::encode(b)) } }
}

// ───────────────────────── implementation ops ─────────────────────────

#[derive(Clone, Debug, PartialEq)]
pub enum ReadRes {
    Ok(Vec<u8>),
    None,
    Many,
    Err(String),
}

fn flat<T>(r: Result<c2pa::Result<T>, String>) -> Result<T, String> {
    match r {
        Ok(Ok(v)) => Ok(v),
        Ok(Err(e)) => Err(format!("{e:?}")),
        Err(p) => Err(format!("PANIC: {p}")),
    }
}

pub fn is_panic(e: &str) -> bool {
    e.starts_with("PANIC")
}

pub fn op_write(fmt: &str, asset: &[u8], store: &[u8]) -> Result<Vec<u8>, String> {
    let (f, a, s) = (fmt.to_string(), asset.to_vec(), store.to_vec());
    flat(guarded(move || {
        let mut i = Cursor::new(a);
        let mut o = Cursor::new(Vec::new());
        hook::write_cai(&f, &mut i, &mut o, &s).map(|_| o.into_inner())
    }))
}

pub fn op_remove(fmt: &str, asset: &[u8]) -> Result<Vec<u8>, String> {
    let (f, a) = (fmt.to_string(), asset.to_vec());
    flat(guarded(move || {
        let mut i = Cursor::new(a);
        let mut o = Cursor::new(Vec::new());
        hook::remove_cai_store_from_stream(&f, &mut i, &mut o).map(|_| o.into_inner())
    }))
}

pub fn op_read(fmt: &str, asset: &[u8]) -> ReadRes {
    let (f, a) = (fmt.to_string(), asset.to_vec());
    let r = guarded(move || {
        let mut i = Cursor::new(a);
        hook::read_cai(&f, &mut i)
    });
    match r {
        Ok(Ok(v)) if v.is_empty() => ReadRes::None,
        Ok(Ok(v)) => ReadRes::Ok(v),
        Ok(Err(c2pa::Error::JumbfNotFound)) => ReadRes::None,
        Ok(Err(c2pa::Error::TooManyManifestStores)) => ReadRes::Many,
        Ok(Err(e)) => ReadRes::Err(format!("{e:?}")),
        Err(p) => ReadRes::Err(format!("PANIC: {p}")),
    }
}

/// (offset, length, kind) with kind 0 Cai, 1 Xmp, 2 Other, 3 OtherExclusion
pub fn op_locations(fmt: &str, asset: &[u8]) -> Result<Vec<(usize, usize, u8)>, String> {
    let (f, a) = (fmt.to_string(), asset.to_vec());
    flat(guarded(move || {
        let mut i = Cursor::new(a);
        hook::object_locations(&f, &mut i)
    }))
}

#[derive(Clone, Debug)]
pub struct BoxEnt {
    pub name: String,
    pub start: u64,
    pub len: u64,
    pub excluded: bool,
}

pub fn op_box_map(fmt: &str, asset: &[u8]) -> Option<Result<Vec<BoxEnt>, String>> {
    let (f, a) = (fmt.to_string(), asset.to_vec());
    let r = guarded(move || {
        let mut i = Cursor::new(a);
        hook::box_map(&f, &mut i)
    });
    match r {
        Ok(None) => None,
        Ok(Some(Ok(v))) => Some(Ok(v
            .into_iter()
            .map(|b| BoxEnt {
                name: b.names.join("+"),
                start: b.range_start,
                len: b.range_len,
                excluded: b.excluded == Some(true),
            })
            .collect())),
        Ok(Some(Err(e))) => Some(Err(format!("{e:?}"))),
        Err(p) => Some(Err(format!("PANIC: {p}"))),
    }
}

/// `AssetPatch::patch_cai_store` on a scratch file. `None` = the handler has no patcher.
pub fn op_patch(fmt: &str, ext: &str, asset: &[u8], store: &[u8]) -> Option<Result<Vec<u8>, String>> {
    if !hook::capabilities(fmt).1 {
        return None;
    }
    let dir = scratch("embed-patch");
    let p = dir.join(format!("a.{ext}"));
    std::fs::write(&p, asset).ok()?;
    let (f, pp, s) = (fmt.to_string(), p.clone(), store.to_vec());
    let r = guarded(move || hook::patch_cai_store(&f, &pp, &s));
    let out = match r {
        Ok(Some(Ok(()))) => Ok(std::fs::read(&p).unwrap_or_default()),
        Ok(Some(Err(e))) => Err(format!("{e:?}")),
        Ok(None) => Err("no patcher".into()),
        Err(pn) => Err(format!("PANIC: {pn}")),
    };
    let _ = std::fs::remove_dir_all(&dir);
    Some(out)
}

// ───────────────────────── formats ─────────────────────────

#[derive(Clone, Copy, Debug, PartialEq, Eq)]
pub enum Family {
    Sidecar,
    Png,
    Jpeg,
    Gif,
    Riff,
    Bmff,
    Tiff,
    Svg,
    Mp3,
    Flac,
    Jxl,
}

#[derive(Clone)]
pub struct Asset {
    pub family: Family,
    /// handler format string, e.g. "png", "wav", "mp4"
    pub fmt: &'static str,
    pub bytes: Vec<u8>,
    /// short description of the generated layout (for stats)
    pub desc: String,
    /// the store already embedded by the generator, if any
    pub existing: Option<Store>,
}

/// Formats whose handlers are modelled byte-exactly in Lean (requests are emitted for them).
pub fn modelled(fam: Family) -> bool {
    matches!(fam, Family::Sidecar | Family::Png)
}

/// Minimal store length the format's reader can recognise (JPEG sniffs the JUMBF header).
pub fn min_store_len(fam: Family) -> usize {
    match fam {
        Family::Jpeg => 21,
        // the store is itself the `jumb` box; it is recognised by its description box label
        Family::Jxl => 38,
        // TIFF stores a value of <= 4 bytes inline in the IFD entry; the reader then takes it
        // for an offset. The ID3 handlers locate the store by searching its bytes in the tag.
        // Strings that short are not manifest stores (a JUMBF box header alone is 8 bytes).
        Family::Tiff => 5,
        Family::Mp3 | Family::Flac => 8,
        _ => 1,
    }
}

// ───────────────────────── independent lexers ─────────────────────────

#[derive(Clone, Debug, PartialEq)]
pub struct Item {
    pub tag: String,
    pub bytes: Vec<u8>,
    pub manifest: bool,
    pub start: usize,
}

fn be32(b: &[u8], o: usize) -> Option<usize> {
    b.get(o..o + 4).map(|x| u32::from_be_bytes([x[0], x[1], x[2], x[3]]) as usize)
}
fn le32(b: &[u8], o: usize) -> Option<usize> {
    b.get(o..o + 4).map(|x| u32::from_le_bytes([x[0], x[1], x[2], x[3]]) as usize)
}
fn be16(b: &[u8], o: usize) -> Option<usize> {
    b.get(o..o + 2).map(|x| u16::from_be_bytes([x[0], x[1]]) as usize)
}

pub fn lex_png(b: &[u8]) -> Option<Vec<Item>> {
    if b.len() < 8 || b[..8] != [137, 80, 78, 71, 13, 10, 26, 10] {
        return None;
    }
    let mut v = vec![Item { tag: "sig".into(), bytes: b[..8].to_vec(), manifest: false, start: 0 }];
    let mut p = 8;
    loop {
        let len = be32(b, p)?;
        let name = b.get(p + 4..p + 8)?;
        let end = p + 12 + len;
        let raw = b.get(p..end)?;
        v.push(Item { tag: String::from_utf8_lossy(name).into_owned(), bytes: raw.to_vec(), manifest: name == b"caBX", start: p });
        p = end;
        if name == b"IEND" {
            break;
        }
    }
    if p < b.len() {
        v.push(Item { tag: "trailing".into(), bytes: b[p..].to_vec(), manifest: false, start: p });
    }
    Some(v)
}

/// JPEG: SOI, marker segments, entropy-coded data (attached to its SOS item), EOI, trailing.
pub fn lex_jpeg(b: &[u8]) -> Option<Vec<Item>> {
    if b.len() < 4 || b[0] != 0xFF || b[1] != 0xD8 {
        return None;
    }
    let mut v = vec![Item { tag: "SOI".into(), bytes: b[..2].to_vec(), manifest: false, start: 0 }];
    let mut p = 2;
    let mut c2pa_en: Option<[u8; 2]> = None;
    loop {
        if p >= b.len() {
            break;
        }
        if b[p] != 0xFF {
            return None;
        }
        // fill bytes
        let mut q = p;
        while q + 1 < b.len() && b[q + 1] == 0xFF {
            q += 1;
        }
        let m = *b.get(q + 1)?;
        if m == 0xD9 {
            v.push(Item { tag: "EOI".into(), bytes: b[p..q + 2].to_vec(), manifest: false, start: p });
            p = q + 2;
            break;
        }
        if (0xD0..=0xD7).contains(&m) || m == 0x01 {
            v.push(Item { tag: format!("M{m:02X}"), bytes: b[p..q + 2].to_vec(), manifest: false, start: p });
            p = q + 2;
            continue;
        }
        let len = be16(b, q + 2)?;
        let mut end = q + 2 + len;
        if end > b.len() {
            return None;
        }
        if m == 0xDA {
            // entropy-coded data up to the next marker that is not FF00 / RSTn
            let mut e = end;
            while e < b.len() {
                if b[e] == 0xFF {
                    match b.get(e + 1) {
                        Some(0x00) => e += 2,
                        Some(x) if (0xD0..=0xD7).contains(x) => e += 2,
                        Some(0xFF) => e += 1,
                        Some(_) => break,
                        None => {
                            e += 1;
                            break;
                        }
                    }
                } else {
                    e += 1;
                }
            }
            end = e;
        }
        let content = &b[q + 4..q + 2 + len];
        let mut manifest = false;
        if m == 0xEB && content.len() >= 8 && &content[0..2] == b"JP" {
            let en = [content[2], content[3]];
            let z = be32(content, 4).unwrap_or(0);
            if z == 1 && content.len() >= 28 && &content[24..28] == b"c2pa" {
                c2pa_en = Some(en);
                manifest = true;
            } else if c2pa_en == Some(en) && z > 1 {
                manifest = true;
            }
        }
        v.push(Item { tag: format!("S{m:02X}"), bytes: b[p..end].to_vec(), manifest, start: p });
        p = end;
    }
    if p < b.len() {
        v.push(Item { tag: "trailing".into(), bytes: b[p..].to_vec(), manifest: false, start: p });
    }
    Some(v)
}

fn gif_sub_blocks(b: &[u8], mut p: usize) -> Option<usize> {
    loop {
        let n = *b.get(p)? as usize;
        p += 1;
        if n == 0 {
            return Some(p);
        }
        p += n;
        if p > b.len() {
            return None;
        }
    }
}

pub fn lex_gif(b: &[u8]) -> Option<Vec<Item>> {
    if b.len() < 13 || &b[..3] != b"GIF" {
        return None;
    }
    let mut v = vec![
        Item { tag: "hdr".into(), bytes: b[..6].to_vec(), manifest: false, start: 0 },
        Item { tag: "lsd".into(), bytes: b[6..13].to_vec(), manifest: false, start: 6 },
    ];
    let mut p = 13;
    if b[10] & 0x80 != 0 {
        let n = 3 * (1usize << ((b[10] & 7) + 1));
        v.push(Item { tag: "gct".into(), bytes: b.get(p..p + n)?.to_vec(), manifest: false, start: p });
        p += n;
    }
    loop {
        let t = *b.get(p)?;
        match t {
            0x3B => {
                v.push(Item { tag: "trailer".into(), bytes: vec![0x3B], manifest: false, start: p });
                p += 1;
                break;
            }
            0x21 => {
                let label = *b.get(p + 1)?;
                let end = if label == 0xFF {
                    let bs = *b.get(p + 2)? as usize;
                    gif_sub_blocks(b, p + 3 + bs)?
                } else if label == 0xF9 {
                    gif_sub_blocks(b, p + 2)?
                } else if label == 0x01 {
                    gif_sub_blocks(b, p + 2)?
                } else {
                    gif_sub_blocks(b, p + 2)?
                };
                let manifest = label == 0xFF && b.get(p + 3..p + 14) == Some(&b"C2PA_GIF\x01\x00\x00"[..]);
                v.push(Item { tag: format!("ext{label:02X}"), bytes: b[p..end].to_vec(), manifest, start: p });
                p = end;
            }
            0x2C => {
                let packed = *b.get(p + 9)?;
                let mut q = p + 10;
                if packed & 0x80 != 0 {
                    q += 3 * (1usize << ((packed & 7) + 1));
                }
                let end = gif_sub_blocks(b, q + 1)?;
                v.push(Item { tag: "image".into(), bytes: b[p..end].to_vec(), manifest: false, start: p });
                p = end;
            }
            _ => return None,
        }
    }
    if p < b.len() {
        v.push(Item { tag: "trailing".into(), bytes: b[p..].to_vec(), manifest: false, start: p });
    }
    Some(v)
}

fn lex_riff_children(b: &[u8], mut p: usize, end: usize, path: &str, top: bool, v: &mut Vec<Item>) -> Option<()> {
    while p + 8 <= end {
        let id = &b[p..p + 4];
        let n = le32(b, p + 4)?;
        let dend = p + 8 + n;
        if dend > end {
            return None;
        }
        let ids = String::from_utf8_lossy(id).into_owned();
        if id == b"LIST" && n >= 4 {
            let ty = String::from_utf8_lossy(&b[p + 8..p + 12]).into_owned();
            v.push(Item { tag: format!("{path}/LIST:{ty}"), bytes: vec![], manifest: false, start: p });
            lex_riff_children(b, p + 12, dend, &format!("{path}/LIST:{ty}"), false, v)?;
        } else {
            v.push(Item { tag: format!("{path}/{ids}"), bytes: b[p + 8..dend].to_vec(), manifest: top && id == b"C2PA", start: p });
        }
        p = dend + (n & 1);
    }
    Some(())
}

/// RIFF: header (form type), leaf chunks as (path, data) — pad bytes and sizes are not part
/// of the items (the handler re-serialises the tree) —, further top-level RIFF/AVIX chunks
/// and trailing bytes verbatim.
pub fn lex_riff(b: &[u8]) -> Option<Vec<Item>> {
    if b.len() < 12 || &b[..4] != b"RIFF" {
        return None;
    }
    let n = le32(b, 4)?;
    let end = (8 + n).min(b.len());
    let mut v = vec![Item { tag: "form".into(), bytes: b[8..12].to_vec(), manifest: false, start: 0 }];
    lex_riff_children(b, 12, end, "", true, &mut v)?;
    let mut p = 8 + n + (n & 1);
    if p > b.len() {
        p = b.len();
    }
    if p < b.len() {
        v.push(Item { tag: "after-first-riff".into(), bytes: b[p..].to_vec(), manifest: false, start: p });
    }
    Some(v)
}

pub fn lex(fam: Family, b: &[u8]) -> Option<Vec<Item>> {
    match fam {
        Family::Png => lex_png(b),
        Family::Jpeg => lex_jpeg(b),
        Family::Gif => lex_gif(b),
        Family::Riff => lex_riff(b),
        Family::Sidecar => Some(if b.is_empty() { vec![] } else { vec![Item { tag: "store".into(), bytes: b.to_vec(), manifest: true, start: 0 }] }),
        _ => crate::embed_lex2::lex(fam, b),
    }
}

/// Media view: every non-manifest item (tag, bytes) in order, with the documented
/// normalisations of the family applied.
pub fn media(fam: Family, items: &[Item]) -> Vec<(String, Vec<u8>)> {
    items
        .iter()
        .filter(|i| !i.manifest)
        .map(|i| {
            let mut bytes = i.bytes.clone();
            if fam == Family::Gif && i.tag == "hdr" && bytes.len() == 6 {
                // documented: inserting an extension block upgrades GIF87a to GIF89a
                bytes[4] = b'9';
            }
            (i.tag.clone(), bytes)
        })
        .collect()
}

pub fn manifest_count(items: &[Item]) -> usize {
    // consecutive manifest items (JPEG multi-segment) count as one store
    let mut n = 0;
    let mut prev = false;
    for i in items {
        if i.manifest && !prev {
            n += 1;
        }
        prev = i.manifest;
    }
    n
}

// ───────────────────────── generators ─────────────────────────

fn png_chunk(name: &[u8; 4], data: &[u8]) -> Vec<u8> {
    let mut v = (data.len() as u32).to_be_bytes().to_vec();
    v.extend_from_slice(name);
    v.extend_from_slice(data);
    let mut c = name.to_vec();
    c.extend_from_slice(data);
    v.extend_from_slice(&crc32(&c).to_be_bytes());
    v
}

pub fn xmp_packet(rng: &mut Rng) -> Vec<u8> {
    format!(
        "<?xpacket begin=\"\" id=\"W5M0MpCehiHzreSzNTczkc9d\"?><x:xmpmeta xmlns:x=\"adobe:ns:meta/\"><rdf:RDF xmlns:rdf=\"http://www.w3.org/1999/02/22-rdf-syntax-ns#\"><rdf:Description rdf:about=\"\" xmlns:dc=\"http://purl.org/dc/elements/1.1/\" dc:title=\"t{}\"/></rdf:RDF></x:xmpmeta><?xpacket end=\"w\"?>",
        rng.below(1000)
    )
    .into_bytes()
}

/// `existing`: embed a caBX chunk holding this store at a random legal place.
pub fn gen_png(rng: &mut Rng, existing: Option<&Store>) -> Asset {
    let mut desc = String::from("png");
    let mut chunks: Vec<Vec<u8>> = vec![];
    let mut ihdr = vec![0, 0, 0, 1, 0, 0, 0, 1, 8, 0, 0, 0, 0];
    ihdr[3] = rng.range(1, 200) as u8;
    chunks.push(png_chunk(b"IHDR", &ihdr));
    let n = rng.below(5);
    for _ in 0..n {
        match rng.below(6) {
            0 => chunks.push(png_chunk(b"gAMA", &[0, 0, 0xb1, 0x8f])),
            1 => chunks.push(png_chunk(b"tEXt", &rng.bytes(rng.clone().below(40) as usize))),
            2 => {
                let mut d = b"XML:com.adobe.xmp\0\0\0\0\0".to_vec();
                d.extend_from_slice(&xmp_packet(rng));
                chunks.push(png_chunk(b"iTXt", &d));
                desc.push_str("+xmp");
            }
            3 => chunks.push(png_chunk(b"zzZz", &[])),
            4 => {
                let k = rng.below(300) as usize;
                chunks.push(png_chunk(b"prVt", &rng.bytes(k)))
            }
            _ => chunks.push(png_chunk(b"pHYs", &[0, 0, 0x0b, 0x13, 0, 0, 0x0b, 0x13, 1])),
        }
    }
    for _ in 0..rng.range(1, 2) {
        let k = rng.range(1, 120) as usize;
        chunks.push(png_chunk(b"IDAT", &rng.bytes(k)));
    }
    if rng.chance(1, 4) {
        chunks.push(png_chunk(b"tIME", &[7, 0xe8, 1, 1, 0, 0, 0]));
    }
    if let Some(s) = existing {
        // after IHDR (the writer's own place), or anywhere later before IEND
        let at = if rng.chance(2, 3) { 1 } else { rng.range(1, chunks.len() as u64) as usize };
        chunks.insert(at, png_chunk(b"caBX", &s.bytes));
        desc.push_str(&format!("+cai@{at}"));
    }
    chunks.push(png_chunk(b"IEND", &[]));
    let mut b = vec![137, 80, 78, 71, 13, 10, 26, 10];
    for c in chunks {
        b.extend_from_slice(&c);
    }
    if rng.chance(1, 5) {
        let k = rng.range(1, 40) as usize;
        b.extend_from_slice(&rng.bytes(k));
        desc.push_str("+trailing");
    }
    Asset { family: Family::Png, fmt: "png", bytes: b, desc, existing: existing.cloned() }
}

fn jpeg_seg(marker: u8, content: &[u8]) -> Vec<u8> {
    let mut v = vec![0xFF, marker];
    v.extend_from_slice(&((content.len() + 2) as u16).to_be_bytes());
    v.extend_from_slice(content);
    v
}

/// APP11 segments carrying `store` the way ISO 19566-5 / the SDK lays them out.
pub fn jpeg_c2pa_segments(store: &[u8], en: [u8; 2], chunk: usize) -> Vec<Vec<u8>> {
    let mut out = vec![];
    for (i, part) in store.chunks(chunk).enumerate() {
        let mut c = vec![0x4a, 0x50, en[0], en[1]];
        c.extend_from_slice(&((i + 1) as u32).to_be_bytes());
        if i > 0 {
            c.extend_from_slice(&store[0..8]);
        }
        c.extend_from_slice(part);
        out.push(jpeg_seg(0xEB, &c));
    }
    out
}

pub fn gen_jpeg(rng: &mut Rng, existing: Option<&Store>) -> Asset {
    let mut desc = String::from("jpeg");
    let mut segs: Vec<Vec<u8>> = vec![];
    let n_app0 = match rng.below(4) {
        0 => 0,
        3 => 2,
        _ => 1,
    };
    for i in 0..n_app0 {
        if i == 0 {
            segs.push(jpeg_seg(0xE0, &[b'J', b'F', b'I', b'F', 0, 1, 1, 0, 0, 1, 0, 1, 0, 0]));
        } else {
            segs.push(jpeg_seg(0xE0, &[b'J', b'F', b'X', b'X', 0, 0x10]));
        }
    }
    desc.push_str(&format!("+app0x{n_app0}"));
    let mut meta: Vec<Vec<u8>> = vec![];
    if rng.chance(1, 2) {
        let mut c = b"Exif\0\0".to_vec();
        c.extend_from_slice(&[0x4d, 0x4d, 0, 0x2a, 0, 0, 0, 8, 0, 0, 0, 0, 0, 0]);
        meta.push(jpeg_seg(0xE1, &c));
    }
    if rng.chance(1, 2) {
        let mut c = b"http://ns.adobe.com/xap/1.0/\0".to_vec();
        c.extend_from_slice(&xmp_packet(rng));
        meta.push(jpeg_seg(0xE1, &c));
        desc.push_str("+xmp");
    }
    if rng.chance(1, 3) {
        // a non-C2PA JPEG-XT APP11 box (long enough to be inspected)
        let mut c = vec![0x4a, 0x50, 0x00, 0x07, 0, 0, 0, 1, 0, 0, 0, 0x20];
        c.extend_from_slice(b"jumb");
        c.extend_from_slice(&[0, 0, 0, 0x18]);
        c.extend_from_slice(b"jumd");
        c.extend_from_slice(b"othr\0\x11\0\x10\x80\0\0\xaa\0\x38\x9b\x71");
        meta.push(jpeg_seg(0xEB, &c));
        desc.push_str("+app11other");
    }
    if rng.chance(1, 6) {
        // a short APP11 (content <= 16 bytes)
        let k = rng.below(17) as usize;
        meta.push(jpeg_seg(0xEB, &rng.bytes(k)));
        desc.push_str("+app11short");
    }
    if rng.chance(1, 3) {
        let k = rng.below(30) as usize;
        meta.push(jpeg_seg(0xFE, &rng.bytes(k)));
    }
    if rng.chance(1, 4) {
        let k = rng.range(1, 50) as usize;
        meta.push(jpeg_seg(0xE2, &rng.bytes(k)));
    }
    // CIPA DC-007 multi-picture format: APP2 "MPF\0" index + further images after the first EOI
    let mpf = rng.chance(1, 8);
    if mpf {
        let mut c = b"MPF\0".to_vec();
        c.extend_from_slice(&[0x4d, 0x4d, 0, 0x2a, 0, 0, 0, 8, 0, 1, 0xb0, 0, 0, 7, 0, 0, 0, 4, b'0', b'1', b'0', b'0', 0, 0, 0, 0]);
        meta.push(jpeg_seg(0xE2, &c));
        desc.push_str("+mpf+trailing");
    }
    if let Some(s) = existing {
        let at = rng.below(meta.len() as u64 + 1) as usize;
        let chunk = if rng.chance(1, 3) { 40 } else { 64000 };
        for (k, sg) in jpeg_c2pa_segments(&s.bytes, [0x02, 0x11], chunk).into_iter().enumerate() {
            meta.insert(at + k, sg);
        }
        desc.push_str(&format!("+cai@{at}"));
    }
    segs.extend(meta);
    let mut dqt = vec![0u8];
    dqt.extend((1..=64).map(|x| x as u8));
    segs.push(jpeg_seg(0xDB, &dqt));
    segs.push(jpeg_seg(0xC0, &[8, 0, 8, 0, 8, 1, 1, 0x11, 0]));
    let mut dht = vec![0u8];
    dht.extend_from_slice(&[0, 1, 0, 0, 0, 0, 0, 0, 0, 0, 0, 0, 0, 0, 0, 0]);
    dht.push(0);
    segs.push(jpeg_seg(0xC4, &dht));
    let mut dht2 = vec![0x10u8];
    dht2.extend_from_slice(&[0, 1, 0, 0, 0, 0, 0, 0, 0, 0, 0, 0, 0, 0, 0, 0]);
    dht2.push(0);
    segs.push(jpeg_seg(0xC4, &dht2));
    let restart = rng.chance(1, 3);
    if restart {
        segs.push(jpeg_seg(0xDD, &[0, 1]));
        desc.push_str("+rst");
    }
    let mut b = vec![0xFF, 0xD8];
    for s in segs {
        b.extend_from_slice(&s);
    }
    b.extend_from_slice(&jpeg_seg(0xDA, &[1, 1, 0, 0, 63, 0]));
    // entropy-coded data: arbitrary bytes, FF stuffed, optional RSTn
    let k = rng.range(1, 60);
    for i in 0..k {
        let x = rng.next() as u8;
        b.push(x);
        if x == 0xFF {
            b.push(0);
        }
        if restart && i % 7 == 6 {
            b.extend_from_slice(&[0xFF, 0xD0 + ((i / 7) % 8) as u8]);
        }
    }
    b.extend_from_slice(&[0xFF, 0xD9]);
    if mpf {
        // second image of the multi-picture file: a complete JPEG after the first EOI
        b.extend_from_slice(&[0xFF, 0xD8]);
        b.extend_from_slice(&jpeg_seg(0xDB, &dqt));
        b.extend_from_slice(&jpeg_seg(0xC0, &[8, 0, 4, 0, 4, 1, 1, 0x11, 0]));
        b.extend_from_slice(&jpeg_seg(0xDA, &[1, 1, 0, 0, 63, 0]));
        let k = rng.range(1, 30) as usize;
        b.extend(rng.bytes(k).into_iter().map(|x| if x == 0xFF { 0xFE } else { x }));
        b.extend_from_slice(&[0xFF, 0xD9]);
    } else if rng.chance(1, 5) {
        let k = rng.range(1, 40) as usize;
        b.extend_from_slice(&rng.bytes(k));
        desc.push_str("+trailing");
    }
    Asset { family: Family::Jpeg, fmt: "jpg", bytes: b, desc, existing: existing.cloned() }
}

fn gif_sub(data: &[u8]) -> Vec<u8> {
    let mut v = vec![];
    for c in data.chunks(255) {
        v.push(c.len() as u8);
        v.extend_from_slice(c);
    }
    v.push(0);
    v
}

pub fn gif_c2pa_block(store: &[u8]) -> Vec<u8> {
    let mut v = vec![0x21, 0xFF, 0x0B];
    v.extend_from_slice(b"C2PA_GIF\x01\x00\x00");
    v.extend_from_slice(&gif_sub(store));
    v
}

pub fn gen_gif(rng: &mut Rng, existing: Option<&Store>) -> Asset {
    let mut desc = String::from("gif");
    let v87 = existing.is_none() && rng.chance(1, 5);
    let mut b = if v87 { b"GIF87a".to_vec() } else { b"GIF89a".to_vec() };
    if v87 {
        desc.push_str("87a");
    }
    let gct = rng.chance(2, 3);
    let gsz = rng.below(3) as u8;
    b.extend_from_slice(&[4, 0, 4, 0, if gct { 0x80 | gsz } else { gsz }, 0, 0]);
    if gct {
        let n = 3 * (1usize << (gsz + 1));
        b.extend_from_slice(&rng.bytes(n));
        desc.push_str("+gct");
    }
    let mut pre: Vec<Vec<u8>> = vec![];
    if !v87 {
        if rng.chance(1, 3) {
            let mut a = vec![0x21, 0xFF, 0x0B];
            a.extend_from_slice(b"NETSCAPE2.0");
            a.extend_from_slice(&gif_sub(&[1, 0, 0]));
            pre.push(a);
        }
        if rng.chance(1, 3) {
            let mut a = vec![0x21, 0xFE];
            let k = rng.below(300) as usize;
            a.extend_from_slice(&gif_sub(&rng.bytes(k)));
            pre.push(a);
        }
        if rng.chance(1, 3) {
            let mut x = xmp_packet(rng);
            x.push(1);
            for i in (0..=255u8).rev() {
                x.push(i);
            }
            let mut a = vec![0x21, 0xFF, 0x0B];
            a.extend_from_slice(b"XMP DataXMP");
            a.extend_from_slice(&gif_sub(&x));
            pre.push(a);
            desc.push_str("+xmp");
        }
    }
    if let Some(s) = existing {
        let at = if rng.chance(1, 2) { 0 } else { rng.below(pre.len() as u64 + 1) as usize };
        pre.insert(at, gif_c2pa_block(&s.bytes));
        desc.push_str(&format!("+cai@{at}"));
    }
    for p in pre {
        b.extend_from_slice(&p);
    }
    for _ in 0..rng.range(1, 2) {
        if !v87 && rng.chance(1, 2) {
            b.extend_from_slice(&[0x21, 0xF9, 4, 0, 10, 0, 0, 0]);
        }
        let lct = rng.chance(1, 3);
        b.extend_from_slice(&[0x2C, 0, 0, 0, 0, 4, 0, 4, 0, if lct { 0x80 } else { 0 }]);
        if lct {
            b.extend_from_slice(&rng.bytes(6));
        }
        b.push(2);
        let k = rng.range(1, 300) as usize;
        b.extend_from_slice(&gif_sub(&rng.bytes(k)));
    }
    b.push(0x3B);
    if rng.chance(1, 5) {
        let k = rng.range(1, 40) as usize;
        b.extend_from_slice(&rng.bytes(k));
        desc.push_str("+trailing");
    }
    Asset { family: Family::Gif, fmt: "gif", bytes: b, desc, existing: existing.cloned() }
}

pub fn riff_chunk(id: &[u8; 4], data: &[u8]) -> Vec<u8> {
    let mut v = id.to_vec();
    v.extend_from_slice(&(data.len() as u32).to_le_bytes());
    v.extend_from_slice(data);
    if data.len() % 2 == 1 {
        v.push(0);
    }
    v
}

pub fn gen_riff(rng: &mut Rng, existing: Option<&Store>) -> Asset {
    let kind = rng.below(3);
    gen_riff_kind(rng, existing, kind)
}

/// `kind`: 0 wav, 1 webp, 2 avi.
pub fn gen_riff_kind(rng: &mut Rng, existing: Option<&Store>, kind: u64) -> Asset {
    let (fmt, form): (&'static str, &[u8; 4]) = match kind {
        0 => ("wav", b"WAVE"),
        1 => ("webp", b"WEBP"),
        _ => ("avi", b"AVI "),
    };
    let mut desc = String::from(fmt);
    let mut body = form.to_vec();
    let mut chunks: Vec<Vec<u8>> = vec![];
    match kind {
        0 => {
            chunks.push(riff_chunk(b"fmt ", &[1, 0, 1, 0, 0x44, 0xac, 0, 0, 0x88, 0x58, 1, 0, 2, 0, 16, 0]));
            if rng.chance(1, 2) {
                let mut l = b"INFO".to_vec();
                l.extend_from_slice(&riff_chunk(b"INAM", &rng.bytes(rng.clone().range(1, 9) as usize)));
                l.extend_from_slice(&riff_chunk(b"ISFT", b"vh"));
                chunks.push(riff_chunk(b"LIST", &l));
                desc.push_str("+list");
            }
            let k = rng.range(1, 200) as usize;
            chunks.push(riff_chunk(b"data", &rng.bytes(k)));
            if k % 2 == 1 {
                desc.push_str("+odd");
            }
        }
        1 => {
            if rng.chance(1, 2) {
                chunks.push(riff_chunk(b"VP8X", &[0, 0, 0, 0, 3, 0, 0, 3, 0, 0]));
                desc.push_str("+vp8x");
            }
            let k = rng.range(10, 150) as usize;
            let mut d = vec![0x2f, 3, 0xc0, 0, 0];
            d.extend_from_slice(&rng.bytes(k));
            chunks.push(riff_chunk(b"VP8L", &d));
            if rng.chance(1, 3) {
                chunks.push(riff_chunk(b"XMP ", &xmp_packet(rng)));
                desc.push_str("+xmp");
            }
            if rng.chance(1, 3) {
                chunks.push(riff_chunk(b"EXIF", &rng.bytes(rng.clone().range(1, 30) as usize)));
            }
        }
        _ => {
            let mut l = b"hdrl".to_vec();
            l.extend_from_slice(&riff_chunk(b"avih", &rng.bytes(56)));
            chunks.push(riff_chunk(b"LIST", &l));
            let mut m = b"movi".to_vec();
            for _ in 0..rng.range(1, 3) {
                m.extend_from_slice(&riff_chunk(b"00dc", &rng.bytes(rng.clone().range(1, 60) as usize)));
            }
            chunks.push(riff_chunk(b"LIST", &m));
            chunks.push(riff_chunk(b"idx1", &rng.bytes(16)));
        }
    }
    if let Some(s) = existing {
        let at = if rng.chance(2, 3) { chunks.len() } else { rng.range(1, chunks.len() as u64) as usize };
        chunks.insert(at, riff_chunk(b"C2PA", &s.bytes));
        desc.push_str(&format!("+cai@{at}"));
    }
    for c in chunks {
        body.extend_from_slice(&c);
    }
    let mut b = b"RIFF".to_vec();
    b.extend_from_slice(&(body.len() as u32).to_le_bytes());
    b.extend_from_slice(&body);
    if kind == 2 && rng.chance(1, 2) {
        for _ in 0..rng.range(1, 2) {
            let mut x = b"AVIX".to_vec();
            let mut m = b"movi".to_vec();
            m.extend_from_slice(&riff_chunk(b"00dc", &rng.bytes(rng.clone().range(2, 40) as usize * 2)));
            x.extend_from_slice(&riff_chunk(b"LIST", &m));
            b.extend_from_slice(&riff_chunk(b"RIFF", &x));
        }
        desc.push_str("+avix");
    }
    Asset { family: Family::Riff, fmt, bytes: b, desc, existing: existing.cloned() }
}

pub fn gen_sidecar(rng: &mut Rng, existing: Option<&Store>) -> Asset {
    let _ = rng;
    let bytes = match existing {
        Some(s) => s.bytes.clone(),
        None => vec![],
    };
    Asset { family: Family::Sidecar, fmt: "c2pa", bytes, desc: "c2pa".into(), existing: existing.cloned() }
}

pub fn gen_asset(fam: Family, rng: &mut Rng, existing: Option<&Store>) -> Asset {
    match fam {
        Family::Sidecar => gen_sidecar(rng, existing),
        Family::Png => gen_png(rng, existing),
        Family::Jpeg => gen_jpeg(rng, existing),
        Family::Gif => gen_gif(rng, existing),
        Family::Riff => gen_riff(rng, existing),
        _ => crate::embed_lex2::gen_asset(fam, rng, existing),
    }
}

pub const ALL_FAMILIES: [Family; 11] = [
    Family::Sidecar,
    Family::Png,
    Family::Jpeg,
    Family::Gif,
    Family::Riff,
    Family::Bmff,
    Family::Tiff,
    Family::Svg,
    Family::Mp3,
    Family::Flac,
    Family::Jxl,
];

/// Store lengths: boundaries first, then random.
pub fn store_len(fam: Family, rng: &mut Rng, thorough: bool) -> usize {
    let boundary: &[usize] = match fam {
        Family::Jpeg => &[21, 28, 29, 63_999, 64_000, 64_001, 65_500, 65_535, 65_536, 65_600, 127_999, 128_000, 128_001],
        Family::Riff => &[1, 2, 3, 255, 256, 257, 65_535],
        Family::Gif => &[1, 2, 254, 255, 256, 509, 510, 511, 65_025],
        Family::Svg => &[1, 2, 3, 4, 5, 6, 57, 58, 59, 255, 256],
        _ => &[1, 2, 255, 256, 65_535, 65_536],
    };
    let min = min_store_len(fam);
    let l = match rng.below(10) {
        0..=3 => *rng.pick(boundary),
        4..=7 => rng.range(1, 600) as usize,
        8 => rng.range(600, 70_000) as usize,
        _ => {
            if thorough {
                rng.range(70_000, 200_000) as usize
            } else {
                rng.range(600, 70_000) as usize
            }
        }
    };
    l.max(min)
}

// ───────────────────────── sequence runner ─────────────────────────

#[derive(Clone)]
pub enum Op {
    Write(Store),
    Remove,
    Read,
    Loc,
    BoxMap,
    /// same-size replacement of the embedded store
    Patch(Store),
}

impl Op {
    pub fn text(&self) -> String {
        match self {
            Op::Write(s) => format!("w:{}", s.spec),
            Op::Remove => "r".into(),
            Op::Read => "g".into(),
            Op::Loc => "l".into(),
            Op::BoxMap => "b".into(),
            Op::Patch(s) => format!("p:{}", s.spec),
        }
    }
}

pub fn loc_str(v: &[(usize, usize, u8)]) -> String {
    if v.is_empty() {
        return "-".into();
    }
    v.iter()
        .map(|(o, n, k)| format!("{o}+{n}{}", match k { 0 => "c", 1 => "x", 2 => "o", _ => "e" }))
        .collect::<Vec<_>>()
        .join("/")
}

pub fn box_str(v: &[BoxEnt]) -> String {
    if v.is_empty() {
        return "-".into();
    }
    v.iter()
        .map(|b| format!("{}@{}+{}{}", b.name, b.start, b.len, if b.excluded { "x" } else { "" }))
        .collect::<Vec<_>>()
        .join("/")
}

pub struct Step {
    pub op: Op,
    pub before: Vec<u8>,
    pub after: Vec<u8>,
    pub reply: String,
    pub ok: bool,
    pub err: Option<String>,
    pub read: Option<ReadRes>,
    pub locs: Option<Vec<(usize, usize, u8)>>,
    pub boxes: Option<Vec<BoxEnt>>,
}

/// Execute `ops` on the implementation. Same-size `Patch` is done the way the
/// sign-then-patch flow does it (`write_cai` again on the embedded asset).
pub fn exec(asset: &Asset, ops: &[Op]) -> Vec<Step> {
    let mut cur = asset.bytes.clone();
    let mut out = vec![];
    for op in ops {
        let before = cur.clone();
        let mut st = Step { op: op.clone(), before: before.clone(), after: before.clone(), reply: String::new(), ok: true, err: None, read: None, locs: None, boxes: None };
        match op {
            Op::Write(s) | Op::Patch(s) => {
                let tag = if matches!(op, Op::Write(_)) { "w" } else { "p" };
                match op_write(asset.fmt, &cur, &s.bytes) {
                    Ok(o) => {
                        st.reply = format!("{tag}:{}", digest(&o));
                        st.after = o.clone();
                        cur = o;
                    }
                    Err(e) => {
                        st.reply = format!("{tag}:err");
                        st.ok = false;
                        st.err = Some(e);
                    }
                }
            }
            Op::Remove => match op_remove(asset.fmt, &cur) {
                Ok(o) => {
                    st.reply = format!("r:{}", digest(&o));
                    st.after = o.clone();
                    cur = o;
                }
                Err(e) => {
                    st.reply = "r:err".into();
                    st.ok = false;
                    st.err = Some(e);
                }
            },
            Op::Read => {
                let r = op_read(asset.fmt, &cur);
                st.reply = match &r {
                    ReadRes::Ok(v) => format!("g:{}", digest(v)),
                    ReadRes::None => "g:none".into(),
                    ReadRes::Many => "g:many".into(),
                    ReadRes::Err(e) => {
                        st.ok = false;
                        st.err = Some(e.clone());
                        "g:err".into()
                    }
                };
                st.read = Some(r);
            }
            Op::Loc => match op_locations(asset.fmt, &cur) {
                Ok(v) => {
                    st.reply = format!("l:{}", loc_str(&v));
                    st.locs = Some(v);
                }
                Err(e) => {
                    st.reply = "l:err".into();
                    st.ok = false;
                    st.err = Some(e);
                }
            },
            Op::BoxMap => match op_box_map(asset.fmt, &cur) {
                Some(Ok(v)) => {
                    st.reply = format!("b:{}", box_str(&v));
                    st.boxes = Some(v);
                }
                Some(Err(e)) => {
                    st.reply = "b:err".into();
                    st.ok = false;
                    st.err = Some(e);
                }
                None => {
                    st.reply = "b:unsupported".into();
                    st.ok = false;
                }
            },
        }
        out.push(st);
    }
    out
}

/// Record a case: request line for the model (byte-exact formats) or an oracle-only case.
pub fn record(run: &mut Run, prop: &str, asset: &Asset, steps: &[Step]) -> usize {
    let ops = steps.iter().map(|s| s.op.text()).collect::<Vec<_>>().join(",");
    let reply = steps.iter().map(|s| s.reply.clone()).collect::<Vec<_>>().join(" ");
    let req = if modelled(asset.family) {
        format!("{prop} seq fmt={} asset={} ops={}", asset.fmt, hex(&asset.bytes), ops)
    } else {
        // not modelled byte-exactly: layer-A prediction of the observable behaviour
        // (which store is read back after each step), independent of the container bytes
        let quirk = if asset.family == Family::Tiff && asset.desc.contains("2page") && asset.existing.is_some() { " quirk=tifflegacy" } else { "" };
        format!("{prop} abs fmt={} init={}{quirk} ops={}", asset.fmt, asset.existing.as_ref().map(|s| s.spec.clone()).unwrap_or("-".into()), ops)
    };
    let reply = if modelled(asset.family) {
        reply
    } else {
        steps
            .iter()
            .map(|s| match &s.op {
                Op::Read => s.reply.clone(),
                Op::Write(_) => if s.ok { "w:ok".to_string() } else { "w:err".to_string() },
                Op::Patch(_) => if s.ok { "p:ok".to_string() } else { "p:err".to_string() },
                Op::Remove => if s.ok { "r:ok".to_string() } else { "r:err".to_string() },
                Op::Loc => "l".to_string(),
                Op::BoxMap => "b".to_string(),
            })
            .collect::<Vec<_>>()
            .join(" ")
    };
    run.count(&format!("fmt_{}", asset.fmt));
    run.case(req, reply)
}
