//! Shared by the C20 and C21 drivers (included with `#[path]`): signing through the public
//! Builder API, loading the resulting manifest store through hooks, describing a real store to
//! the Lean model (`abs_store`), running the real validator on it (`impl_verify`), crafting an
//! active claim on top of an existing store (`Craft`), and reading results back.
#![allow(dead_code)]

use std::io::Cursor;

use c2pa::{
    assertions::{Action, Actions, DataHash},
    status_tracker::{LogKind, StatusTracker},
    verif_hooks::{c19 as hk19, c20 as hk},
    Builder, BuilderIntent, ClaimGeneratorInfo, Context, EphemeralSigner, HashedUri, Reader, Relationship, Signer,
    ValidationResults, ValidationState,
};
use sha2::{Digest, Sha256};

pub const CREATED_ACTION: &str = r#"{"action": "c2pa.created", "digitalSourceType": "http://cv.iptc.org/newscodes/digitalsourcetype/digitalCapture"}"#;

pub fn settings_json() -> &'static str {
    r#"{"verify":{"remote_manifest_fetch":false,"ocsp_fetch":false}}"#
}

pub fn ctx() -> Context {
    Context::new().with_settings(settings_json()).expect("settings")
}

pub fn signer() -> EphemeralSigner {
    EphemeralSigner::new("verif.test").expect("signer")
}

pub fn assertion_uri(manifest: &str, label: &str) -> String {
    format!("self#jumbf=/c2pa/{manifest}/c2pa.assertions/{label}")
}

/// marker string stored in a note assertion; unique per (manifest tag, note)
pub fn marker(tag: &str, note: &str) -> String {
    format!("VERIFMARK-{tag}-{note}-KRAMFIREV")
}

pub fn contains(h: &[u8], n: &[u8]) -> bool {
    !n.is_empty() && h.windows(n.len()).any(|w| w == n)
}

/// A manifest definition: actions + note assertions (`label`, marker) + redactions.
pub fn definition(title: &str, fmt: &str, actions: Vec<serde_json::Value>, notes: &[(String, String)], redactions: Option<Vec<String>>, label: Option<&str>) -> String {
    let mut assertions = vec![];
    if !actions.is_empty() {
        assertions.push(serde_json::json!({"label": "c2pa.actions", "data": {"actions": actions}}));
    }
    for (l, m) in notes {
        assertions.push(serde_json::json!({"label": l, "data": {"marker": m}}));
    }
    let mut d = serde_json::json!({
        "title": title, "format": fmt,
        "claim_generator_info": [{"name": "verif-harness", "version": "0.1"}],
        "assertions": assertions,
    });
    if let Some(r) = redactions {
        d["redactions"] = serde_json::json!(r);
    }
    if let Some(l) = label {
        d["label"] = serde_json::json!(l);
    }
    d.to_string()
}

pub fn redacted_action(uri: &str) -> serde_json::Value {
    serde_json::json!({"action": "c2pa.redacted", "reason": "c2pa.PII.present", "parameters": {"redacted": uri}})
}

/// Sign `src` with the definition; `ingredients` = (json, format, bytes) added explicitly.
pub fn sign(defj: &str, intent: Option<BuilderIntent>, fmt: &str, src: &[u8], ingredients: &[(String, String, Vec<u8>)]) -> c2pa::Result<Vec<u8>> {
    let c = ctx().with_signer(signer());
    let mut b = Builder::from_context(c).with_definition(defj)?;
    if let Some(i) = intent {
        b.set_intent(i);
    }
    for (j, f, d) in ingredients {
        b.add_ingredient_from_stream(j.clone(), f, &mut Cursor::new(d.clone()))?;
    }
    let mut out = Cursor::new(Vec::new());
    b.save_to_stream(fmt, &mut Cursor::new(src.to_vec()), &mut out)?;
    Ok(out.into_inner())
}

pub struct ReadOut {
    pub state: String, // Valid | Trusted | Invalid | err:<class>
    pub failures: Vec<String>,
    pub json: serde_json::Value,
    pub active: Option<String>,
    pub redactions: Option<Vec<String>>,
}

impl ReadOut {
    pub fn ok(&self) -> bool {
        self.state == "Valid" || self.state == "Trusted"
    }
}

fn collect_failures(v: &serde_json::Value) -> Vec<String> {
    let mut out = vec![];
    let vr = &v["validation_results"];
    if let Some(a) = vr["activeManifest"]["failure"].as_array() {
        for s in a {
            out.push(format!("A:{}", s["code"].as_str().unwrap_or("?")));
        }
    }
    if let Some(ds) = vr["ingredientDeltas"].as_array() {
        for d in ds {
            if let Some(a) = d["validationDeltas"]["failure"].as_array() {
                for s in a {
                    out.push(format!("I:{}", s["code"].as_str().unwrap_or("?")));
                }
            }
        }
    }
    out
}

pub fn err_class(e: &c2pa::Error) -> String {
    format!("{e:?}").chars().take_while(|c| c.is_ascii_alphanumeric()).collect()
}

fn read_out(r: c2pa::Result<Reader>) -> ReadOut {
    match r {
        Ok(r) => {
            let v: serde_json::Value = serde_json::from_str(&r.json()).unwrap_or_default();
            ReadOut {
                state: match r.validation_state() {
                    ValidationState::Valid => "Valid".into(),
                    ValidationState::Trusted => "Trusted".into(),
                    ValidationState::Invalid => "Invalid".into(),
                },
                failures: collect_failures(&v),
                active: r.active_label().map(|s| s.to_string()),
                redactions: r.active_manifest().and_then(|m| m.redactions().map(|r| r.to_vec())),
                json: v,
            }
        }
        Err(e) => ReadOut { state: format!("err:{}", err_class(&e)), failures: vec![], json: serde_json::Value::Null, active: None, redactions: None },
    }
}

pub fn read_asset(fmt: &str, data: &[u8]) -> ReadOut {
    read_out(Reader::from_context(ctx()).with_stream(fmt, Cursor::new(data.to_vec())))
}

pub fn read_sidecar(jumbf: &[u8], fmt: &str, asset: &[u8]) -> ReadOut {
    read_out(Reader::from_context(ctx()).with_manifest_data_and_stream(jumbf, fmt, Cursor::new(asset.to_vec())))
}

pub fn jumbf_of(fmt: &str, asset: &[u8]) -> c2pa::Result<Vec<u8>> {
    c2pa::jumbf_io::load_jumbf_from_stream(fmt, &mut Cursor::new(asset.to_vec()))
}

pub fn load_store(jumbf: &[u8]) -> c2pa::Result<hk::Store> {
    let mut log = StatusTracker::default();
    hk19::store_from_jumbf(jumbf, &mut log, &ctx())
}

/// labels of all manifests of an asset in store order (active last) with their assertion labels
pub fn manifest_assertion_labels(store: &hk::Store) -> Vec<(String, Vec<String>)> {
    store.claims().iter().map(|c| (c.label().to_string(), c.claim_assertion_store().iter().map(|a| a.label()).collect())).collect()
}

// ---------------------------------------------------------------------------------------------
// abstraction of a real store for the model
// ---------------------------------------------------------------------------------------------

pub fn h8(b: &[u8]) -> String {
    if b.is_empty() {
        "0".into()
    } else {
        hex::encode(&b[..b.len().min(8)])
    }
}

fn sha(b: &[u8]) -> Vec<u8> {
    Sha256::digest(b).to_vec()
}

fn is_zero(b: &[u8]) -> bool {
    b.iter().all(|x| *x == 0)
}

fn hu_str(h: &HashedUri, sep: char) -> String {
    format!("{}{sep}{}", h.url(), h8(&h.hash()))
}

pub fn abs_claim(store: &hk::Store, c: &hk::Claim, sig_ok: bool) -> String {
    let (bh, sh) = hk19::store_manifest_box_hashes(store, c);
    let data = c.data().unwrap_or_default();
    let ings = c.ingredient_assertions();
    let acts = c.action_assertions();
    let hashes = c.hash_assertions();
    let is_in = |l: &Vec<&_>, x| l.iter().any(|y| std::ptr::eq(*y, x));
    let mut t = vec![];
    for ca in c.claim_assertion_store() {
        let payload = if is_in(&ings, ca) {
            match hk::ingredient_from_assertion(ca.assertion()) {
                Ok(i) => {
                    let rel = match i.relationship {
                        Relationship::ParentOf => "p",
                        Relationship::ComponentOf => "c",
                        Relationship::InputTo => "i",
                    };
                    format!(
                        "i:{rel}^{}^{}^{}^{}",
                        i.version,
                        if i.validation_results.is_some() { 1 } else { 0 },
                        i.c2pa_manifest().map(|h| hu_str(&h, '@')).unwrap_or("-".into()),
                        i.signature().map(|h| hu_str(&h, '@')).unwrap_or("-".into()),
                    )
                }
                Err(_) => "i:-".into(),
            }
        } else if is_in(&acts, ca) {
            match hk::actions_from_assertion(ca.assertion()) {
                Ok(a) => format!(
                    "a:{}",
                    a.actions()
                        .iter()
                        .map(|x| match x.parameters() {
                            None => x.action().to_string(),
                            Some(p) => format!("{}^{}", x.action(), p.redacted.clone().unwrap_or("-".into())),
                        })
                        .collect::<Vec<_>>()
                        .join("+")
                ),
                Err(_) => "a:".into(),
            }
        } else if is_in(&hashes, ca) {
            "h".into()
        } else {
            "o".into()
        };
        t.push(format!(
            "{}~{}~{}~{}~{}",
            ca.label_raw(),
            ca.instance(),
            h8(ca.hash()),
            if is_zero(hk::assertion_data(ca.assertion())) { 1 } else { 0 },
            payload
        ));
    }
    let a: Vec<String> = c.assertions().iter().map(|h| hu_str(h, '~')).collect();
    let r = match c.redactions() {
        None => "-".to_string(),
        Some(v) if v.is_empty() => "[]".to_string(),
        Some(v) => v.join(","),
    };
    format!(
        "L={};V={};U={};S={};BH={};SH={};DH={};D={};G={};A={};T={};R={};B=",
        c.label(),
        c.version(),
        if c.update_manifest() { 1 } else { 0 },
        if sig_ok { 1 } else { 0 },
        h8(&bh),
        h8(&sh),
        h8(&sha(&data)),
        h8(&sha(&data)),
        h8(&sha(c.signature_val())),
        a.join(","),
        t.join(","),
        r
    )
}

pub fn abs_store(store: &hk::Store) -> String {
    store.claims().iter().map(|c| abs_claim(store, c, true)).collect::<Vec<_>>().join("|")
}

pub fn protocol_safe(s: &str) -> bool {
    !s.contains(' ') && !s.contains('\n')
}

const MODELLED_NONFAILURE: [&str; 6] = [
    "claimSignature.insideValidity",
    "claimSignature.validated",
    "assertion.hashedURI.match",
    "ingredient.manifest.validated",
    "ingredient.claimSignature.validated",
    "ingredient.unknownProvenance",
];

/// canonical form of a validation log: every failure code except the (tolerated, unmodelled)
/// `signingCredential.untrusted`, plus the modelled success/informational codes, in log order
pub fn canon_log(log: &StatusTracker, ok: bool) -> String {
    let mut out = vec![];
    for item in log.logged_items() {
        let Some(code) = item.validation_status.as_deref() else { continue };
        let keep = match item.kind {
            LogKind::Failure => code != "signingCredential.untrusted",
            _ => MODELLED_NONFAILURE.contains(&code),
        };
        if keep {
            out.push(format!("{code}@{}", if item.ingredient_uri.is_some() { "I" } else { "A" }));
        }
    }
    format!("{} {}", if ok { "ok" } else { "err" }, if out.is_empty() { "-".to_string() } else { out.join(",") })
}

/// `Store::verify_store` (no asset data) on a store, default status tracker
pub fn impl_verify(store: &hk::Store) -> String {
    let mut log = StatusTracker::default();
    let r = hk19::verify_store(store, &mut log, &ctx());
    canon_log(&log, r.is_ok())
}

// ---------------------------------------------------------------------------------------------
// crafting an active claim on top of an existing manifest store
// ---------------------------------------------------------------------------------------------

#[derive(Clone, Default)]
pub struct Craft {
    pub label: String,
    pub update: bool,
    /// ingredient stores: (jumbf, relationship "p"/"c"/"i")
    pub ingredients: Vec<(Vec<u8>, String)>,
    /// redactions handed to `Store::load_ingredient_to_claim` (the real redaction path)
    pub load_redactions: Option<Vec<String>>,
    /// redaction list forced into the claim afterwards (crafted, bypasses the signer's checks)
    pub force_redactions: Option<Option<Vec<String>>>,
    /// (action name, redacted parameter)
    pub actions: Vec<(String, Option<String>)>,
    /// first action: "opened" (with the parent ingredient), "created" or none
    pub inception: String,
    pub notes: Vec<(String, String)>,
    /// add a data hash over the whole asset (sidecar style)
    pub data_hash: bool,
    /// silently remove these assertion URIs from ingredient claims after loading
    pub silent_removals: Vec<String>,
    pub thumbnails: usize,
    /// further hard-binding assertions of the claim itself: "boxes", "bmff.v1", "bmff.v2", "bmff.v3"
    pub own_hashes: Vec<String>,
}

pub struct Crafted {
    pub jumbf: Vec<u8>,
    pub label: String,
}

pub fn urn(tag: u32) -> String {
    format!("urn:c2pa:{:08x}-0000-4000-8000-000000000000", tag)
}

/// Build, sign and serialise the store consisting of the ingredient manifests and the crafted
/// active claim. `asset` is the stream the store will be validated against (for the data hash).
pub fn craft(c: &Craft, asset: &[u8]) -> c2pa::Result<Crafted> {
    let context = ctx();
    let mut claim = hk::Claim::new_with_user_guid("verif", &c.label, 2)?;
    claim.add_claim_generator_info(ClaimGeneratorInfo::new("verif"));
    let mut ing_uris = vec![];
    for (jumbf, rel) in &c.ingredients {
        let i_store = hk::Store::load_ingredient_to_claim(&mut claim, jumbf, c.load_redactions.clone(), &context)?;
        let pc = i_store.provenance_claim().ok_or(c2pa::Error::ClaimEncoding)?;
        let (bh, sh) = hk19::store_manifest_box_hashes(&i_store, pc);
        let relationship = match rel.as_str() {
            "p" => Relationship::ParentOf,
            "c" => Relationship::ComponentOf,
            _ => Relationship::InputTo,
        };
        let uri = hk::claim_add_ingredient_v3(
            &mut claim,
            relationship,
            Some(HashedUri::new(hk19::to_manifest_uri(pc.label()), Some(pc.alg().to_string()), &bh)),
            Some(HashedUri::new(hk19::to_signature_uri(pc.label()), Some(pc.alg().to_string()), &sh)),
            Some(ValidationResults::default()),
        )?;
        ing_uris.push((uri, rel.clone()));
    }
    for u in &c.silent_removals {
        let labels: Vec<String> = claim.claim_ingredients().iter().map(|x| x.label().to_string()).collect();
        for l in labels {
            if u.contains(&l) {
                if let Some(ic) = claim.claim_ingredient_mut(&l) {
                    hk::claim_redact_assertion(ic, u)?;
                }
            }
        }
    }
    if let Some(f) = &c.force_redactions {
        hk::claim_set_redactions(&mut claim, f.clone());
    }
    if c.data_hash {
        let mut dh = DataHash::new("jumbf manifest", "sha256");
        dh.gen_hash_from_stream(&mut Cursor::new(asset))?;
        claim.add_assertion(&dh)?;
    }
    for kind in &c.own_hashes {
        match kind.as_str() {
            "boxes" => {
                claim.add_assertion(&c2pa::assertions::BoxHash::default())?;
            }
            k if k.starts_with("bmff.v") => {
                let mut bh = c2pa::assertions::BmffHash::new("jumbf manifest", "sha256", None);
                bh.set_bmff_version(k[6..].parse().unwrap_or(3));
                claim.add_assertion(&bh)?;
            }
            _ => {}
        }
    }
    let mut actions = Actions::new();
    match c.inception.as_str() {
        "opened" => {
            if let Some((u, _)) = ing_uris.iter().find(|(_, r)| r == "p") {
                actions = actions.add_action(Action::new("c2pa.opened").set_parameter("ingredients", vec![u.clone()])?);
            }
        }
        "created" => {
            actions = actions.add_action(Action::new("c2pa.created").set_source_type(c2pa::DigitalSourceType::DigitalCapture));
        }
        _ => {}
    }
    for (name, red) in &c.actions {
        let mut a = Action::new(name);
        if let Some(r) = red {
            a = a.set_parameter("redacted", r)?;
        }
        actions = actions.add_action(a);
    }
    if !actions.actions().is_empty() {
        claim.add_assertion(&actions)?;
    }
    for (l, m) in &c.notes {
        hk::claim_add_user_assertion(&mut claim, l, &serde_json::json!({"marker": m}).to_string())?;
    }
    for k in 0..c.thumbnails {
        let th = c2pa::assertions::EmbeddedData::new("c2pa.thumbnail.claim", "image/jpeg", vec![1u8, 2, 3, k as u8]);
        claim.add_assertion(&th)?;
    }
    hk19::claim_set_update_manifest(&mut claim, c.update);
    claim.build()?;
    let s = signer();
    let mut settings = c2pa::Settings::default();
    settings.verify.verify_after_sign = false;
    let sig = c2pa::cose_sign::sign_claim(&claim.data()?, &s, s.reserve_size(), &settings)?;
    hk19::claim_set_signature_val(&mut claim, sig);
    let mut store = hk::Store::new();
    let ing_claims: Vec<hk::Claim> = claim.claim_ingredients().into_iter().cloned().collect();
    for ic in ing_claims {
        let l = ic.label().to_string();
        hk19::store_insert_restored_claim(&mut store, l, ic);
    }
    let label = claim.label().to_string();
    hk19::store_insert_restored_claim(&mut store, label.clone(), claim);
    Ok(Crafted { jumbf: hk19::store_to_jumbf(&store, 0)?, label })
}
