//! Shared by the C20 and C21 drivers (included with `#[path]`): signing through the public
//! Builder API, loading the resulting manifest store through hooks, describing a real store to
//! the Lean model (`abs_store`), running the real validator on it (`impl_verify`), crafting an
//! active claim on top of an existing store (`Craft`), and reading results back.
#![allow(dead_code)]

use std::io::Cursor;

use c2pa::{
    assertions::{Action, Actions, DataHash},
    status_tracker::{LogKind, StatusTracker},
    verif_hooks::{c19 as hk19, c20 as hk},
    Builder, BuilderIntent, ClaimGeneratorInfo, Context, EphemeralSigner, HashedUri, Reader, Relationship, Signer,
    ValidationResults, ValidationState,
};
use sha2::{Digest, Sha256};

pub const CREATED_ACTION: &str = r#"{"action": "c2pa.created", "digitalSourceType": "http://cv.iptc.org/newscodes/digitalsourcetype/digitalCapture"}"#;

pub fn settings_json() -> &'static str {
    r#"{"verify":{"remote_manifest_fetch":false,"ocsp_fetch":false}}"#
}

pub fn ctx() -> Context {
    Context::new().with_settings(settings_json()).expect("settings")
}

pub fn signer() -> EphemeralSigner {
    EphemeralSigner::new("verif.test").expect("signer")
}

pub fn assertion_uri(manifest: &str, label: &str) -> String {
    format!("self#jumbf=/c2pa/{manifest}/c2pa.assertions/{label}")
}

/// marker string stored in a note assertion; unique per (manifest tag, note)
pub fn marker(tag: &str, note: &str) -> String {
    format!("VERIFMARK-{tag}-{note}-KRAMFIREV")
}

pub fn contains(h: &[u8], n: &[u8]) -> bool {
    !n.is_empty() && h.windows(n.len()).any(|w| w == n)
}

/// A manifest definition: actions + note assertions (`label`, marker) + redactions.
pub fn definition(title: &str, fmt: &str, actions: Vec<serde_json::Value>, notes: &[(String, String)], redactions: Option<Vec<String>>, label: Option<&str>) -> String {
    let mut assertions = vec![];
    if !actions.is_empty() {
        assertions.push(serde_json::json!({"label": "c2pa.actions", "data": {"actions": actions}}));
    }
    for (l, m) in notes {
        assertions.push(serde_json::json!({"label": l, "data": {"marker": m}}));
    }
    let mut d = serde_json::json!({
        "title": title, "format": fmt,
        "claim_generator_info": [{"name": "verif-harness", "version": "0.1"}],
        "assertions": assertions,
    });
    if let Some(r) = redactions {
        d["redactions"] = serde_json::json!(r);
    }
    if let Some(l) = label {
        d["label"] = serde_json::json!(l);
    }
    d.to_string()
}

pub fn redacted_action(uri: &str) -> serde_json::Value {
    serde_json::json!({"action": "c2pa.redacted", "reason": "c2pa.PII.present", "parameters": {"redacted": uri}})
}

/// Sign `src` with the definition; `ingredients` = (json, format, bytes) added explicitly.
pub fn sign(defj: &str, intent: Option<BuilderIntent>, fmt: &str, src: &[u8], ingredients: &[(String, String, Vec<u8>)]) -> c2pa::Result<Vec<u8>> {
    sign_with(settings_json(), defj, intent, fmt, src, ingredients)
}

/// settings that make `Builder::sign` bind the asset with a box hash (`c2pa.hash.boxes`)
pub fn box_hash_settings_json() -> &'static str {
    r#"{"verify":{"remote_manifest_fetch":false,"ocsp_fetch":false},"core":{"prefer_compress_manifests":true}}"#
}

pub fn sign_with(settings: &str, defj: &str, intent: Option<BuilderIntent>, fmt: &str, src: &[u8], ingredients: &[(String, String, Vec<u8>)]) -> c2pa::Result<Vec<u8>> {
    let c = Context::new().with_settings(settings)?.with_signer(signer());
    let mut b = Builder::from_context(c).with_definition(defj)?;
    if let Some(i) = intent {
        b.set_intent(i);
    }
    for (j, f, d) in ingredients {
        b.add_ingredient_from_stream(j.clone(), f, &mut Cursor::new(d.clone()))?;
    }
    let mut out = Cursor::new(Vec::new());
    b.save_to_stream(fmt, &mut Cursor::new(src.to_vec()), &mut out)?;
    Ok(out.into_inner())
}

pub struct ReadOut {
    pub state: String, // Valid | Trusted | Invalid | err:<class>
    pub failures: Vec<String>,
    pub json: serde_json::Value,
    pub active: Option<String>,
    pub redactions: Option<Vec<String>>,
}

impl ReadOut {
    pub fn ok(&self) -> bool {
        self.state == "Valid" || self.state == "Trusted"
    }
}

fn collect_failures(v: &serde_json::Value) -> Vec<String> {
    let mut out = vec![];
    let vr = &v["validation_results"];
    if let Some(a) = vr["activeManifest"]["failure"].as_array() {
        for s in a {
            out.push(format!("A:{}", s["code"].as_str().unwrap_or("?")));
        }
    }
    if let Some(ds) = vr["ingredientDeltas"].as_array() {
        for d in ds {
            if let Some(a) = d["validationDeltas"]["failure"].as_array() {
                for s in a {
                    out.push(format!("I:{}", s["code"].as_str().unwrap_or("?")));
                }
            }
        }
    }
    out
}

pub fn err_class(e: &c2pa::Error) -> String {
    format!("{e:?}").chars().take_while(|c| c.is_ascii_alphanumeric()).collect()
}

fn read_out(r: c2pa::Result<Reader>) -> ReadOut {
    match r {
        Ok(r) => {
            let v: serde_json::Value = serde_json::from_str(&r.json()).unwrap_or_default();
            ReadOut {
                state: match r.validation_state() {
                    ValidationState::Valid => "Valid".into(),
                    ValidationState::Trusted => "Trusted".into(),
                    ValidationState::Invalid => "Invalid".into(),
                },
                failures: collect_failures(&v),
                active: r.active_label().map(|s| s.to_string()),
                redactions: r.active_manifest().and_then(|m| m.redactions().map(|r| r.to_vec())),
                json: v,
            }
        }
        Err(e) => ReadOut { state: format!("err:{}", err_class(&e)), failures: vec![], json: serde_json::Value::Null, active: None, redactions: None },
    }
}

pub fn read_asset(fmt: &str, data: &[u8]) -> ReadOut {
    read_out(Reader::from_context(ctx()).with_stream(fmt, Cursor::new(data.to_vec())))
}

pub fn read_sidecar(jumbf: &[u8], fmt: &str, asset: &[u8]) -> ReadOut {
    read_out(Reader::from_context(ctx()).with_manifest_data_and_stream(jumbf, fmt, Cursor::new(asset.to_vec())))
}

pub fn jumbf_of(fmt: &str, asset: &[u8]) -> c2pa::Result<Vec<u8>> {
    c2pa::jumbf_io::load_jumbf_from_stream(fmt, &mut Cursor::new(asset.to_vec()))
}

pub fn load_store(jumbf: &[u8]) -> c2pa::Result<hk::Store> {
    let mut log = StatusTracker::default();
    hk19::store_from_jumbf(jumbf, &mut log, &ctx())
}

/// labels of all manifests of an asset in store order (active last) with their assertion labels
pub fn manifest_assertion_labels(store: &hk::Store) -> Vec<(String, Vec<String>)> {
    store.claims().iter().map(|c| (c.label().to_string(), c.claim_assertion_store().iter().map(|a| a.label()).collect())).collect()
}

// ---------------------------------------------------------------------------------------------
// abstraction of a real store for the model
// ---------------------------------------------------------------------------------------------

pub fn h8(b: &[u8]) -> String {
    if b.is_empty() {
        "0".into()
    } else {
        hex::encode(&b[..b.len().min(8)])
    }
}

fn sha(b: &[u8]) -> Vec<u8> {
    Sha256::digest(b).to_vec()
}

fn is_zero(b: &[u8]) -> bool {
    b.iter().all(|x| *x == 0)
}

fn hu_str(h: &HashedUri, sep: char) -> String {
    format!("{}{sep}{}", h.url(), h8(&h.hash()))
}

pub fn abs_claim(store: &hk::Store, c: &hk::Claim, sig_ok: bool) -> String {
    let (bh, sh) = hk19::store_manifest_box_hashes(store, c);
    let data = c.data().unwrap_or_default();
    let ings = c.ingredient_assertions();
    let acts = c.action_assertions();
    let hashes = c.hash_assertions();
    let is_in = |l: &Vec<&_>, x| l.iter().any(|y| std::ptr::eq(*y, x));
    let mut t = vec![];
    for ca in c.claim_assertion_store() {
        let payload = if is_in(&ings, ca) {
            match hk::ingredient_from_assertion(ca.assertion()) {
                Ok(i) => {
                    let rel = match i.relationship {
                        Relationship::ParentOf => "p",
                        Relationship::ComponentOf => "c",
                        Relationship::InputTo => "i",
                    };
                    format!(
                        "i:{rel}^{}^{}^{}^{}",
                        i.version,
                        if i.validation_results.is_some() { 1 } else { 0 },
                        i.c2pa_manifest().map(|h| hu_str(&h, '@')).unwrap_or("-".into()),
                        i.signature().map(|h| hu_str(&h, '@')).unwrap_or("-".into()),
                    )
                }
                Err(_) => "i:-".into(),
            }
        } else if is_in(&acts, ca) {
            match hk::actions_from_assertion(ca.assertion()) {
                Ok(a) => format!(
                    "a:{}",
                    a.actions()
                        .iter()
                        .map(|x| match x.parameters() {
                            None => x.action().to_string(),
                            Some(p) => format!("{}^{}", x.action(), p.redacted.clone().unwrap_or("-".into())),
                        })
                        .collect::<Vec<_>>()
                        .join("+")
                ),
                Err(_) => "a:".into(),
            }
        } else if is_in(&hashes, ca) {
            "h".into()
        } else {
            "o".into()
        };
        t.push(format!(
            "{}~{}~{}~{}~{}",
            ca.label_raw(),
            ca.instance(),
            h8(ca.hash()),
            if is_zero(hk::assertion_data(ca.assertion())) { 1 } else { 0 },
            payload
        ));
    }
    let a: Vec<String> = c.assertions().iter().map(|h| hu_str(h, '~')).collect();
    let r = match c.redactions() {
        None => "-".to_string(),
        Some(v) if v.is_empty() => "[]".to_string(),
        Some(v) => v.join(","),
    };
    format!(
        "L={};V={};U={};S={};BH={};SH={};DH={};D={};G={};A={};T={};R={};B=",
        c.label(),
        c.version(),
        if c.update_manifest() { 1 } else { 0 },
        if sig_ok { 1 } else { 0 },
        h8(&bh),
        h8(&sh),
        h8(&sha(&data)),
        h8(&sha(&data)),
        h8(&sha(c.signature_val())),
        a.join(","),
        t.join(","),
        r
    )
}

pub fn abs_store(store: &hk::Store) -> String {
    store.claims().iter().map(|c| abs_claim(store, c, true)).collect::<Vec<_>>().join("|")
}

pub fn protocol_safe(s: &str) -> bool {
    !s.contains(' ') && !s.contains('\n')
}

const MODELLED_NONFAILURE: [&str; 6] = [
    "claimSignature.insideValidity",
    "claimSignature.validated",
    "assertion.hashedURI.match",
    "ingredient.manifest.validated",
    "ingredient.claimSignature.validated",
    "ingredient.unknownProvenance",
];

/// canonical form of a validation log: every failure code except the (tolerated, unmodelled)
/// `signingCredential.untrusted`, plus the modelled success/informational codes, in log order
pub fn canon_log(log: &StatusTracker, ok: bool) -> String {
    let mut out = vec![];
    for item in log.logged_items() {
        let Some(code) = item.validation_status.as_deref() else { continue };
        let keep = match item.kind {
            LogKind::Failure => code != "signingCredential.untrusted",
            _ => MODELLED_NONFAILURE.contains(&code),
        };
        if keep {
            out.push(format!("{code}@{}", if item.ingredient_uri.is_some() { "I" } else { "A" }));
        }
    }
    format!("{} {}", if ok { "ok" } else { "err" }, if out.is_empty() { "-".to_string() } else { out.join(",") })
}

/// `Store::verify_store` (no asset data) on a store, default status tracker
pub fn impl_verify(store: &hk::Store) -> String {
    let mut log = StatusTracker::default();
    let r = hk19::verify_store(store, &mut log, &ctx());
    canon_log(&log, r.is_ok())
}

const HARD_BINDING_MATCH: [&str; 3] = ["assertion.dataHash.match", "assertion.bmffHash.match", "assertion.boxesHash.match"];
const HARD_BINDING_MISMATCH: [&str; 3] = ["assertion.dataHash.mismatch", "assertion.bmffHash.mismatch", "assertion.boxesHash.mismatch"];

/// `Store::verify_store` with the asset (hook c21): the canonical log including the hard-binding
/// match statuses, plus ` B=<label>`: the manifest whose hard binding was checked against the
/// asset (manifest label in the URL of the hard-binding statuses; `-` if none was logged, `?` if
/// they name more than one manifest). Also returns the raw log.
pub fn impl_verify_asset(store: &hk::Store, fmt: &str, asset: &[u8]) -> (String, StatusTracker) {
    use c2pa::verif_hooks::{c21 as hk21, c34 as hk34};
    let mut log = StatusTracker::default();
    let r = hk21::verify_store_with_stream(store, fmt, &mut Cursor::new(asset.to_vec()), &mut log, &ctx());
    let mut out = vec![];
    let mut bound: Vec<String> = vec![];
    for item in log.logged_items() {
        let Some(code) = item.validation_status.as_deref() else { continue };
        let hb = HARD_BINDING_MATCH.contains(&code) || HARD_BINDING_MISMATCH.contains(&code);
        let keep = match item.kind {
            LogKind::Failure => code != "signingCredential.untrusted",
            _ => MODELLED_NONFAILURE.contains(&code) || hb,
        };
        if keep {
            out.push(format!("{code}@{}", if item.ingredient_uri.is_some() { "I" } else { "A" }));
        }
        if hb {
            let l = hk34::manifest_label_from_uri(&item.label).unwrap_or("?".into());
            if !bound.contains(&l) {
                bound.push(l);
            }
        }
    }
    let b = match bound.len() {
        0 => "-".to_string(),
        1 => bound[0].clone(),
        _ => "?".to_string(),
    };
    (format!("{} {} B={b}", if r.is_ok() { "ok" } else { "err" }, if out.is_empty() { "-".to_string() } else { out.join(",") }), log)
}

// ---------------------------------------------------------------------------------------------
// `ValidationResults::from_store`: the real log with its URLs and the statuses recorded in the
// ingredient assertions of the store go to the model's `fromStoreFilter`; the real
// `from_store` (hook c04) answers on the implementation side
// ---------------------------------------------------------------------------------------------

fn kind_ch(k: &LogKind) -> &'static str {
    match k {
        LogKind::Success => "s",
        LogKind::Informational => "i",
        LogKind::Failure => "f",
    }
}

fn filter_safe(s: &str) -> bool {
    !s.is_empty() && s != "-" && !s.chars().any(|c| matches!(c, ' ' | '\n' | '~' | '+' | '!' | ',' | '|'))
}

/// (request line, implementation reply) for the real log of a validation of `store`; `None` when
/// a string of the case cannot be expressed in the line protocol or a log item has no status code
pub fn filter_case(store: &hk::Store, log: &StatusTracker) -> Option<(String, String, usize)> {
    use c2pa::{validation_results::validation_codes::log_kind, verif_hooks::{c04 as hk04, c34 as hk34}};
    let active = store.provenance_claim()?.label().to_string();
    let mut groups = vec![];
    for c in store.claims() {
        for a in c.ingredient_assertions() {
            let Ok(i) = hk::ingredient_from_assertion(a.assertion()) else { continue };
            let flat: Option<Vec<(String, Option<String>)>> = match (&i.validation_results, &i.validation_status) {
                (Some(vr), _) => {
                    let mut v = vec![];
                    let mut push = |sc: &c2pa::validation_results::StatusCodes| {
                        for s in sc.success().iter().chain(sc.informational().iter()).chain(sc.failure().iter()) {
                            v.push((s.code().to_string(), s.url().map(|u| u.to_string())));
                        }
                    };
                    if let Some(am) = vr.active_manifest() {
                        push(am);
                    }
                    for d in vr.ingredient_deltas().map(|d| d.as_slice()).unwrap_or(&[]) {
                        push(d.validation_deltas());
                    }
                    Some(v)
                }
                (None, Some(vs)) => Some(vs.iter().map(|s| (s.code().to_string(), s.url().map(|u| u.to_string()))).collect()),
                (None, None) => None,
            };
            let Some(flat) = flat else { continue };
            let label = i.active_manifest.as_ref().or(i.c2pa_manifest.as_ref()).map(|m| m.url()).and_then(|u| hk34::manifest_label_from_uri(&u));
            let mut items = vec![];
            for (code, url) in flat {
                let u = url.unwrap_or("-".into());
                if !filter_safe(&code) || (u != "-" && !filter_safe(&u)) {
                    return None;
                }
                items.push(format!("{code}~{u}~{}", kind_ch(&log_kind(&code))));
            }
            let l = label.unwrap_or("-".into());
            if l != "-" && !filter_safe(&l) {
                return None;
            }
            groups.push(format!("{l}!{}", if items.is_empty() { "-".to_string() } else { items.join("+") }));
        }
    }
    let mut sts = vec![];
    for item in log.logged_items() {
        let Some(code) = item.validation_status.as_deref() else {
            if item.err_val.is_some() {
                return None;
            }
            continue;
        };
        let url = item.label.to_string();
        if !filter_safe(code) || !filter_safe(&url) {
            return None;
        }
        sts.push(format!("{code}~{url}~{}~{}", kind_ch(&item.kind), if item.ingredient_uri.is_some() { 1 } else { 0 }));
    }
    if !filter_safe(&active) {
        return None;
    }
    let req = format!("filter active={active} recs={} log={}", if groups.is_empty() { "-".to_string() } else { groups.join("|") }, if sts.is_empty() { "-".to_string() } else { sts.join(",") });
    // implementation: the statuses the real from_store kept
    let vr = hk04::results_from_store(store, log);
    let mut n = 0usize;
    let mut fails = vec![];
    let mut take = |sc: &c2pa::validation_results::StatusCodes, scope: &str| {
        n += sc.success().len() + sc.informational().len() + sc.failure().len();
        for s in sc.failure() {
            fails.push(format!("{}@{scope}~{}", s.code(), s.url().unwrap_or("-")));
        }
    };
    if let Some(am) = vr.active_manifest() {
        take(am, "A");
    }
    for d in vr.ingredient_deltas().map(|d| d.as_slice()).unwrap_or(&[]) {
        take(d.validation_deltas(), "I");
    }
    fails.sort();
    let dropped = sts.len().saturating_sub(n);
    Some((req, format!("{n} {}", if fails.is_empty() { "-".to_string() } else { fails.join(",") }), dropped))
}

/// validate `store` with the real `Store::verify_store` (no asset) and return the filter case
pub fn filter_case_of_store(store: &hk::Store) -> Option<(String, String, usize)> {
    let mut log = StatusTracker::default();
    let _ = hk19::verify_store(store, &mut log, &ctx());
    filter_case(store, &log)
}

// ---------------------------------------------------------------------------------------------
// crafting an active claim on top of an existing manifest store
// ---------------------------------------------------------------------------------------------

#[derive(Clone, Default)]
pub struct Craft {
    pub label: String,
    pub update: bool,
    /// ingredient stores: (jumbf, relationship "p"/"c"/"i")
    pub ingredients: Vec<(Vec<u8>, String)>,
    /// redactions handed to `Store::load_ingredient_to_claim` (the real redaction path)
    pub load_redactions: Option<Vec<String>>,
    /// redaction list forced into the claim afterwards (crafted, bypasses the signer's checks)
    pub force_redactions: Option<Option<Vec<String>>>,
    /// (action name, redacted parameter)
    pub actions: Vec<(String, Option<String>)>,
    /// first action: "opened" (with the parent ingredient), "created" or none
    pub inception: String,
    pub notes: Vec<(String, String)>,
    /// add a data hash over the whole asset (sidecar style)
    pub data_hash: bool,
    /// silently remove these assertion URIs from ingredient claims after loading
    pub silent_removals: Vec<String>,
    pub thumbnails: usize,
    /// further hard-binding assertions of the claim itself: "boxes", "bmff.v1", "bmff.v2", "bmff.v3"
    pub own_hashes: Vec<String>,
    /// failure statuses (code, url) pre-recorded in the validation results of every ingredient
    /// assertion of the crafted claim (what `ValidationResults::from_store` filters against)
    pub prerecorded: Vec<(String, String)>,
    /// apply `silent_removals` before the ingredient assertion is made, so that its hashed URI is
    /// the box hash of the altered ingredient manifest
    pub rehash: bool,
    /// the first ingredient assertion (v3) carries no validation results at all
    pub first_without_results: bool,
}

// ---------------------------------------------------------------------------------------------
// JUMBF surgery: remove one assertion box (any label, also actions / hard bindings, which
// `Claim::redact_assertion` refuses) from a serialised manifest store
// ---------------------------------------------------------------------------------------------

fn jumb_children(d: &[u8], start: usize, end: usize) -> Vec<(usize, usize, [u8; 4])> {
    let mut out = vec![];
    let mut p = start;
    while p + 8 <= end {
        let sz = u32::from_be_bytes([d[p], d[p + 1], d[p + 2], d[p + 3]]) as usize;
        let ty = [d[p + 4], d[p + 5], d[p + 6], d[p + 7]];
        let sz = if sz == 0 { end - p } else { sz };
        if sz < 8 || p + sz > end {
            break;
        }
        out.push((p, sz, ty));
        p += sz;
    }
    out
}

/// label of a `jumb` superbox starting at `p` (from its `jumd` description box)
fn jumb_label(d: &[u8], p: usize, sz: usize) -> Option<String> {
    let kids = jumb_children(d, p + 8, p + sz);
    let (dp, dsz, ty) = *kids.first()?;
    if &ty != b"jumd" || dsz < 8 + 17 {
        return None;
    }
    let toggles = d[dp + 8 + 16];
    if toggles & 0x02 == 0 {
        return None;
    }
    let s = &d[dp + 8 + 17..dp + dsz];
    let n = s.iter().position(|b| *b == 0)?;
    String::from_utf8(s[..n].to_vec()).ok()
}

fn jumb_child_by_label(d: &[u8], p: usize, sz: usize, label: &str) -> Option<(usize, usize)> {
    jumb_children(d, p + 8, p + sz).into_iter().find(|(cp, csz, ty)| ty == b"jumb" && jumb_label(d, *cp, *csz).as_deref() == Some(label)).map(|(a, b, _)| (a, b))
}

/// the store without the box `manifest/c2pa.assertions/label` (sizes of the enclosing boxes fixed)
pub fn jumbf_remove_assertion(d: &[u8], manifest: &str, label: &str) -> Option<Vec<u8>> {
    let (tp, tsz, tty) = *jumb_children(d, 0, d.len()).first()?;
    if &tty != b"jumb" {
        return None;
    }
    let (mp, msz) = jumb_child_by_label(d, tp, tsz, manifest)?;
    let (ap, asz) = jumb_child_by_label(d, mp, msz, "c2pa.assertions")?;
    let (xp, xsz) = jumb_child_by_label(d, ap, asz, label)?;
    let mut out = d.to_vec();
    for (p, sz) in [(tp, tsz), (mp, msz), (ap, asz)] {
        let n = (sz - xsz) as u32;
        if u32::from_be_bytes([d[p], d[p + 1], d[p + 2], d[p + 3]]) == 0 {
            continue;
        }
        out[p..p + 4].copy_from_slice(&n.to_be_bytes());
    }
    out.drain(xp..xp + xsz);
    Some(out)
}

/// `ValidationResults` carrying the given failure statuses under `activeManifest`
pub fn prerecorded_results(items: &[(String, String)]) -> ValidationResults {
    if items.is_empty() {
        return ValidationResults::default();
    }
    let failure: Vec<serde_json::Value> = items.iter().map(|(c, u)| serde_json::json!({"code": c, "url": u})).collect();
    serde_json::from_value(serde_json::json!({"activeManifest": {"success": [], "informational": [], "failure": failure}})).unwrap_or_default()
}

pub struct Crafted {
    pub jumbf: Vec<u8>,
    pub label: String,
}

pub fn urn(tag: u32) -> String {
    format!("urn:c2pa:{:08x}-0000-4000-8000-000000000000", tag)
}

/// Build, sign and serialise the store consisting of the ingredient manifests and the crafted
/// active claim. `asset` is the stream the store will be validated against (for the data hash).
pub fn craft(c: &Craft, asset: &[u8]) -> c2pa::Result<Crafted> {
    let context = ctx();
    let mut claim = hk::Claim::new_with_user_guid("verif", &c.label, 2)?;
    claim.add_claim_generator_info(ClaimGeneratorInfo::new("verif"));
    let mut ing_uris = vec![];
    for (jumbf, rel) in &c.ingredients {
        let i_store = hk::Store::load_ingredient_to_claim(&mut claim, jumbf, c.load_redactions.clone(), &context)?;
        let pc = i_store.provenance_claim().ok_or(c2pa::Error::ClaimEncoding)?;
        let (mut bh, sh) = hk19::store_manifest_box_hashes(&i_store, pc);
        if c.rehash {
            // the ingredient is altered first and its hashed URI is computed over the altered
            // manifest (a signer importing an already damaged ingredient, or damaging it itself)
            let l = pc.label().to_string();
            for u in &c.silent_removals {
                if u.contains(&l) {
                    if let Some(ic) = claim.claim_ingredient_mut(&l) {
                        hk::claim_redact_assertion(ic, u)?;
                    }
                }
            }
            if let Some(ic) = claim.claim_ingredients().into_iter().find(|x| x.label() == l) {
                // a fresh store has no box-hash cache entry for the label
                bh = hk19::store_manifest_box_hashes(&hk::Store::new(), ic).0;
            }
        }
        let relationship = match rel.as_str() {
            "p" => Relationship::ParentOf,
            "c" => Relationship::ComponentOf,
            _ => Relationship::InputTo,
        };
        let uri = hk::claim_add_ingredient_v3(
            &mut claim,
            relationship,
            Some(HashedUri::new(hk19::to_manifest_uri(pc.label()), Some(pc.alg().to_string()), &bh)),
            Some(HashedUri::new(hk19::to_signature_uri(pc.label()), Some(pc.alg().to_string()), &sh)),
            if c.first_without_results && ing_uris.is_empty() { None } else { Some(prerecorded_results(&c.prerecorded)) },
        )?;
        ing_uris.push((uri, rel.clone()));
    }
    for u in c.silent_removals.iter().filter(|_| !c.rehash) {
        let labels: Vec<String> = claim.claim_ingredients().iter().map(|x| x.label().to_string()).collect();
        for l in labels {
            if u.contains(&l) {
                if let Some(ic) = claim.claim_ingredient_mut(&l) {
                    hk::claim_redact_assertion(ic, u)?;
                }
            }
        }
    }
    if let Some(f) = &c.force_redactions {
        hk::claim_set_redactions(&mut claim, f.clone());
    }
    if c.data_hash {
        let mut dh = DataHash::new("jumbf manifest", "sha256");
        dh.gen_hash_from_stream(&mut Cursor::new(asset))?;
        claim.add_assertion(&dh)?;
    }
    for kind in &c.own_hashes {
        match kind.as_str() {
            "boxes" => {
                claim.add_assertion(&c2pa::assertions::BoxHash::default())?;
            }
            k if k.starts_with("bmff.v") => {
                let mut bh = c2pa::assertions::BmffHash::new("jumbf manifest", "sha256", None);
                bh.set_bmff_version(k[6..].parse().unwrap_or(3));
                claim.add_assertion(&bh)?;
            }
            // labels of hard bindings the SDK has no assertion type for (`hash_assertions()` does
            // not return them): collection data hash, multi-part data hash
            "collection" => {
                hk::claim_add_user_assertion(&mut claim, "c2pa.hash.collection.data", r#"{"uris":[],"alg":"sha256"}"#)?;
            }
            "data.part" => {
                hk::claim_add_user_assertion(&mut claim, "c2pa.hash.data.part", r#"{"alg":"sha256"}"#)?;
            }
            _ => {}
        }
    }
    let mut actions = Actions::new();
    match c.inception.as_str() {
        "opened" => {
            if let Some((u, _)) = ing_uris.iter().find(|(_, r)| r == "p") {
                actions = actions.add_action(Action::new("c2pa.opened").set_parameter("ingredients", vec![u.clone()])?);
            }
        }
        "created" => {
            actions = actions.add_action(Action::new("c2pa.created").set_source_type(c2pa::DigitalSourceType::DigitalCapture));
        }
        _ => {}
    }
    for (name, red) in &c.actions {
        let mut a = Action::new(name);
        if let Some(r) = red {
            a = a.set_parameter("redacted", r)?;
        }
        actions = actions.add_action(a);
    }
    if !actions.actions().is_empty() {
        claim.add_assertion(&actions)?;
    }
    for (l, m) in &c.notes {
        hk::claim_add_user_assertion(&mut claim, l, &serde_json::json!({"marker": m}).to_string())?;
    }
    for k in 0..c.thumbnails {
        let th = c2pa::assertions::EmbeddedData::new("c2pa.thumbnail.claim", "image/jpeg", vec![1u8, 2, 3, k as u8]);
        claim.add_assertion(&th)?;
    }
    hk19::claim_set_update_manifest(&mut claim, c.update);
    match claim.build() {
        // `build` adds the signature box link first and then refuses a second claim thumbnail;
        // a crafted claim with several thumbnails keeps the link and ignores the refusal
        Err(c2pa::Error::OtherError(_)) if c.thumbnails > 1 => {}
        r => r?,
    }
    let s = signer();
    let mut settings = c2pa::Settings::default();
    settings.verify.verify_after_sign = false;
    let sig = c2pa::cose_sign::sign_claim(&claim.data()?, &s, s.reserve_size(), &settings)?;
    hk19::claim_set_signature_val(&mut claim, sig);
    let mut store = hk::Store::new();
    let ing_claims: Vec<hk::Claim> = claim.claim_ingredients().into_iter().cloned().collect();
    for ic in ing_claims {
        let l = ic.label().to_string();
        hk19::store_insert_restored_claim(&mut store, l, ic);
    }
    let label = claim.label().to_string();
    hk19::store_insert_restored_claim(&mut store, label.clone(), claim);
    Ok(Crafted { jumbf: hk19::store_to_jumbf(&store, 0)?, label })
}
