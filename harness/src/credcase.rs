//! Shared by the C05 and C06 drivers (`#[path]`): a *plan* for a signing credential whose facts
//! are known by construction, the statement-level list of profile rules it violates, the fact
//! line for the Lean model, and the end-to-end sign/read plumbing (custom signer that embeds any
//! chain, reader with trust settings).
#![allow(dead_code)]

use std::{collections::BTreeMap, io::Cursor};

use c2pa::{Builder, Context, Reader, Signer, SigningAlg};

use super::certgen::*;

/// Accepted EKU OIDs of the default trust configuration, read from the source tree.
pub fn default_eku_config() -> Vec<String> {
    let src = std::fs::read_to_string("/repo/sdk/src/crypto/cose/valid_eku_oids.cfg").unwrap_or_default();
    src.lines()
        .map(|l| l.trim())
        .filter(|l| !l.is_empty() && l.chars().all(|c| c.is_ascii_digit() || c == '.') && l.contains('.'))
        .map(|l| l.to_string())
        .collect()
}

pub struct KeyRing {
    keys: BTreeMap<(KeyKind, u8), Key>,
}

impl KeyRing {
    pub fn new() -> Self {
        KeyRing { keys: BTreeMap::new() }
    }

    /// key number `n` of a kind (generated on first use)
    pub fn get(&mut self, kind: KeyKind, n: u8) -> &Key {
        self.keys.entry((kind, n)).or_insert_with(|| gen_key(kind))
    }

    /// an already generated key
    pub fn peek(&self, kind: KeyKind, n: u8) -> &Key {
        self.keys.get(&(kind, n)).expect("key generated before use")
    }
}

/// One end-entity credential: the certificate specification plus the key kinds involved.
#[derive(Clone, Debug)]
pub struct Plan {
    pub spec: CertSpec,
    pub ee_kind: KeyKind,
    pub issuer_kind: KeyKind,
    /// self-signed: the certificate is signed with its own key
    pub self_signed: bool,
    /// label of the mutation(s) applied (for counting)
    pub label: String,
}

pub const OID_UNLISTED_EKU: &str = "1.3.6.1.4.1.55555.7.1";

fn eku_flags(oids: &[String]) -> (String, Vec<String>) {
    let mut flags = String::new();
    let mut other: Vec<String> = vec![];
    let mut seen: Vec<&String> = vec![];
    for o in oids {
        if seen.contains(&o) {
            continue;
        }
        seen.push(o);
        let f = match o.as_str() {
            EKU_ANY => Some('a'),
            EKU_SERVER_AUTH => Some('s'),
            EKU_CLIENT_AUTH => Some('c'),
            EKU_CODE_SIGNING => Some('d'),
            EKU_EMAIL => Some('e'),
            EKU_TIME_STAMPING => Some('t'),
            EKU_OCSP => Some('o'),
            _ => None,
        };
        match f {
            Some(c) => {
                if !flags.contains(c) {
                    flags.push(c)
                }
            }
            None => other.push(o.clone()),
        }
    }
    (if flags.is_empty() { "-".into() } else { flags }, other)
}

impl Plan {
    fn bc_exts(&self) -> Vec<bool> {
        self.spec
            .exts
            .iter()
            .filter_map(|e| match &e.ext {
                Ext::BasicConstraints { ca, .. } => Some(*ca),
                _ => None,
            })
            .collect()
    }

    /// `is_ca()` as decoded: exactly one basicConstraints extension and it says CA
    pub fn is_ca(&self) -> bool {
        let bc = self.bc_exts();
        bc.len() == 1 && bc[0]
    }

    /// some extension OID occurs more than once
    pub fn has_duplicate_ext(&self) -> bool {
        let ids: Vec<String> = self
            .spec
            .exts
            .iter()
            .map(|e| match &e.ext {
                Ext::BasicConstraints { .. } => "bc".to_string(),
                Ext::KeyUsage(_) => "ku".to_string(),
                Ext::Eku(_) | Ext::EkuMalformed => "eku".to_string(),
                Ext::Aki(_) => "aki".to_string(),
                Ext::Ski => "ski".to_string(),
                Ext::SubjectAltName => "san".to_string(),
                Ext::CertificatePolicies => "cp".to_string(),
                Ext::IssuerAltName => "ian".to_string(),
                Ext::Unknown(n) => format!("unknown{n}"),
            })
            .collect();
        (0..ids.len()).any(|i| ids[..i].contains(&ids[i]))
    }

    fn eku_malformed(&self) -> bool {
        self.spec.exts.iter().any(|e| matches!(e.ext, Ext::EkuMalformed))
    }

    fn eku_exts(&self) -> Vec<&Vec<String>> {
        self.spec
            .exts
            .iter()
            .filter_map(|e| match &e.ext {
                Ext::Eku(o) => Some(o),
                _ => None,
            })
            .collect()
    }

    fn ku_exts(&self) -> Vec<u16> {
        self.spec
            .exts
            .iter()
            .filter_map(|e| match &e.ext {
                Ext::KeyUsage(b) => Some(*b),
                _ => None,
            })
            .collect()
    }

    pub fn rsa_bits(&self) -> u32 {
        match self.ee_kind {
            KeyKind::Rsa(b) | KeyKind::RsaPss(b) | KeyKind::RsaPssParams(b) => b,
            _ => 0,
        }
    }

    /// The `key=value` facts of the certificate for the model (ground truth by construction).
    pub fn facts(&self) -> String {
        let s = &self.spec;
        let spki = match self.ee_kind {
            KeyKind::Rsa(_) => "rsa",
            KeyKind::RsaPss(_) | KeyKind::RsaPssParams(_) => "rsapss",
            KeyKind::Ed25519 => "other",
            _ => "ec",
        };
        // explicit curve parameters are a SEQUENCE; asn1-rs' `as_oid` does not reject it, the
        // bytes then compare unequal to every named curve: observed decoding oracle = `other`
        let ecp = match self.ee_kind {
            KeyKind::P256 => "p256",
            KeyKind::P384 => "p384",
            KeyKind::P521 => "p521",
            KeyKind::Secp256k1 | KeyKind::P256Explicit => "other",
            _ => "none",
        };
        let eku = {
            let e = self.eku_exts();
            let n = e.len() + self.eku_malformed() as usize;
            match n {
                0 => "none".to_string(),
                1 if self.eku_malformed() => "err".to_string(),
                1 => {
                    let (flags, other) = eku_flags(e[0]);
                    format!("{}:{}", flags, if other.is_empty() { "-".to_string() } else { other.join(",") })
                }
                _ => "err".to_string(),
            }
        };
        let exts: Vec<String> = s
            .exts
            .iter()
            .map(|e| {
                let k = match &e.ext {
                    Ext::Aki(_) => "A".to_string(),
                    Ext::Ski => "S".to_string(),
                    Ext::KeyUsage(b) => format!(
                        "K{}{}{}",
                        (b & KU_DIGITAL_SIGNATURE != 0) as u8,
                        (b & KU_KEY_CERT_SIGN != 0) as u8,
                        (b & KU_NON_REPUDIATION != 0) as u8
                    ),
                    Ext::BasicConstraints { .. } | Ext::Eku(_) | Ext::SubjectAltName | Ext::CertificatePolicies => {
                        "H".to_string()
                    }
                    // an extension whose value does not decode lands in the `_` arm
                    Ext::IssuerAltName | Ext::Unknown(_) | Ext::EkuMalformed => "O".to_string(),
                };
                if e.critical {
                    format!("{k}!")
                } else {
                    k
                }
            })
            .collect();
        format!(
            "parse=1 ver={} nb={} na={} sig={} pss={} spki={} ecp={} rsaok=1 bits={} ca={} dup={} self={} iuid={} suid={} eku={} exts={}",
            s.version.unwrap_or(0),
            s.not_before,
            s.not_after,
            s.sig_alg.fact(),
            s.sig_alg.pss_fact(),
            spki,
            ecp,
            self.rsa_bits(),
            self.is_ca() as u8,
            self.has_duplicate_ext() as u8,
            (s.issuer == s.subject) as u8,
            s.issuer_uid as u8,
            s.subject_uid as u8,
            eku,
            if exts.is_empty() { "-".to_string() } else { exts.join(",") }
        )
    }

    /// The rules of the *property statement* (C2PA certificate profile) this credential
    /// violates when the signing time is `t` and `allowed` are the accepted EKU OIDs. Written
    /// against the specification of the certificate, not against the validator's logic.
    pub fn violations(&self, t: i64, allowed: &[String]) -> Vec<&'static str> {
        let s = &self.spec;
        let mut v = vec![];
        if s.version != Some(2) {
            v.push("not-v3");
        }
        if t < s.not_before || t > s.not_after {
            v.push("not-valid-at-signing-time");
        }
        let sig_ok = match s.sig_alg {
            SigAlg::RsaPkcs1(md) | SigAlg::Ecdsa(md) => md != Md::Sha1,
            SigAlg::RsaPss(md, PssParams::Full { mgf }) => md != Md::Sha1 && mgf == md,
            SigAlg::RsaPss(..) => false,
            SigAlg::Ed25519 => true,
        };
        if !sig_ok {
            v.push("signature-algorithm");
        }
        if matches!(self.ee_kind, KeyKind::Secp256k1 | KeyKind::P256Explicit) {
            v.push("curve");
        }
        if self.ee_kind.is_rsa() && self.rsa_bits() < 2048 {
            v.push("rsa-under-2048");
        }
        if s.issuer == s.subject {
            v.push("self-signed");
        }
        if s.issuer_uid || s.subject_uid {
            v.push("unique-id");
        }
        let bc = self.bc_exts();
        let ca = bc.iter().any(|c| *c);
        if ca {
            v.push("ca-certificate");
        }
        // key usage: present, digitalSignature asserted, keyCertSign only for a CA
        let ku = self.ku_exts();
        if ku.is_empty() {
            v.push("key-usage-missing");
        } else {
            if ku.iter().any(|b| b & KU_KEY_CERT_SIGN != 0) && !ca {
                v.push("key-usage-certsign-non-ca");
            }
            if !ku.iter().any(|b| b & KU_DIGITAL_SIGNATURE != 0) {
                v.push("key-usage-no-digital-signature");
            }
        }
        // EKU: present on a non-CA certificate, no anyEKU, one accepted purpose, and
        // timeStamping / OCSPSigning exclusive of everything else
        // emailProtection, timeStamping and OCSPSigning are accepted whatever the configuration
        // ("The trust configuration will always accept the default set of OIDs", add_valid_ekus)
        let mut allowed: Vec<String> = allowed.to_vec();
        for b in [EKU_EMAIL, EKU_TIME_STAMPING, EKU_OCSP] {
            allowed.push(b.to_string());
        }
        if self.has_duplicate_ext() {
            v.push("duplicate-extension");
        }
        let eku = self.eku_exts();
        match eku.len() + self.eku_malformed() as usize {
            0 => {
                if !ca {
                    v.push("eku-missing")
                }
            }
            1 if self.eku_malformed() => v.push("eku-undecodable"),
            1 => {
                let o = eku[0];
                let has = |x: &str| o.iter().any(|y| y == x);
                if has(EKU_ANY) {
                    v.push("eku-any");
                } else if !o.iter().any(|y| allowed.contains(y)) {
                    v.push("eku-not-accepted");
                } else {
                    let ts = has(EKU_TIME_STAMPING);
                    let ocsp = has(EKU_OCSP);
                    let distinct: std::collections::BTreeSet<&String> = o.iter().collect();
                    if (ts && ocsp) || ((ts || ocsp) && distinct.len() > 1) {
                        v.push("eku-exclusive-purpose-mixed");
                    }
                }
            }
            _ => {}
        }
        if !s.exts.iter().any(|e| matches!(e.ext, Ext::Aki(_))) {
            v.push("authority-key-identifier-missing");
        }
        if s.exts.iter().any(|e| e.critical && matches!(e.ext, Ext::Unknown(_) | Ext::IssuerAltName)) {
            v.push("unhandled-critical-extension");
        }
        v
    }
}

/// The conforming starting point for an end-entity key issued by `issuer_kind`.
pub fn base_plan(serial: u64, ee_kind: KeyKind, issuer_kind: KeyKind, nb: i64, na: i64) -> Plan {
    Plan {
        spec: ee_spec(serial, &format!("issuer {}", issuer_kind.tag()), &format!("signer {serial}"), issuer_kind, nb, na),
        ee_kind,
        issuer_kind,
        self_signed: false,
        label: "conforming".into(),
    }
}

fn set_ext(spec: &mut CertSpec, pred: impl Fn(&Ext) -> bool, new: Option<Ext>) {
    match new {
        Some(n) => {
            for e in spec.exts.iter_mut() {
                if pred(&e.ext) {
                    e.ext = n.clone();
                }
            }
        }
        None => spec.exts.retain(|e| !pred(&e.ext)),
    }
}

pub fn is_ku(e: &Ext) -> bool {
    matches!(e, Ext::KeyUsage(_))
}
pub fn is_eku(e: &Ext) -> bool {
    matches!(e, Ext::Eku(_) | Ext::EkuMalformed)
}
pub fn is_bc(e: &Ext) -> bool {
    matches!(e, Ext::BasicConstraints { .. })
}
pub fn is_aki(e: &Ext) -> bool {
    matches!(e, Ext::Aki(_))
}

/// Every single-rule mutation, by name. `Plan::violations` — not this table — decides what a
/// mutated plan violates (some entries are conforming variations).
pub fn mutation_names() -> Vec<&'static str> {
    vec![
        "version-absent",
        "version-v1",
        "version-v2",
        "version-v4",
        "ca-true",
        "ca-true-certsign",
        "self-signed",
        "sig-sha1",
        "sig-pss-sha1",
        "sig-pss-mgf-mismatch",
        "sig-pss-params-absent",
        "sig-pss-params-null",
        "sig-pss-defaults-omitted",
        "sig-pss-sha256",
        "sig-pss-sha384",
        "sig-pss-sha512",
        "sig-rsa-sha384",
        "sig-rsa-sha512",
        "curve-secp256k1",
        "curve-explicit",
        "rsa-1024",
        "rsa-2047",
        "rsa-3072",
        "rsapss-spki",
        "rsapss-1024",
        "rsapss-2047",
        "rsapss-3072",
        "rsapss-params-1024",
        "rsapss-params-2047",
        "rsapss-params-2048",
        "rsapss-params-3072",
        "issuer-uid",
        "subject-uid",
        "both-uid",
        "ku-absent",
        "ku-key-encipherment",
        "ku-non-repudiation",
        "ku-certsign-only",
        "ku-ds-certsign",
        "ku-empty",
        "ku-ds-nonrep",
        "ku-twice-bad-good",
        "ku-not-critical",
        "eku-absent",
        "eku-any",
        "eku-any-email",
        "eku-server-auth",
        "eku-unlisted",
        "eku-docsigning",
        "eku-c2pa",
        "eku-email-server",
        "eku-timestamping",
        "eku-ocsp",
        "eku-ts-ocsp",
        "eku-ts-email",
        "eku-ocsp-unlisted",
        "eku-twice",
        "eku-email-repeated",
        "eku-undecodable",
        "critical-unknown",
        "critical-issuer-alt-name",
        "noncritical-unknown",
        "noncritical-issuer-alt-name",
        "aki-absent",
        "ski-absent",
        "extras-san-policies",
        "bc-absent",
        "bc-twice",
        "expired",
        "not-yet-valid",
        "ends-at-signing-time",
        "starts-at-signing-time",
        "ended-one-second-before",
        "starts-one-second-after",
    ]
}

/// Apply one named mutation. `t` is the signing time the validity mutations are relative to.
pub fn mutate(p: &mut Plan, name: &str, t: i64) {
    let day = 86_400;
    let s = &mut p.spec;
    match name {
        "version-absent" => s.version = None,
        "version-v1" => s.version = Some(0),
        "version-v2" => s.version = Some(1),
        "version-v4" => s.version = Some(3),
        "ca-true" => set_ext(s, is_bc, Some(Ext::BasicConstraints { ca: true, pathlen: None })),
        "ca-true-certsign" => {
            set_ext(s, is_bc, Some(Ext::BasicConstraints { ca: true, pathlen: Some(0) }));
            set_ext(s, is_ku, Some(Ext::KeyUsage(KU_DIGITAL_SIGNATURE | KU_KEY_CERT_SIGN)));
        }
        "self-signed" => {
            s.issuer = s.subject.clone();
            p.self_signed = true;
            p.issuer_kind = p.ee_kind;
            s.sig_alg = SigAlg::default_for(p.ee_kind);
        }
        "sig-sha1" => {
            s.sig_alg = match s.sig_alg {
                SigAlg::RsaPkcs1(_) | SigAlg::RsaPss(..) => SigAlg::RsaPkcs1(Md::Sha1),
                SigAlg::Ecdsa(_) => SigAlg::Ecdsa(Md::Sha1),
                other => other,
            }
        }
        "sig-pss-sha1" => s.sig_alg = SigAlg::RsaPss(Md::Sha1, PssParams::Full { mgf: Md::Sha1 }),
        "sig-pss-mgf-mismatch" => s.sig_alg = SigAlg::RsaPss(Md::Sha256, PssParams::Full { mgf: Md::Sha384 }),
        "sig-pss-params-absent" => s.sig_alg = SigAlg::RsaPss(Md::Sha256, PssParams::Absent),
        "sig-pss-params-null" => s.sig_alg = SigAlg::RsaPss(Md::Sha256, PssParams::Null),
        "sig-pss-defaults-omitted" => s.sig_alg = SigAlg::RsaPss(Md::Sha1, PssParams::DefaultsOmitted),
        "sig-pss-sha256" => s.sig_alg = SigAlg::RsaPss(Md::Sha256, PssParams::Full { mgf: Md::Sha256 }),
        "sig-pss-sha384" => s.sig_alg = SigAlg::RsaPss(Md::Sha384, PssParams::Full { mgf: Md::Sha384 }),
        "sig-pss-sha512" => s.sig_alg = SigAlg::RsaPss(Md::Sha512, PssParams::Full { mgf: Md::Sha512 }),
        "sig-rsa-sha384" => s.sig_alg = SigAlg::RsaPkcs1(Md::Sha384),
        "sig-rsa-sha512" => s.sig_alg = SigAlg::RsaPkcs1(Md::Sha512),
        "curve-secp256k1" => p.ee_kind = KeyKind::Secp256k1,
        "curve-explicit" => p.ee_kind = KeyKind::P256Explicit,
        "rsa-1024" => p.ee_kind = KeyKind::Rsa(1024),
        "rsa-2047" => p.ee_kind = KeyKind::Rsa(2047),
        "rsa-3072" => p.ee_kind = KeyKind::Rsa(3072),
        "rsapss-spki" => p.ee_kind = KeyKind::RsaPss(2048),
        "rsapss-1024" => p.ee_kind = KeyKind::RsaPss(1024),
        "rsapss-2047" => p.ee_kind = KeyKind::RsaPss(2047),
        "rsapss-3072" => p.ee_kind = KeyKind::RsaPss(3072),
        "rsapss-params-1024" => p.ee_kind = KeyKind::RsaPssParams(1024),
        "rsapss-params-2047" => p.ee_kind = KeyKind::RsaPssParams(2047),
        "rsapss-params-2048" => p.ee_kind = KeyKind::RsaPssParams(2048),
        "rsapss-params-3072" => p.ee_kind = KeyKind::RsaPssParams(3072),
        "issuer-uid" => s.issuer_uid = true,
        "subject-uid" => s.subject_uid = true,
        "both-uid" => {
            s.issuer_uid = true;
            s.subject_uid = true;
        }
        "ku-absent" => set_ext(s, is_ku, None),
        "ku-key-encipherment" => set_ext(s, is_ku, Some(Ext::KeyUsage(KU_KEY_ENCIPHERMENT))),
        "ku-non-repudiation" => set_ext(s, is_ku, Some(Ext::KeyUsage(KU_NON_REPUDIATION))),
        "ku-certsign-only" => set_ext(s, is_ku, Some(Ext::KeyUsage(KU_KEY_CERT_SIGN))),
        "ku-ds-certsign" => set_ext(s, is_ku, Some(Ext::KeyUsage(KU_DIGITAL_SIGNATURE | KU_KEY_CERT_SIGN))),
        "ku-empty" => set_ext(s, is_ku, Some(Ext::KeyUsage(0))),
        "ku-ds-nonrep" => set_ext(s, is_ku, Some(Ext::KeyUsage(KU_DIGITAL_SIGNATURE | KU_NON_REPUDIATION))),
        "ku-twice-bad-good" => {
            set_ext(s, is_ku, Some(Ext::KeyUsage(KU_KEY_AGREEMENT)));
            s.exts.push(ext(Ext::KeyUsage(KU_DIGITAL_SIGNATURE), true));
        }
        "ku-not-critical" => {
            for e in s.exts.iter_mut() {
                if is_ku(&e.ext) {
                    e.critical = false;
                }
            }
        }
        "eku-absent" => set_ext(s, is_eku, None),
        "eku-any" => set_ext(s, is_eku, Some(Ext::Eku(vec![EKU_ANY.into()]))),
        "eku-any-email" => set_ext(s, is_eku, Some(Ext::Eku(vec![EKU_EMAIL.into(), EKU_ANY.into()]))),
        "eku-server-auth" => set_ext(s, is_eku, Some(Ext::Eku(vec![EKU_SERVER_AUTH.into()]))),
        "eku-unlisted" => set_ext(s, is_eku, Some(Ext::Eku(vec![OID_UNLISTED_EKU.into()]))),
        "eku-docsigning" => set_ext(s, is_eku, Some(Ext::Eku(vec![EKU_DOC_SIGNING.into()]))),
        "eku-c2pa" => set_ext(s, is_eku, Some(Ext::Eku(vec![EKU_CLIENT_AUTH.into(), EKU_C2PA.into()]))),
        "eku-email-server" => set_ext(s, is_eku, Some(Ext::Eku(vec![EKU_SERVER_AUTH.into(), EKU_EMAIL.into()]))),
        "eku-timestamping" => set_ext(s, is_eku, Some(Ext::Eku(vec![EKU_TIME_STAMPING.into()]))),
        "eku-ocsp" => set_ext(s, is_eku, Some(Ext::Eku(vec![EKU_OCSP.into()]))),
        "eku-ts-ocsp" => set_ext(s, is_eku, Some(Ext::Eku(vec![EKU_TIME_STAMPING.into(), EKU_OCSP.into()]))),
        "eku-ts-email" => set_ext(s, is_eku, Some(Ext::Eku(vec![EKU_EMAIL.into(), EKU_TIME_STAMPING.into()]))),
        "eku-ocsp-unlisted" => set_ext(s, is_eku, Some(Ext::Eku(vec![EKU_OCSP.into(), OID_UNLISTED_EKU.into()]))),
        "eku-twice" => s.exts.push(ext(Ext::Eku(vec![EKU_DOC_SIGNING.into()]), false)),
        "eku-undecodable" => set_ext(s, is_eku, Some(Ext::EkuMalformed)),
        "eku-email-repeated" => set_ext(s, is_eku, Some(Ext::Eku(vec![EKU_EMAIL.into(), EKU_EMAIL.into()]))),
        "critical-unknown" => s.exts.push(ext(Ext::Unknown(1), true)),
        "critical-issuer-alt-name" => s.exts.insert(0, ext(Ext::IssuerAltName, true)),
        "noncritical-unknown" => s.exts.push(ext(Ext::Unknown(2), false)),
        "noncritical-issuer-alt-name" => s.exts.push(ext(Ext::IssuerAltName, false)),
        "aki-absent" => set_ext(s, is_aki, None),
        "ski-absent" => set_ext(s, |e| matches!(e, Ext::Ski), None),
        "extras-san-policies" => {
            s.exts.insert(1, ext(Ext::SubjectAltName, false));
            s.exts.push(ext(Ext::CertificatePolicies, false));
        }
        "bc-absent" => set_ext(s, is_bc, None),
        "bc-twice" => {
            set_ext(s, is_bc, Some(Ext::BasicConstraints { ca: true, pathlen: None }));
            s.exts.push(ext(Ext::BasicConstraints { ca: true, pathlen: None }, true));
        }
        "expired" => {
            s.not_before = t - 30 * day;
            s.not_after = t - day;
        }
        "not-yet-valid" => {
            s.not_before = t + day;
            s.not_after = t + 30 * day;
        }
        "ends-at-signing-time" => s.not_after = t,
        "starts-at-signing-time" => s.not_before = t,
        "ended-one-second-before" => s.not_after = t - 1,
        "starts-one-second-after" => s.not_before = t + 1,
        other => panic!("unknown mutation {other}"),
    }
    // an RSA-based signature algorithm needs an RSA issuer key
    if !p.self_signed && !p.spec.sig_alg.usable_with(p.issuer_kind) {
        p.issuer_kind = KeyKind::Rsa(2048);
        p.spec.issuer.1 = format!("issuer {}", p.issuer_kind.tag());
    }
    if p.self_signed && !p.spec.sig_alg.usable_with(p.ee_kind) {
        p.spec.sig_alg = SigAlg::default_for(p.ee_kind);
    }
    if p.label == "conforming" {
        p.label = name.to_string();
    } else {
        p.label = format!("{}+{}", p.label, name);
    }
}

/// Issuer CA key number used for every generated hierarchy (one CA key per key kind).
pub const CA_KEY: u8 = 200;

/// Build the end-entity certificate of a plan.
pub fn build_plan(p: &Plan, ring: &mut KeyRing) -> Vec<u8> {
    // make sure both keys exist, then borrow immutably
    ring.get(p.ee_kind, 0);
    ring.get(p.issuer_kind, CA_KEY);
    let ee = &ring.keys[&(p.ee_kind, 0)];
    let issuer = if p.self_signed { ee } else { &ring.keys[&(p.issuer_kind, CA_KEY)] };
    build_cert(&p.spec, ee, issuer)
}

/// Self-signed root certificate for the CA key of `kind`.
pub fn root_cert(kind: KeyKind, ring: &mut KeyRing, nb: i64, na: i64) -> Vec<u8> {
    let k = ring.get(kind, CA_KEY);
    let cn = format!("issuer {}", kind.tag());
    build_cert(&ca_spec(1, &cn, &cn, kind, nb, na, true), k, k)
}

// ---------------------------------------------------------------- end to end

/// Custom signer: COSE-signs with the wrapped raw signer but skips the signing-time profile
/// check, so that any certificate chain can be embedded.
pub struct DirectSigner {
    pub inner: c2pa::BoxedSigner,
}

impl Signer for DirectSigner {
    fn sign(&self, data: &[u8]) -> c2pa::Result<Vec<u8>> {
        c2pa::verif_hooks::c06::cose_sign_unchecked(&*self.inner, data, self.inner.reserve_size())
    }

    fn alg(&self) -> SigningAlg {
        self.inner.alg()
    }

    fn certs(&self) -> c2pa::Result<Vec<Vec<u8>>> {
        self.inner.certs()
    }

    fn reserve_size(&self) -> usize {
        self.inner.reserve_size()
    }

    fn direct_cose_handling(&self) -> bool {
        true
    }
}

pub fn alg_for(kind: KeyKind) -> SigningAlg {
    match kind {
        KeyKind::Rsa(_) | KeyKind::RsaPss(_) | KeyKind::RsaPssParams(_) => SigningAlg::Ps256,
        KeyKind::P384 => SigningAlg::Es384,
        KeyKind::P521 => SigningAlg::Es512,
        KeyKind::Ed25519 => SigningAlg::Ed25519,
        _ => SigningAlg::Es256,
    }
}

/// Sign the small JPEG fixture with `chain` (end-entity first) and `key`.
pub fn sign_asset(src: &[u8], chain: &[Vec<u8>], key: &Key) -> Result<Vec<u8>, String> {
    let inner = c2pa::create_signer::from_keys(certs_pem(chain).as_bytes(), &key.pem, alg_for(key.kind), None)
        .map_err(|e| format!("signer: {e:?}"))?;
    let ctx = Context::new()
        .with_settings(r#"{"verify":{"verify_after_sign":false}}"#)
        .map_err(|e| format!("settings: {e:?}"))?
        .with_signer(DirectSigner { inner });
    let mut builder = Builder::from_context(ctx)
        .with_definition(::vh::sign::definition("credential case", "image/jpeg").as_str())
        .map_err(|e| format!("definition: {e:?}"))?;
    let mut out = Cursor::new(Vec::new());
    builder
        .save_to_stream("image/jpeg", &mut Cursor::new(src.to_vec()), &mut out)
        .map_err(|e| format!("sign: {e:?}"))?;
    Ok(out.into_inner())
}

pub struct ReadOutcome {
    pub state: &'static str,
    /// active-manifest success codes `signingCredential.*` / `claimSignature.*`, in log order
    pub success: Vec<String>,
    /// all active-manifest failure codes, in log order
    pub failure: Vec<String>,
}

impl ReadOutcome {
    pub fn line(&self) -> String {
        let j = |v: &Vec<String>| if v.is_empty() { "-".to_string() } else { v.join(",") };
        format!("{} S={} F={}", self.state, j(&self.success), j(&self.failure))
    }
}

pub fn read_asset(asset: &[u8], settings: &str) -> Result<ReadOutcome, String> {
    let ctx = Context::new().with_settings(settings).map_err(|e| format!("settings: {e:?}"))?;
    let reader = Reader::from_context(ctx)
        .with_stream("image/jpeg", Cursor::new(asset.to_vec()))
        .map_err(|e| format!("read: {e:?}"))?;
    let state = match reader.validation_state() {
        c2pa::validation_results::ValidationState::Invalid => "invalid",
        c2pa::validation_results::ValidationState::Valid => "valid",
        c2pa::validation_results::ValidationState::Trusted => "trusted",
    };
    let mut success = vec![];
    let mut failure = vec![];
    if let Some(a) = reader.validation_results().and_then(|r| r.active_manifest()) {
        for s in a.success() {
            if s.code().starts_with("signingCredential.") || s.code().starts_with("claimSignature.") {
                success.push(s.code().to_string());
            }
        }
        for s in a.failure() {
            failure.push(s.code().to_string());
        }
    }
    Ok(ReadOutcome { state, success, failure })
}
