//! X.509 material generated from a specification whose *facts are known by construction*
//! (shared by the C05 and C06 drivers through `#[path]`).
//!
//! Certificates are assembled field by field with a small DER writer (so that every profile
//! rule — version, unique IDs, odd algorithm identifiers, duplicate/critical extensions — can be
//! violated individually) and signed with the `openssl` crate using the issuer's real key, so the
//! chains are cryptographically genuine.
#![allow(dead_code)]

use openssl::{
    ec::{Asn1Flag, EcGroup, EcKey},
    hash::MessageDigest,
    nid::Nid,
    pkey::{PKey, Private},
    rsa::{Padding, Rsa},
    sign::{RsaPssSaltlen, Signer},
};

// ---------------------------------------------------------------- DER writer

pub fn der_len(n: usize) -> Vec<u8> {
    if n < 0x80 {
        vec![n as u8]
    } else {
        let mut b = vec![];
        let mut m = n;
        while m > 0 {
            b.push((m & 0xff) as u8);
            m >>= 8;
        }
        b.reverse();
        let mut out = vec![0x80 | b.len() as u8];
        out.extend(b);
        out
    }
}

pub fn tlv(tag: u8, content: &[u8]) -> Vec<u8> {
    let mut out = vec![tag];
    out.extend(der_len(content.len()));
    out.extend_from_slice(content);
    out
}

pub fn seq(parts: &[Vec<u8>]) -> Vec<u8> {
    tlv(0x30, &parts.concat())
}

pub fn set(parts: &[Vec<u8>]) -> Vec<u8> {
    tlv(0x31, &parts.concat())
}

pub fn int_u64(v: u64) -> Vec<u8> {
    let mut b = v.to_be_bytes().to_vec();
    while b.len() > 1 && b[0] == 0 && b[1] & 0x80 == 0 {
        b.remove(0);
    }
    if b[0] & 0x80 != 0 {
        b.insert(0, 0);
    }
    tlv(0x02, &b)
}

pub fn oid(dotted: &str) -> Vec<u8> {
    let arcs: Vec<u64> = dotted.split('.').map(|a| a.parse().expect("oid arc")).collect();
    let mut c = vec![];
    let push = |c: &mut Vec<u8>, mut v: u64| {
        let mut tmp = vec![(v & 0x7f) as u8];
        v >>= 7;
        while v > 0 {
            tmp.push(0x80 | (v & 0x7f) as u8);
            v >>= 7;
        }
        tmp.reverse();
        c.extend(tmp);
    };
    push(&mut c, arcs[0] * 40 + arcs[1]);
    for a in &arcs[2..] {
        push(&mut c, *a);
    }
    tlv(0x06, &c)
}

pub fn null() -> Vec<u8> {
    vec![0x05, 0x00]
}

pub fn octets(b: &[u8]) -> Vec<u8> {
    tlv(0x04, b)
}

pub fn bitstring(b: &[u8], unused: u8) -> Vec<u8> {
    let mut c = vec![unused];
    c.extend_from_slice(b);
    tlv(0x03, &c)
}

pub fn utf8(s: &str) -> Vec<u8> {
    tlv(0x0c, s.as_bytes())
}

pub fn boolean(v: bool) -> Vec<u8> {
    vec![0x01, 0x01, if v { 0xff } else { 0x00 }]
}

/// days since 1970-01-01 -> (y, m, d)   (Howard Hinnant's civil_from_days)
fn civil(z: i64) -> (i64, i64, i64) {
    let z = z + 719468;
    let era = if z >= 0 { z } else { z - 146096 } / 146097;
    let doe = z - era * 146097;
    let yoe = (doe - doe / 1460 + doe / 36524 - doe / 146096) / 365;
    let y = yoe + era * 400;
    let doy = doe - (365 * yoe + yoe / 4 - yoe / 100);
    let mp = (5 * doy + 2) / 153;
    let d = doy - (153 * mp + 2) / 5 + 1;
    let m = if mp < 10 { mp + 3 } else { mp - 9 };
    (if m <= 2 { y + 1 } else { y }, m, d)
}

pub fn time_fields(epoch: i64) -> (i64, i64, i64, i64, i64, i64) {
    let days = epoch.div_euclid(86400);
    let secs = epoch.rem_euclid(86400);
    let (y, m, d) = civil(days);
    (y, m, d, secs / 3600, (secs / 60) % 60, secs % 60)
}

/// RFC 5280 Time: UTCTime through 2049, GeneralizedTime afterwards.
pub fn x509_time(epoch: i64) -> Vec<u8> {
    let (y, m, d, hh, mm, ss) = time_fields(epoch);
    if (1950..2050).contains(&y) {
        tlv(0x17, format!("{:02}{:02}{:02}{:02}{:02}{:02}Z", y % 100, m, d, hh, mm, ss).as_bytes())
    } else {
        generalized_time(epoch)
    }
}

pub fn generalized_time(epoch: i64) -> Vec<u8> {
    let (y, m, d, hh, mm, ss) = time_fields(epoch);
    tlv(0x18, format!("{:04}{:02}{:02}{:02}{:02}{:02}Z", y, m, d, hh, mm, ss).as_bytes())
}

/// DER of an RFC 3161 `TSTInfo` whose only meaningful field is `genTime`.
pub fn tst_info_der(gen_time: i64) -> Vec<u8> {
    seq(&[
        int_u64(1),
        oid("1.2.3.4"),
        seq(&[seq(&[oid("2.16.840.1.101.3.4.2.1"), null()]), octets(&[0u8; 32])]),
        int_u64(7),
        generalized_time(gen_time),
    ])
}

/// A distinguished name `O=<org>, CN=<cn>`; an empty `org` leaves the organisation attribute out.
pub fn name(org: &str, cn: &str) -> Vec<u8> {
    if org.is_empty() {
        return seq(&[set(&[seq(&[oid("2.5.4.3"), utf8(cn)])])]);
    }
    seq(&[
        set(&[seq(&[oid("2.5.4.10"), utf8(org)])]),
        set(&[seq(&[oid("2.5.4.3"), utf8(cn)])]),
    ])
}

pub fn pem(label: &str, der: &[u8]) -> String {
    let b64 = openssl::base64::encode_block(der);
    let mut out = format!("-----BEGIN {label}-----\n");
    for chunk in b64.as_bytes().chunks(64) {
        out.push_str(std::str::from_utf8(chunk).unwrap());
        out.push('\n');
    }
    out.push_str(&format!("-----END {label}-----\n"));
    out
}

pub fn certs_pem(ders: &[Vec<u8>]) -> String {
    ders.iter().map(|d| pem("CERTIFICATE", d)).collect()
}

// ---------------------------------------------------------------- keys

#[derive(Clone, Copy, Debug, PartialEq, Eq, Hash, PartialOrd, Ord)]
pub enum KeyKind {
    Rsa(u32),
    /// RSA key whose SubjectPublicKeyInfo algorithm is id-RSASSA-PSS, parameters absent
    RsaPss(u32),
    /// RSA key whose SubjectPublicKeyInfo algorithm is id-RSASSA-PSS with RSASSA-PSS-params
    /// (SHA-256, MGF1-SHA-256, salt 32)
    RsaPssParams(u32),
    P256,
    P384,
    P521,
    /// a curve outside the profile
    Secp256k1,
    /// P-256 encoded with explicit curve parameters instead of the named-curve OID
    P256Explicit,
    Ed25519,
}

impl KeyKind {
    pub fn tag(&self) -> String {
        match self {
            KeyKind::Rsa(b) => format!("rsa{b}"),
            KeyKind::RsaPss(b) => format!("rsapss{b}"),
            KeyKind::RsaPssParams(b) => format!("rsapssparams{b}"),
            KeyKind::P256 => "p256".into(),
            KeyKind::P384 => "p384".into(),
            KeyKind::P521 => "p521".into(),
            KeyKind::Secp256k1 => "secp256k1".into(),
            KeyKind::P256Explicit => "p256explicit".into(),
            KeyKind::Ed25519 => "ed25519".into(),
        }
    }

    pub fn is_rsa(&self) -> bool {
        matches!(self, KeyKind::Rsa(_) | KeyKind::RsaPss(_) | KeyKind::RsaPssParams(_))
    }

    pub fn is_ec(&self) -> bool {
        matches!(self, KeyKind::P256 | KeyKind::P384 | KeyKind::P521 | KeyKind::Secp256k1 | KeyKind::P256Explicit)
    }
}

pub struct Key {
    pub kind: KeyKind,
    pub pkey: PKey<Private>,
    /// SubjectPublicKeyInfo DER exactly as placed in certificates
    pub spki: Vec<u8>,
    /// PKCS#8 PEM of the private key
    pub pem: Vec<u8>,
    /// 20-byte key identifier used for SKI/AKI
    pub key_id: Vec<u8>,
}

/// Split one DER TLV off the front: (tag, content, rest). Definite lengths only.
fn split_tlv(b: &[u8]) -> (u8, &[u8], &[u8]) {
    let tag = b[0];
    let (len, hdr) = if b[1] < 0x80 {
        (b[1] as usize, 2)
    } else {
        let n = (b[1] & 0x7f) as usize;
        (b[2..2 + n].iter().fold(0usize, |a, x| (a << 8) | *x as usize), 2 + n)
    };
    (tag, &b[hdr..hdr + len], &b[hdr + len..])
}

/// `SubjectPublicKeyInfo { rsaEncryption NULL, BIT STRING RSAPublicKey }` with the algorithm
/// replaced by id-RSASSA-PSS (parameters absent, or RSASSA-PSS-params for SHA-256); the key bits
/// are unchanged.
fn relabel_rsa_spki(spki: &[u8], with_params: bool) -> Vec<u8> {
    let (_, content, _) = split_tlv(spki);
    let (_, _alg, rest) = split_tlv(content);
    let (tag, bits, _) = split_tlv(rest);
    assert_eq!(tag, 0x03);
    let pss = oid("1.2.840.113549.1.1.10");
    let alg = if with_params {
        let hash_ai = seq(&[oid(Md::Sha256.oid()), null()]);
        let mgf_ai = seq(&[oid("1.2.840.113549.1.1.8"), seq(&[oid(Md::Sha256.oid()), null()])]);
        seq(&[pss, seq(&[tlv(0xa0, &hash_ai), tlv(0xa1, &mgf_ai), tlv(0xa2, &int_u64(32))])])
    } else {
        seq(&[pss])
    };
    seq(&[alg, tlv(0x03, bits)])
}

pub fn gen_key(kind: KeyKind) -> Key {
    let pkey = match kind {
        KeyKind::Rsa(bits) => PKey::from_rsa(Rsa::generate(bits).expect("rsa")).expect("pkey"),
        // the private key stays a plain RSA key; only the SubjectPublicKeyInfo label placed in
        // certificates differs (rewritten below)
        KeyKind::RsaPss(bits) | KeyKind::RsaPssParams(bits) => {
            PKey::from_rsa(Rsa::generate(bits).expect("rsa")).expect("pkey")
        }
        KeyKind::P256 | KeyKind::P384 | KeyKind::P521 | KeyKind::Secp256k1 | KeyKind::P256Explicit => {
            let nid = match kind {
                KeyKind::P384 => Nid::SECP384R1,
                KeyKind::P521 => Nid::SECP521R1,
                KeyKind::Secp256k1 => Nid::SECP256K1,
                _ => Nid::X9_62_PRIME256V1,
            };
            let mut group = EcGroup::from_curve_name(nid).expect("group");
            if kind == KeyKind::P256Explicit {
                group.set_asn1_flag(Asn1Flag::EXPLICIT_CURVE);
            }
            PKey::from_ec_key(EcKey::generate(&group).expect("ec")).expect("pkey")
        }
        KeyKind::Ed25519 => PKey::generate_ed25519().expect("ed25519"),
    };
    let spki = pkey.public_key_to_der().expect("spki");
    let spki = match kind {
        KeyKind::RsaPss(_) => relabel_rsa_spki(&spki, false),
        KeyKind::RsaPssParams(_) => relabel_rsa_spki(&spki, true),
        _ => spki,
    };
    let pem = pkey.private_key_to_pem_pkcs8().expect("pkcs8");
    let key_id = openssl::sha::sha256(&spki)[..20].to_vec();
    Key { kind, pkey, spki, pem, key_id }
}

// ---------------------------------------------------------------- signature algorithms

#[derive(Clone, Copy, Debug, PartialEq, Eq)]
pub enum Md {
    Sha1,
    Sha256,
    Sha384,
    Sha512,
}

impl Md {
    pub fn md(&self) -> MessageDigest {
        match self {
            Md::Sha1 => MessageDigest::sha1(),
            Md::Sha256 => MessageDigest::sha256(),
            Md::Sha384 => MessageDigest::sha384(),
            Md::Sha512 => MessageDigest::sha512(),
        }
    }

    pub fn oid(&self) -> &'static str {
        match self {
            Md::Sha1 => "1.3.14.3.2.26",
            Md::Sha256 => "2.16.840.1.101.3.4.2.1",
            Md::Sha384 => "2.16.840.1.101.3.4.2.2",
            Md::Sha512 => "2.16.840.1.101.3.4.2.3",
        }
    }

    pub fn len(&self) -> u64 {
        match self {
            Md::Sha1 => 20,
            Md::Sha256 => 32,
            Md::Sha384 => 48,
            Md::Sha512 => 64,
        }
    }

    /// the model's name of the hash (`other` = not one of the three mandatory ones)
    pub fn fact(&self) -> &'static str {
        match self {
            Md::Sha1 => "other",
            Md::Sha256 => "sha256",
            Md::Sha384 => "sha384",
            Md::Sha512 => "sha512",
        }
    }
}

/// How the RSASSA-PSS `parameters` field is written.
#[derive(Clone, Copy, Debug, PartialEq, Eq)]
pub enum PssParams {
    /// hashAlgorithm [0], maskGenAlgorithm [1] (MGF1 with `mgf`), saltLength [2]
    Full { mgf: Md },
    /// the field is absent altogether
    Absent,
    /// `SEQUENCE {}` / defaults omitted: what RFC 4055 prescribes for SHA-1 (hash, mgf omitted)
    DefaultsOmitted,
    /// `NULL` instead of a SEQUENCE
    Null,
}

#[derive(Clone, Copy, Debug, PartialEq, Eq)]
pub enum SigAlg {
    RsaPkcs1(Md),
    RsaPss(Md, PssParams),
    Ecdsa(Md),
    Ed25519,
}

impl SigAlg {
    /// default algorithm for an issuer key
    pub fn default_for(kind: KeyKind) -> SigAlg {
        match kind {
            KeyKind::Rsa(_) => SigAlg::RsaPkcs1(Md::Sha256),
            KeyKind::RsaPss(_) | KeyKind::RsaPssParams(_) => {
                SigAlg::RsaPss(Md::Sha256, PssParams::Full { mgf: Md::Sha256 })
            }
            KeyKind::P384 => SigAlg::Ecdsa(Md::Sha384),
            KeyKind::P521 => SigAlg::Ecdsa(Md::Sha512),
            KeyKind::P256 | KeyKind::Secp256k1 | KeyKind::P256Explicit => SigAlg::Ecdsa(Md::Sha256),
            KeyKind::Ed25519 => SigAlg::Ed25519,
        }
    }

    pub fn algorithm_identifier(&self) -> Vec<u8> {
        match self {
            SigAlg::RsaPkcs1(md) => {
                let o = match md {
                    Md::Sha1 => "1.2.840.113549.1.1.5",
                    Md::Sha256 => "1.2.840.113549.1.1.11",
                    Md::Sha384 => "1.2.840.113549.1.1.12",
                    Md::Sha512 => "1.2.840.113549.1.1.13",
                };
                seq(&[oid(o), null()])
            }
            SigAlg::RsaPss(md, params) => {
                let pss = oid("1.2.840.113549.1.1.10");
                match params {
                    PssParams::Absent => seq(&[pss]),
                    PssParams::Null => seq(&[pss, null()]),
                    PssParams::DefaultsOmitted => seq(&[pss, seq(&[])]),
                    PssParams::Full { mgf } => {
                        let hash_ai = seq(&[oid(md.oid()), null()]);
                        let mgf_ai = seq(&[oid("1.2.840.113549.1.1.8"), seq(&[oid(mgf.oid()), null()])]);
                        seq(&[
                            pss,
                            seq(&[tlv(0xa0, &hash_ai), tlv(0xa1, &mgf_ai), tlv(0xa2, &int_u64(md.len()))]),
                        ])
                    }
                }
            }
            SigAlg::Ecdsa(md) => {
                let o = match md {
                    Md::Sha1 => "1.2.840.10045.4.1",
                    Md::Sha256 => "1.2.840.10045.4.3.2",
                    Md::Sha384 => "1.2.840.10045.4.3.3",
                    Md::Sha512 => "1.2.840.10045.4.3.4",
                };
                seq(&[oid(o)])
            }
            SigAlg::Ed25519 => seq(&[oid("1.3.101.112")]),
        }
    }

    /// the model's name of the outer signature algorithm
    pub fn fact(&self) -> &'static str {
        match self {
            SigAlg::RsaPkcs1(Md::Sha256) => "rsa256",
            SigAlg::RsaPkcs1(Md::Sha384) => "rsa384",
            SigAlg::RsaPkcs1(Md::Sha512) => "rsa512",
            SigAlg::Ecdsa(Md::Sha256) => "es256",
            SigAlg::Ecdsa(Md::Sha384) => "es384",
            SigAlg::Ecdsa(Md::Sha512) => "es512",
            SigAlg::RsaPss(..) => "pss",
            SigAlg::Ed25519 => "ed25519",
            _ => "other",
        }
    }

    /// the model's description of the PSS parameters
    pub fn pss_fact(&self) -> String {
        match self {
            SigAlg::RsaPss(md, PssParams::Full { mgf }) => format!("{}/{}", md.fact(), mgf.fact()),
            SigAlg::RsaPss(_, PssParams::Absent) => "none".into(),
            SigAlg::RsaPss(_, _) => "bad".into(),
            _ => "none".into(),
        }
    }

    pub fn usable_with(&self, kind: KeyKind) -> bool {
        match self {
            SigAlg::RsaPkcs1(_) => matches!(kind, KeyKind::Rsa(_)),
            SigAlg::RsaPss(..) => kind.is_rsa(),
            SigAlg::Ecdsa(_) => kind.is_ec(),
            SigAlg::Ed25519 => kind == KeyKind::Ed25519,
        }
    }

    pub fn sign(&self, key: &Key, tbs: &[u8]) -> Vec<u8> {
        match self {
            SigAlg::RsaPkcs1(md) | SigAlg::Ecdsa(md) => {
                let mut s = Signer::new(md.md(), &key.pkey).expect("signer");
                s.sign_oneshot_to_vec(tbs).expect("sign")
            }
            SigAlg::RsaPss(md, params) => {
                let mut s = Signer::new(md.md(), &key.pkey).expect("signer");
                s.set_rsa_padding(Padding::PKCS1_PSS).expect("pss");
                let mgf = match params {
                    PssParams::Full { mgf } => *mgf,
                    _ => *md,
                };
                s.set_rsa_mgf1_md(mgf.md()).expect("mgf1");
                s.set_rsa_pss_saltlen(RsaPssSaltlen::custom(md.len() as i32)).expect("salt");
                s.sign_oneshot_to_vec(tbs).expect("sign")
            }
            SigAlg::Ed25519 => {
                let mut s = Signer::new_without_digest(&key.pkey).expect("signer");
                s.sign_oneshot_to_vec(tbs).expect("sign")
            }
        }
    }
}

// ---------------------------------------------------------------- extensions

pub const EKU_ANY: &str = "2.5.29.37.0";
pub const EKU_SERVER_AUTH: &str = "1.3.6.1.5.5.7.3.1";
pub const EKU_CLIENT_AUTH: &str = "1.3.6.1.5.5.7.3.2";
pub const EKU_CODE_SIGNING: &str = "1.3.6.1.5.5.7.3.3";
pub const EKU_EMAIL: &str = "1.3.6.1.5.5.7.3.4";
pub const EKU_TIME_STAMPING: &str = "1.3.6.1.5.5.7.3.8";
pub const EKU_OCSP: &str = "1.3.6.1.5.5.7.3.9";
pub const EKU_DOC_SIGNING: &str = "1.3.6.1.5.5.7.3.36";
pub const EKU_C2PA: &str = "1.3.6.1.4.1.62558.2.1";

pub const KU_DIGITAL_SIGNATURE: u16 = 1 << 0;
pub const KU_NON_REPUDIATION: u16 = 1 << 1;
pub const KU_KEY_ENCIPHERMENT: u16 = 1 << 2;
pub const KU_KEY_AGREEMENT: u16 = 1 << 4;
pub const KU_KEY_CERT_SIGN: u16 = 1 << 5;
pub const KU_CRL_SIGN: u16 = 1 << 6;

#[derive(Clone, Debug, PartialEq, Eq)]
pub enum Ext {
    BasicConstraints { ca: bool, pathlen: Option<u64> },
    /// bit i = named bit i of RFC 5280 KeyUsage (digitalSignature = bit 0)
    KeyUsage(u16),
    Eku(Vec<String>),
    /// extendedKeyUsage whose value is not a SEQUENCE OF OID
    EkuMalformed,
    /// authorityKeyIdentifier; `None` = use the issuer key's identifier
    Aki(Option<Vec<u8>>),
    Ski,
    SubjectAltName,
    CertificatePolicies,
    IssuerAltName,
    /// private extension the validator knows nothing about
    Unknown(u32),
}

#[derive(Clone, Debug, PartialEq, Eq)]
pub struct ExtSpec {
    pub ext: Ext,
    pub critical: bool,
}

pub fn ext(e: Ext, critical: bool) -> ExtSpec {
    ExtSpec { ext: e, critical }
}

fn ext_der(e: &ExtSpec, subject_key: &Key, issuer_key: &Key) -> Vec<u8> {
    let (o, value): (String, Vec<u8>) = match &e.ext {
        Ext::BasicConstraints { ca, pathlen } => {
            let mut parts = vec![];
            if *ca {
                parts.push(boolean(true));
            }
            if let Some(p) = pathlen {
                parts.push(int_u64(*p));
            }
            ("2.5.29.19".into(), seq(&parts))
        }
        Ext::KeyUsage(bits) => {
            // named bit i is bit (7 - i%8) of byte i/8
            let mut bytes = [0u8; 2];
            for i in 0..9 {
                if bits & (1 << i) != 0 {
                    bytes[i / 8] |= 0x80 >> (i % 8);
                }
            }
            let (content, unused): (Vec<u8>, u8) = if bytes[1] != 0 {
                (bytes.to_vec(), bytes[1].trailing_zeros() as u8)
            } else if bytes[0] != 0 {
                (vec![bytes[0]], bytes[0].trailing_zeros() as u8)
            } else {
                (vec![], 0)
            };
            ("2.5.29.15".into(), bitstring(&content, unused))
        }
        Ext::Eku(oids) => ("2.5.29.37".into(), seq(&oids.iter().map(|o| oid(o)).collect::<Vec<_>>())),
        Ext::EkuMalformed => ("2.5.29.37".into(), null()),
        Ext::Aki(id) => {
            let id = id.clone().unwrap_or_else(|| issuer_key.key_id.clone());
            ("2.5.29.35".into(), seq(&[tlv(0x80, &id)]))
        }
        Ext::Ski => ("2.5.29.14".into(), octets(&subject_key.key_id)),
        Ext::SubjectAltName => ("2.5.29.17".into(), seq(&[tlv(0x82, b"signer.verif.test")])),
        Ext::CertificatePolicies => ("2.5.29.32".into(), seq(&[seq(&[oid("2.5.29.32.0")])])),
        Ext::IssuerAltName => ("2.5.29.18".into(), seq(&[tlv(0x82, b"issuer.verif.test")])),
        Ext::Unknown(n) => (format!("1.3.6.1.4.1.55555.1.{n}"), null()),
    };
    let mut parts = vec![oid(&o)];
    if e.critical {
        parts.push(boolean(true));
    }
    parts.push(octets(&value));
    seq(&parts)
}

// ---------------------------------------------------------------- certificate

#[derive(Clone, Debug)]
pub struct CertSpec {
    /// raw value of the version field (2 = v3); `None` = field absent (v1 by default)
    pub version: Option<u64>,
    pub serial: u64,
    pub sig_alg: SigAlg,
    pub issuer: (String, String),
    pub subject: (String, String),
    pub not_before: i64,
    pub not_after: i64,
    pub issuer_uid: bool,
    pub subject_uid: bool,
    pub exts: Vec<ExtSpec>,
}

/// Assemble and sign a certificate for `subject_key`, issued by `issuer_key`.
pub fn build_cert(spec: &CertSpec, subject_key: &Key, issuer_key: &Key) -> Vec<u8> {
    let alg = spec.sig_alg.algorithm_identifier();
    let mut tbs = vec![];
    if let Some(v) = spec.version {
        tbs.push(tlv(0xa0, &int_u64(v)));
    }
    tbs.push(int_u64(spec.serial));
    tbs.push(alg.clone());
    tbs.push(name(&spec.issuer.0, &spec.issuer.1));
    tbs.push(seq(&[x509_time(spec.not_before), x509_time(spec.not_after)]));
    tbs.push(name(&spec.subject.0, &spec.subject.1));
    tbs.push(subject_key.spki.clone());
    if spec.issuer_uid {
        tbs.push(tlv(0x81, &[0x00, 0xde, 0xad]));
    }
    if spec.subject_uid {
        tbs.push(tlv(0x82, &[0x00, 0xbe, 0xef]));
    }
    if !spec.exts.is_empty() {
        let e: Vec<Vec<u8>> = spec.exts.iter().map(|e| ext_der(e, subject_key, issuer_key)).collect();
        tbs.push(tlv(0xa3, &seq(&e)));
    }
    let tbs = seq(&tbs);
    let sig = spec.sig_alg.sign(issuer_key, &tbs);
    seq(&[tbs, alg, bitstring(&sig, 0)])
}

/// A CA certificate that satisfies RFC 5280 and OpenSSL's X509_STRICT checks.
pub fn ca_spec(serial: u64, issuer_cn: &str, subject_cn: &str, issuer_kind: KeyKind, nb: i64, na: i64, root: bool) -> CertSpec {
    let mut exts = vec![
        ext(Ext::BasicConstraints { ca: true, pathlen: None }, true),
        ext(Ext::KeyUsage(KU_KEY_CERT_SIGN | KU_CRL_SIGN), true),
        ext(Ext::Ski, false),
    ];
    if !root {
        exts.push(ext(Ext::Aki(None), false));
    }
    CertSpec {
        version: Some(2),
        serial,
        sig_alg: SigAlg::default_for(issuer_kind),
        issuer: ("Verif Harness".into(), issuer_cn.into()),
        subject: ("Verif Harness".into(), subject_cn.into()),
        not_before: nb,
        not_after: na,
        issuer_uid: false,
        subject_uid: false,
        exts,
    }
}

/// A conforming C2PA end-entity certificate.
pub fn ee_spec(serial: u64, issuer_cn: &str, subject_cn: &str, issuer_kind: KeyKind, nb: i64, na: i64) -> CertSpec {
    CertSpec {
        version: Some(2),
        serial,
        sig_alg: SigAlg::default_for(issuer_kind),
        issuer: ("Verif Harness".into(), issuer_cn.into()),
        subject: ("Verif Harness".into(), subject_cn.into()),
        not_before: nb,
        not_after: na,
        issuer_uid: false,
        subject_uid: false,
        exts: vec![
            ext(Ext::BasicConstraints { ca: false, pathlen: None }, true),
            ext(Ext::KeyUsage(KU_DIGITAL_SIGNATURE), true),
            ext(Ext::Eku(vec![EKU_EMAIL.into()]), false),
            ext(Ext::Ski, false),
            ext(Ext::Aki(None), false),
        ],
    }
}
