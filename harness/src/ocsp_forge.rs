//! Re-issue an `openssl ocsp` response with hand-made `SingleResponse`s (arbitrary `CertID`
//! fields, statuses and times) under the signature of a responder whose key the harness holds.
//! Included with `#[path]` by the C37 driver; relies on `pki.rs` being a sibling module.
#![allow(dead_code)]

use rasn_ocsp::{BasicOcspResponse, CertId, CertStatus, OcspRequest, OcspResponse, RevokedInfo, SingleResponse};
use rasn_pkix::CrlReason;

use super::pki::{Cred, Pki};

/// unix seconds (+ nanoseconds) as an ASN.1 GeneralizedTime value
pub fn gtime(t: i64, nanos: u32) -> rasn::types::GeneralizedTime {
    chrono::DateTime::from_timestamp(t, nanos).expect("time").fixed_offset()
}

/// The `CertID` openssl computes for (issuer, serial): real issuer name / key hashes.
pub fn cert_id(pki: &Pki, issuer: &Cred, serial_hex: &str) -> Option<CertId> {
    let der = pki.ocsp_request_for_serial(issuer, serial_hex)?;
    let req: OcspRequest = rasn::der::decode(&der).ok()?;
    req.tbs_request.request_list.first().map(|r| r.req_cert.clone())
}

#[derive(Clone, Debug)]
pub enum Status {
    Good,
    /// revocation time (seconds, nanoseconds), reason: 'n' none, 'c' removeFromCRL, 'o' keyCompromise
    Revoked(i64, u32, char),
    Unknown,
}

#[derive(Clone, Debug)]
pub struct Single {
    pub cert_id: CertId,
    pub status: Status,
    pub this_update: (i64, u32),
    pub next_update: Option<i64>,
}

/// Take `template` (a successful basic response made by openssl and signed by `responder`),
/// replace its `SingleResponse`s (and `producedAt` when given) and sign it again.
pub fn reissue(pki: &Pki, template: &[u8], responder: &Cred, produced_at: Option<i64>, singles: &[Single]) -> Option<Vec<u8>> {
    let mut resp: OcspResponse = rasn::der::decode(template).ok()?;
    let bytes = resp.bytes.as_mut()?;
    let mut basic: BasicOcspResponse = rasn::der::decode(&bytes.response).ok()?;
    basic.tbs_response_data.responses = singles
        .iter()
        .map(|s| SingleResponse {
            cert_id: s.cert_id.clone(),
            cert_status: match &s.status {
                Status::Good => CertStatus::Good,
                Status::Unknown => CertStatus::Unknown(()),
                Status::Revoked(at, ns, r) => CertStatus::Revoked(RevokedInfo {
                    revocation_time: gtime(*at, *ns),
                    revocation_reason: match r {
                        'c' => Some(CrlReason::RemoveFromCRL),
                        'o' => Some(CrlReason::KeyCompromise),
                        _ => None,
                    },
                }),
            },
            this_update: gtime(s.this_update.0, s.this_update.1),
            next_update: s.next_update.map(|t| gtime(t, 0)),
            single_extensions: None,
        })
        .collect();
    if let Some(p) = produced_at {
        basic.tbs_response_data.produced_at = gtime(p, 0);
    }
    let tbs = rasn::der::encode(&basic.tbs_response_data).ok()?;
    let sig = pki.sign_sha256(responder, &tbs)?;
    basic.signature = rasn::types::BitString::from_vec(sig);
    let inner = rasn::der::encode(&basic).ok()?;
    bytes.response = inner.into();
    rasn::der::encode(&resp).ok()
}
