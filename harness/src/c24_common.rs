//! Shared by `bin/c24.rs` and `bin/c38.rs` (included with `#[path]`; lib.rs untouched).
//!
//! * canonical / abstracted reports,
//! * settings variants (one trust / verify / core setting at a time) and "poison" legacy
//!   thread-local settings that DIFFER from every context's settings in settings that matter,
//! * the encoding of the model's thread-local number in real legacy settings,
//! * the crafted BMFF asset whose context-based read goes through the thread-local settings
//!   (`BmffIO::read_cai` → `Store::from_jumbf`).

#![allow(dead_code)]
#![allow(deprecated)]

use std::io::Cursor;

use c2pa::{Builder, Context, Error, Reader, Settings};
use vh::common::{canon_json, fixtures};

pub const NOFETCH: &str = r#""remote_manifest_fetch":false,"ocsp_fetch":false"#;

pub fn base_settings() -> String {
    format!(r#"{{"verify":{{{NOFETCH}}}}}"#)
}

fn cert(name: &str) -> String {
    std::fs::read_to_string(fixtures().join("certs").join(name)).unwrap_or_default()
}

/// `"signer":{"local":{…}}` member for the fixture credential of `alg` (es256 / ps256 / ed25519 …).
pub fn signer_member(alg: &str) -> String {
    let v = serde_json::json!({"local": {"alg": alg, "sign_cert": cert(&format!("{alg}.pub")), "private_key": cert(&format!("{alg}.pem"))}});
    format!(r#""signer":{v}"#)
}

/// Report of one read result: `<State>:<canonical json minus validationTime>` or `err:<Class>` /
/// `cancelled`.
pub fn report_of(res: c2pa::Result<Reader>) -> String {
    match res {
        Ok(r) => {
            let mut v: serde_json::Value = serde_json::from_str(&r.json()).unwrap_or_default();
            if let Some(vr) = v.get_mut("validation_results").and_then(|x| x.as_object_mut()) {
                vr.remove("validationTime");
            }
            format!("{:?}:{}", r.validation_state(), canon_json(&v))
        }
        Err(Error::OperationCancelled) => "cancelled".into(),
        Err(e) => format!("err:{}", format!("{e:?}").chars().take_while(|c| c.is_ascii_alphanumeric()).collect::<String>()),
    }
}

pub fn read_with(ctx: &std::sync::Arc<Context>, fmt: &str, data: &[u8]) -> String {
    report_of(Reader::from_shared_context(ctx).with_stream(fmt, Cursor::new(data.to_vec())))
}

/// Report with everything that legitimately differs between two signings abstracted away
/// (identifiers, times, hashes, signature-dependent values).
pub fn abstract_report(rep: &str) -> String {
    let mut out = String::with_capacity(rep.len());
    let b = rep.as_bytes();
    let mut i = 0;
    let is_hex = |c: u8| c.is_ascii_hexdigit() || c == b'-';
    while i < b.len() {
        if rep[i..].starts_with("urn:c2pa:") || rep[i..].starts_with("xmp:iid:") || rep[i..].starts_with("urn:uuid:") {
            let pre = if rep[i..].starts_with("xmp:iid:") { 8 } else { 9 };
            out.push_str(&rep[i..i + pre]);
            i += pre;
            while i < b.len() && is_hex(b[i]) {
                i += 1;
            }
            out.push_str("<id>");
        } else {
            out.push(b[i] as char);
            i += 1;
        }
    }
    let mut v: serde_json::Value = match out.find(':').and_then(|k| serde_json::from_str(&out[k + 1..]).ok()) {
        Some(v) => v,
        None => return out,
    };
    fn scrub(v: &mut serde_json::Value) {
        match v {
            serde_json::Value::Object(m) => {
                for k in ["time", "hash", "cert_serial_number", "instance_id", "instanceID", "pad", "pad2", "signature", "when"] {
                    if m.contains_key(k) {
                        m.insert(k.to_string(), serde_json::Value::String("<volatile>".into()));
                    }
                }
                for (_, x) in m.iter_mut() {
                    scrub(x);
                }
            }
            serde_json::Value::Array(a) => a.iter_mut().for_each(scrub),
            _ => {}
        }
    }
    scrub(&mut v);
    let state = out.split(':').next().unwrap_or("").to_string();
    format!("{state}:{}", canon_json(&v))
}

/// The model's thread-local number `v` as real legacy settings: `core.merkle_tree_max_proofs = v`
/// and the decompression cap in the parity of `v` (even ↦ 0 MB: nothing may be decompressed).
pub fn tls_json(v: u64) -> String {
    format!(r#"{{"core":{{"merkle_tree_max_proofs":{v},"max_decompressed_manifest_size_in_mb":{}}}}}"#, if v % 2 == 0 { 0 } else { 32 })
}

pub fn set_tls(v: u64) -> bool {
    Settings::from_string(&tls_json(v), "json").is_ok()
}

/// The model's view of the thread-local settings of the calling thread (`x` when the two members
/// do not encode one number).
pub fn tls_value() -> String {
    let t = c2pa::verif_hooks::c25::thread_local_value();
    let v = t.pointer("/core/merkle_tree_max_proofs").and_then(|v| v.as_u64());
    let cap = t.pointer("/core/max_decompressed_manifest_size_in_mb").and_then(|v| v.as_u64());
    match (v, cap) {
        (Some(v), Some(cap)) if cap == if v % 2 == 0 { 0 } else { 32 } => v.to_string(),
        _ => "x".into(),
    }
}

/// ALL keys of the calling thread's legacy settings, canonical.
pub fn tls_full() -> String {
    canon_json(&c2pa::verif_hooks::c25::thread_local_value())
}

/// Legacy thread-local settings that differ from every context used by the harness in a setting
/// that decides results (decompression cap, validation on/off, trust lists, builder defaults).
pub fn poisons() -> Vec<String> {
    let bundle = cert("trust/test_cert_root_bundle.pem");
    let allowed = cert("es256.pub");
    vec![
        r#"{"core":{"max_decompressed_manifest_size_in_mb":0,"merkle_tree_max_proofs":1,"decode_identity_assertions":false}}"#.to_string(),
        r#"{"verify":{"verify_after_reading":false,"verify_after_sign":false}}"#.to_string(),
        serde_json::json!({"trust": {"trust_anchors": bundle, "allowed_list": allowed}, "verify": {"verify_trust": true}}).to_string(),
        r#"{"builder":{"claim_generator_info":{"name":"POISON","version":"9"},"thumbnail":{"enabled":false},"actions":{"auto_created_action":{"enabled":false},"auto_opened_action":{"enabled":false},"auto_placed_action":{"enabled":false}}},"verify":{"verify_trust":false}}"#.to_string(),
    ]
}

/// Named context settings for reads / signs: the base plus ONE setting changed at a time.
pub fn variants() -> Vec<(&'static str, String)> {
    let bundle = cert("trust/test_cert_root_bundle.pem");
    let allowed = cert("es256.pub");
    let allowed2 = cert("ed25519.pub");
    let cfg = cert("trust/store.cfg");
    let t = |name: &str, val: &str| serde_json::json!({"verify": {"remote_manifest_fetch": false, "ocsp_fetch": false}, "trust": {name: val}}).to_string();
    let v = |name: &str, val: bool| serde_json::json!({"verify": {"remote_manifest_fetch": false, "ocsp_fetch": false, name: val}}).to_string();
    vec![
        ("base", base_settings()),
        ("trust_anchors", t("trust_anchors", &bundle)),
        ("user_anchors", t("user_anchors", &bundle)),
        ("trust_config", t("trust_config", &cfg)),
        ("allowed_list", t("allowed_list", &allowed)),
        ("allowed_list2", t("allowed_list", &allowed2)),
        (
            "anchors+allowed",
            serde_json::json!({"verify": {"remote_manifest_fetch": false, "ocsp_fetch": false}, "trust": {"trust_anchors": bundle, "allowed_list": allowed}}).to_string(),
        ),
        ("no_verify_trust", v("verify_trust", false)),
        ("no_verify_after_reading", v("verify_after_reading", false)),
        ("no_identity_decode", format!(r#"{{"verify":{{{NOFETCH}}},"core":{{"decode_identity_assertions":false}}}}"#)),
        ("strict_v1", v("strict_v1_validation", true)),
    ]
}

pub fn variant(name: &str) -> Option<String> {
    variants().into_iter().find(|(n, _)| *n == name).map(|(_, s)| s)
}

/// Sign `src` through a context built from `settings` (which must configure a signer).
pub fn sign_with_settings(settings: &str, fmt: &str, src: &[u8], title: &str) -> c2pa::Result<Vec<u8>> {
    let ctx = Context::new().with_settings(settings)?;
    let mut b = Builder::from_context(ctx).with_definition(vh::sign::definition(title, fmt).as_str())?;
    let mut out = Cursor::new(Vec::new());
    b.save_to_stream(fmt, &mut Cursor::new(src.to_vec()), &mut out)?;
    Ok(out.into_inner())
}

/// A BMFF asset with an *original* + *update* manifest store pair whose original store is
/// brotli-compressed. Reading it goes through `BmffIO::read_cai`, which re-parses both stores with
/// `Store::from_jumbf` — the legacy entry point that takes its decompression cap from the
/// THREAD-LOCAL settings. (The content is not meant to validate; what matters is whether the read
/// gets past the decompression.)
pub fn bmff_compressed_update_asset() -> Result<Vec<u8>, String> {
    let e = |x: Error| format!("{x:?}");
    let src = std::fs::read(fixtures().join("video1_no_manifest.mp4")).map_err(|e| e.to_string())?;
    let s = format!(r#"{{"verify":{{{NOFETCH}}},"core":{{"prefer_compress_manifests":true}},{}}}"#, signer_member("es256"));
    let a = sign_with_settings(&s, "video/mp4", &src, "c24-base").map_err(e)?;
    let ctx = Context::new().with_settings(s.as_str()).map_err(e)?;
    let d = serde_json::json!({
        "title": "c24-update", "format": "video/mp4",
        "claim_generator_info": [{"name": "verif-harness", "version": "0.1"}],
        "assertions": [{"label": "c2pa.actions", "data": {"actions": [{"action": "c2pa.published"}]}}]
    })
    .to_string();
    let mut b = Builder::from_context(ctx).with_definition(d.as_str()).map_err(e)?;
    b.set_intent(c2pa::BuilderIntent::Update);
    let mut out = Cursor::new(Vec::new());
    b.save_to_stream("video/mp4", &mut Cursor::new(a), &mut out).map_err(e)?;
    let asset = out.into_inner();
    // The SDK never compresses a store it embeds in BMFF; another producer may. Replace the payload
    // of the `original` C2PA box by a brotli-compressed store (taken from a JPEG signed with
    // compression): structurally valid, so `BmffIO::read_cai` has to decompress it under its cap.
    let jpg = std::fs::read(fixtures().join("IMG_0003.jpg")).map_err(|e| e.to_string())?;
    let cj = sign_with_settings(&s, "image/jpeg", &jpg, "c24-compressed").map_err(e)?;
    let store = c2pa::jumbf_io::load_jumbf_from_memory("image/jpeg", &cj).map_err(e)?;
    if !store.windows(4).any(|w| w == b"brob") {
        return Err("store not compressed".into());
    }
    replace_c2pa_box_payload(&asset, b"original\0", &store).ok_or_else(|| "no original box".to_string())
}

/// Does a context-based read (default context settings: cap 32 MB) of the crafted asset get past
/// the decompression of its original store?
pub fn leaky_read_allows(asset: &[u8]) -> bool {
    let ctx = match Context::new().with_settings(base_settings().as_str()) {
        Ok(c) => c,
        Err(_) => return false,
    };
    !matches!(Reader::from_context(ctx).with_stream("video/mp4", Cursor::new(asset.to_vec())), Err(Error::JumbfParseError(_)))
}

/// Rewrite the top-level C2PA `uuid` box with the given purpose so that it carries `store`.
pub fn replace_c2pa_box_payload(asset: &[u8], purpose: &[u8], store: &[u8]) -> Option<Vec<u8>> {
    const C2PA_UUID: [u8; 16] = [0xd8, 0xfe, 0xc3, 0xd6, 0x1b, 0x0e, 0x48, 0x3c, 0x92, 0x97, 0x58, 0x28, 0x87, 0x7e, 0xc4, 0x81];
    let mut pos = 0usize;
    while pos + 8 <= asset.len() {
        let size32 = u32::from_be_bytes(asset[pos..pos + 4].try_into().ok()?) as usize;
        let (hdr, size) = if size32 == 1 {
            (16, u64::from_be_bytes(asset.get(pos + 8..pos + 16)?.try_into().ok()?) as usize)
        } else if size32 == 0 {
            (8, asset.len() - pos)
        } else {
            (8, size32)
        };
        if size < hdr || pos + size > asset.len() {
            return None;
        }
        if &asset[pos + 4..pos + 8] == b"uuid" && asset.get(pos + hdr..pos + hdr + 16)? == C2PA_UUID {
            let p = pos + hdr + 16 + 4;
            if asset.get(p..p + purpose.len())? == purpose {
                let payload_start = p + purpose.len() + 8; // purpose + merkle offset
                let mut out = asset[..pos].to_vec();
                let new_size = (payload_start - pos) + store.len();
                let mut head = asset[pos..payload_start].to_vec();
                if hdr == 8 {
                    head[0..4].copy_from_slice(&(new_size as u32).to_be_bytes());
                } else {
                    head[8..16].copy_from_slice(&(new_size as u64).to_be_bytes());
                }
                out.extend_from_slice(&head);
                out.extend_from_slice(store);
                out.extend_from_slice(&asset[pos + size..]);
                return Some(out);
            }
        }
        pos += size;
    }
    None
}
