//! Generators, independent lexers and offset checkers for the container families that are
//! not modelled byte-exactly: BMFF, TIFF, SVG, MP3/FLAC (ID3), JPEG XL; plus the replays
//! of the defects known from the design round (F5, F15).

use crate::common::{fixtures, Rng, Run};
use crate::embed_common::*;
use crate::embed_oracle::{one_case, Ctx};

pub const BMFF_C2PA_UUID: [u8; 16] = [
    0xd8, 0xfe, 0xc3, 0xd6, 0x1b, 0x0e, 0x48, 0x3c, 0x92, 0x97, 0x58, 0x28, 0x87, 0x7e, 0xc4, 0x81,
];

pub fn be32(b: &[u8], o: usize) -> Option<usize> {
    b.get(o..o + 4).map(|x| u32::from_be_bytes([x[0], x[1], x[2], x[3]]) as usize)
}
pub fn be64(b: &[u8], o: usize) -> Option<usize> {
    b.get(o..o + 8).map(|x| u64::from_be_bytes([x[0], x[1], x[2], x[3], x[4], x[5], x[6], x[7]]) as usize)
}

pub fn bx(ty: &[u8; 4], body: &[u8]) -> Vec<u8> {
    let mut v = ((body.len() + 8) as u32).to_be_bytes().to_vec();
    v.extend_from_slice(ty);
    v.extend_from_slice(body);
    v
}

pub fn full(ty: &[u8; 4], version: u8, body: &[u8]) -> Vec<u8> {
    let mut b = vec![version, 0, 0, 0];
    b.extend_from_slice(body);
    bx(ty, &b)
}

pub fn bmff_c2pa_box(store: &[u8]) -> Vec<u8> {
    let mut b = BMFF_C2PA_UUID.to_vec();
    b.extend_from_slice(&[0, 0, 0, 0]);
    b.extend_from_slice(b"manifest\0");
    b.extend_from_slice(&[0; 8]);
    b.extend_from_slice(store);
    bx(b"uuid", &b)
}

/// Layouts: where mdat and an existing C2PA box sit relative to moov.
/// 0: ftyp [c2pa] moov mdat     (all addressed data after the box)
/// 1: ftyp [c2pa] mdat moov
/// 2: ftyp mdat moov [c2pa]     (addressed data before the box — F15)
/// 3: ftyp moov mdat [c2pa]
/// 4: ftyp mdat [c2pa] moov
pub fn gen_mp4(rng: &mut Rng, existing: Option<&Store>, layout: u64, co64: bool) -> Asset {
    let ftyp = bx(b"ftyp", b"isom\0\0\x02\0isomiso2mp41");
    let nsamp = rng.range(1, 5) as usize;
    let samples: Vec<Vec<u8>> = (0..nsamp).map(|_| { let k = rng.range(1, 40) as usize; rng.bytes(k) }).collect();
    let mdat_body: Vec<u8> = samples.concat();
    let mdat = bx(b"mdat", &mdat_body);
    let c2pa = existing.map(|s| bmff_c2pa_box(&s.bytes)).unwrap_or_default();
    let free = if rng.chance(1, 3) { bx(b"free", &rng.bytes(rng.clone().below(12) as usize)) } else { vec![] };

    let build_moov = |offsets: &[usize]| -> Vec<u8> {
        let mut stsz = vec![0u8; 4];
        stsz.extend_from_slice(&(nsamp as u32).to_be_bytes());
        for s in &samples {
            stsz.extend_from_slice(&(s.len() as u32).to_be_bytes());
        }
        let mut st = (nsamp as u32).to_be_bytes().to_vec();
        for o in offsets {
            if co64 {
                st.extend_from_slice(&(*o as u64).to_be_bytes());
            } else {
                st.extend_from_slice(&(*o as u32).to_be_bytes());
            }
        }
        let mut stbl = full(b"stsd", 0, &[0, 0, 0, 0]);
        stbl.extend_from_slice(&full(b"stts", 0, &[0, 0, 0, 1, 0, 0, 0, nsamp as u8, 0, 0, 0, 1]));
        stbl.extend_from_slice(&full(b"stsc", 0, &[0, 0, 0, 1, 0, 0, 0, 1, 0, 0, 0, 1, 0, 0, 0, 1]));
        stbl.extend_from_slice(&full(b"stsz", 0, &stsz));
        stbl.extend_from_slice(&full(if co64 { b"co64" } else { b"stco" }, 0, &st));
        let minf = bx(b"minf", &[full(b"vmhd", 0, &[0; 8]), bx(b"stbl", &stbl)].concat());
        let mdia = bx(b"mdia", &[full(b"mdhd", 0, &[0; 20]), full(b"hdlr", 0, b"\0\0\0\0vide\0\0\0\0\0\0\0\0\0\0\0\0\0"), minf].concat());
        let trak = bx(b"trak", &[full(b"tkhd", 0, &[0; 80]), mdia].concat());
        bx(b"moov", &[full(b"mvhd", 0, &[0; 96]), trak].concat())
    };
    let moov_len = build_moov(&vec![0; nsamp]).len();
    // order of top-level pieces
    let pieces: Vec<&str> = match layout {
        0 => vec!["c2pa", "free", "moov", "mdat"],
        1 => vec!["c2pa", "mdat", "free", "moov"],
        2 => vec!["free", "mdat", "moov", "c2pa"],
        3 => vec!["moov", "free", "mdat", "c2pa"],
        _ => vec!["mdat", "c2pa", "moov", "free"],
    };
    let mut pos = ftyp.len();
    let mut mdat_at = 0;
    for p in &pieces {
        match *p {
            "c2pa" => pos += c2pa.len(),
            "free" => pos += free.len(),
            "moov" => pos += moov_len,
            _ => {
                mdat_at = pos;
                pos += mdat.len();
            }
        }
    }
    let mut offs = vec![];
    let mut o = mdat_at + 8;
    for s in &samples {
        offs.push(o);
        o += s.len();
    }
    let moov = build_moov(&offs);
    let mut b = ftyp;
    for p in &pieces {
        match *p {
            "c2pa" => b.extend_from_slice(&c2pa),
            "free" => b.extend_from_slice(&free),
            "moov" => b.extend_from_slice(&moov),
            _ => b.extend_from_slice(&mdat),
        }
    }
    Asset {
        family: Family::Bmff,
        fmt: "mp4",
        bytes: b,
        desc: format!("mp4-layout{layout}{}{}", if co64 { "+co64" } else { "" }, if existing.is_some() { "+cai" } else { "" }),
        existing: existing.cloned(),
    }
}

pub struct BmffBox {
    pub ty: [u8; 4],
    pub start: usize,
    pub hdr: usize,
    pub end: usize,
}

pub fn bmff_boxes(b: &[u8], mut p: usize, end: usize) -> Option<Vec<BmffBox>> {
    let mut v = vec![];
    while p + 8 <= end {
        let mut size = be32(b, p)?;
        let ty = [b[p + 4], b[p + 5], b[p + 6], b[p + 7]];
        let mut hdr = 8;
        if size == 1 {
            size = be64(b, p + 8)?;
            hdr = 16;
        } else if size == 0 {
            size = end - p;
        }
        if size < hdr || p + size > end {
            return None;
        }
        v.push(BmffBox { ty, start: p, hdr, end: p + size });
        p += size;
    }
    Some(v)
}

fn find_path<'a>(b: &'a [u8], path: &[&[u8; 4]], start: usize, end: usize, out: &mut Vec<(usize, usize)>) {
    if let Some(boxes) = bmff_boxes(b, start, end) {
        for x in boxes {
            if &x.ty == path[0] {
                if path.len() == 1 {
                    out.push((x.start + x.hdr, x.end));
                } else {
                    find_path(b, &path[1..], x.start + x.hdr, x.end, out);
                }
            }
        }
    }
}

/// Sample byte strings addressed through stco/co64 + stsz (one sample per chunk, as generated).
pub fn bmff_samples(b: &[u8]) -> Option<Vec<Result<Vec<u8>, String>>> {
    let mut stbls = vec![];
    find_path(b, &[b"moov", b"trak", b"mdia", b"minf", b"stbl"], 0, b.len(), &mut stbls);
    let mut out = vec![];
    for (s, e) in stbls {
        let mut sizes = vec![];
        let mut offs = vec![];
        for x in bmff_boxes(b, s, e)? {
            let body = x.start + x.hdr + 4;
            match &x.ty {
                b"stsz" => {
                    let n = be32(b, body + 4)?;
                    for i in 0..n {
                        sizes.push(be32(b, body + 8 + 4 * i)?);
                    }
                }
                b"stco" => {
                    let n = be32(b, body)?;
                    for i in 0..n {
                        offs.push(be32(b, body + 4 + 4 * i)?);
                    }
                }
                b"co64" => {
                    let n = be32(b, body)?;
                    for i in 0..n {
                        offs.push(be64(b, body + 4 + 8 * i)?);
                    }
                }
                _ => {}
            }
        }
        for (o, n) in offs.iter().zip(sizes.iter()) {
            out.push(match b.get(*o..*o + *n) {
                Some(x) => Ok(x.to_vec()),
                None => Err(format!("sample at {o}+{n} is outside the {}-byte file", b.len())),
            });
        }
    }
    Some(out)
}

pub fn lex_bmff(b: &[u8]) -> Option<Vec<Item>> {
    let mut v = vec![];
    let fields = crate::embed_frag::offset_fields(b);
    for x in bmff_boxes(b, 0, b.len())? {
        let manifest = &x.ty == b"uuid" && b.get(x.start + x.hdr..x.start + x.hdr + 16) == Some(&BMFF_C2PA_UUID[..]);
        // boxes that carry absolute offsets are compared byte for byte with exactly those
        // fields (stco / co64 / saio entries, file-offset iloc bases and extents, tfhd
        // base_data_offset, tfra moof_offset — found by the independent field finder) zeroed;
        // the addressed bytes are compared by `check_offsets`
        let bytes = if &x.ty == b"moov" || &x.ty == b"meta" || &x.ty == b"moof" || &x.ty == b"mfra" {
            crate::embed_frag::masked(b, x.start, x.end, &fields.fields)
        } else {
            b[x.start..x.end].to_vec()
        };
        v.push(Item { tag: String::from_utf8_lossy(&x.ty).into_owned(), bytes, manifest, start: x.start });
    }
    Some(v)
}

pub fn has_lexer(fam: Family) -> bool {
    !matches!(fam, Family::Sidecar)
}

pub fn lex(fam: Family, b: &[u8]) -> Option<Vec<Item>> {
    match fam {
        Family::Bmff => lex_bmff(b),
        Family::Tiff => crate::embed_lex3::lex_tiff(b),
        Family::Svg => crate::embed_lex3::lex_svg(b),
        Family::Mp3 | Family::Flac => crate::embed_lex3::lex_id3(b),
        Family::Jxl => crate::embed_lex3::lex_jxl(b),
        _ => None,
    }
}

/// C09: every absolute offset stored in the container still addresses the same bytes.
pub fn check_offsets(cx: &mut Ctx, asset: &Asset, before: &[u8], after: &[u8], what: &str) {
    check_offsets_prefixed(cx, asset, before, after, what, "")
}

/// The same with a class prefix (BMFF update-manifest layouts report under `update-…`).
pub fn check_offsets_prefixed(cx: &mut Ctx, asset: &Asset, before: &[u8], after: &[u8], what: &str, prefix: &str) {
    if asset.family != Family::Bmff {
        return;
    }
    let mut sub = Ctx { run: &mut *cx.run, prop: cx.prop, idx: cx.idx, tiff_legacy: cx.tiff_legacy };
    let mut pcx = PrefixCtx { cx: &mut sub, prefix };
    check_offsets_inner(&mut pcx, asset, before, after, what);
}

/// Forwards failures with the class prefixed.
pub struct PrefixCtx<'a, 'b> {
    pub cx: &'a mut Ctx<'b>,
    pub prefix: &'a str,
}

impl PrefixCtx<'_, '_> {
    pub fn fail(&mut self, class: &str, detail: String) {
        self.cx.fail(&format!("{}{class}", self.prefix), detail)
    }
}

fn check_offsets_inner(cx: &mut PrefixCtx, asset: &Asset, before: &[u8], after: &[u8], what: &str) {
    check_iloc_items(cx, asset, before, after, what);
    crate::embed_frag::check_fragments(cx, before, after, what);
    let (Some(a), Some(b)) = (bmff_samples(before), bmff_samples(after)) else { return };
    if a.iter().any(|x| x.is_err()) {
        return; // the input itself was inconsistent
    }
    for (i, (x, y)) in a.iter().zip(b.iter()).enumerate() {
        if x != y {
            let class = if asset.desc.contains("layout2") || asset.desc.contains("layout3") || asset.desc.contains("layout4") {
                "offset-broken-data-before-box"
            } else {
                "offset-broken"
            };
            cx.fail(class, format!("{what}: sample {i} addressed through the chunk-offset table changed: {}", match y { Ok(v) => format!("now {} (was {})", hex::encode(&v[..v.len().min(12)]), hex::encode(&x.as_ref().unwrap()[..x.as_ref().unwrap().len().min(12)])), Err(e) => e.clone() }));
            return;
        }
    }
    if a.len() != b.len() {
        cx.fail("offset-broken", format!("{what}: sample count changed {} -> {}", a.len(), b.len()));
    }
}

/// C09 for HEIF-style item locations: every item resolved per ISO 14496-12 §8.11.3 (file,
/// idat and item construction methods) yields the same bytes before and after.
fn check_iloc_items(cx: &mut PrefixCtx, asset: &Asset, before: &[u8], after: &[u8], what: &str) {
    let Some(a) = crate::embed_heif::heif_items(before) else { return };
    if a.iter().any(|x| x.data.is_err()) {
        return; // the input itself was inconsistent
    }
    let Some(b) = crate::embed_heif::heif_items(after) else {
        cx.fail("offset-broken-iloc", format!("{what}: the item location box can no longer be resolved after the operation"));
        return;
    };
    if a.len() != b.len() {
        cx.fail("offset-broken-iloc", format!("{what}: item count changed {} -> {}", a.len(), b.len()));
        return;
    }
    for (x, y) in a.iter().zip(b.iter()) {
        if x != y {
            let was = x.data.as_ref().map(|v| hex::encode(&v[..v.len().min(12)])).unwrap_or_default();
            cx.fail(
                "offset-broken-iloc",
                format!(
                    "{what}: item {} (construction_method {}) no longer resolves to its data: {} (was {was}…)",
                    x.id,
                    x.cm,
                    match &y.data {
                        Ok(v) => format!("now {}…", hex::encode(&v[..v.len().min(12)])),
                        Err(e) => e.clone(),
                    }
                ),
            );
            return;
        }
    }
}

fn fixture_asset(fam: Family, fmt: &'static str, name: &str) -> Asset {
    let bytes = std::fs::read(fixtures().join(name)).unwrap_or_default();
    Asset { family: fam, fmt, bytes, desc: format!("fixture:{name}"), existing: None }
}

pub fn available(fam: Family) -> bool {
    let _ = fam;
    true
}

pub fn gen_asset(fam: Family, rng: &mut Rng, existing: Option<&Store>) -> Asset {
    match fam {
        Family::Bmff => {
            if rng.chance(1, 3) {
                // fragmented: tfhd base_data_offset / default-base-is-moof, tfra, saio
                let o = crate::embed_frag::gen_frag_opts(rng);
                let layout = if existing.is_some() { rng.below(4) } else { 0 };
                return crate::embed_frag::gen_fmp4(rng, existing, layout, o);
            }
            // without an existing box only the position of mdat matters
            if rng.chance(1, 2) {
                let p = crate::embed_heif::gen_params(rng);
                let layout = if existing.is_some() { rng.below(6) } else { *rng.pick(&[0u64, 1, 5]) };
                return crate::embed_heif::gen_heif(rng, existing, layout, p);
            }
            let layout = if existing.is_some() { rng.below(5) } else { rng.below(2) };
            let co64 = rng.chance(1, 3);
            gen_mp4(rng, existing, layout, co64)
        }
        Family::Tiff => crate::embed_lex3::gen_tiff(rng, existing),
        Family::Svg => crate::embed_lex3::gen_svg(rng, existing),
        Family::Mp3 => crate::embed_lex3::gen_id3(rng, existing, false),
        Family::Flac => crate::embed_lex3::gen_id3(rng, existing, true),
        _ => crate::embed_lex3::gen_jxl(rng, existing),
    }
}

/// Replays of the defects seen in the design round, run first in every tier.
pub fn replays(run: &mut Run, rng: &mut Rng, prop: &'static str) {
    if prop == "C09" {
        // F15: existing C2PA box located after the media data it does not precede
        for layout in [2u64, 3, 4] {
            for co64 in [false, true] {
                for (old, new) in [(100usize, 300usize), (300, 100), (100, 100)] {
                    let mut r = rng.fork();
                    let ex = gen_store(old, 1);
                    let a = gen_mp4(&mut r, Some(&ex), layout, co64);
                    one_case(run, prop, &a, &[Op::Write(gen_store(new, 2))]);
                    one_case(run, prop, &a, &[Op::Remove]);
                }
            }
        }
        run.count("replay_F15");
        // item locations: every (version, construction methods, field sizes) × layout, with
        // and without an existing C2PA box, growing / shrinking / removing
        use crate::embed_heif::{gen_heif, IlocParams};
        for version in 0u8..3 {
            for (offset_size, base_offset_size) in [(4u8, 0u8), (4, 4), (8, 8), (0, 4), (8, 0), (4, 8)] {
                for index_size in if version == 0 { vec![0u8] } else { vec![0u8, 4, 8] } {
                    for layout in 0u64..6 {
                        let p = IlocParams { version, offset_size, length_size: if offset_size == 8 { 8 } else { 4 }, base_offset_size, index_size };
                        let mut r = rng.fork();
                        let ex = gen_store(120, 1);
                        let with = layout >= 2 || r.chance(1, 2);
                        let a = gen_heif(&mut r, if with { Some(&ex) } else { None }, layout, p);
                        let new_len = *r.pick(&[40usize, 120, 300]);
                        one_case(run, prop, &a, &[Op::Write(gen_store(new_len, 2)), Op::Remove]);
                    }
                }
            }
        }
        run.count("replay_iloc");
        // fragmented MP4: every layout × base mode × tfra version × saio version, one and two
        // tracks, 1–3 fragments; growing / shrinking / equal store, then removal
        use crate::embed_frag::{gen_fmp4, FragOpts};
        for layout in 0u64..4 {
            for abs_base in [false, true] {
                for (tfra_v1, saio_v) in [(false, Some(0u8)), (true, Some(1u8)), (false, None)] {
                    for (nfrag, ntracks) in [(1usize, 1usize), (3, 1), (2, 2), (3, 2)] {
                        let o = FragOpts { nfrag, abs_base, tfra_v1, mfra: true, saio_v, ntracks };
                        let mut r = rng.fork();
                        let ex = gen_store(120, 1);
                        let with = layout >= 1 || r.chance(1, 2);
                        let a = gen_fmp4(&mut r, if with { Some(&ex) } else { None }, layout, o);
                        let new_len = *r.pick(&[40usize, 120, 300]);
                        one_case(run, prop, &a, &[Op::Write(gen_store(new_len, 2)), Op::Remove]);
                    }
                }
            }
        }
        run.count("replay_fmp4");
    }
    if prop == "C12" {
        // F5: trailing data after the end marker
        for fam in [Family::Png, Family::Jpeg, Family::Gif] {
            for _ in 0..4 {
                let mut r = rng.fork();
                let ex = gen_store(64, 3);
                let with = r.chance(1, 2);
                let mut a = crate::embed_common::gen_asset(fam, &mut r, if with { Some(&ex) } else { None });
                if !a.desc.contains("trailing") {
                    a.bytes.extend_from_slice(b"TRAILING-DATA");
                    a.desc.push_str("+trailing");
                }
                one_case(run, prop, &a, &[Op::BoxMap]);
            }
        }
        run.count("replay_F5");
        // ISO-box containers with a box map (JPEG XL): largesize headers, size-0 last box,
        // brob / jbrd / unknown boxes, with and without a manifest
        for k in 0..60 {
            let mut r = rng.fork();
            let ex = gen_store(64 + k, 3);
            let with = k % 3 == 0;
            let a = crate::embed_lex3::gen_jxl(&mut r, if with { Some(&ex) } else { None });
            one_case(run, prop, &a, &[Op::BoxMap, Op::Write(gen_store(50 + k, 4)), Op::BoxMap, Op::Remove, Op::BoxMap]);
        }
        run.count("replay_jxl_boxes");
        // a JPEG XL container whose last box is ftyp (no codestream yet): the placeholder /
        // the inserted jumb box belongs after ftyp, not between the signature box and ftyp
        {
            let mut b = vec![0, 0, 0, 0x0c, 0x4a, 0x58, 0x4c, 0x20, 0x0d, 0x0a, 0x87, 0x0a];
            b.extend_from_slice(&bx(b"ftyp", b"jxl \0\0\0\0jxl "));
            let a = Asset { family: Family::Jxl, fmt: "jxl", bytes: b, desc: "jxl-ftyp-last+MUTATED9".into(), existing: None };
            one_case(run, prop, &a, &[Op::BoxMap, Op::Write(gen_store(60, 4)), Op::BoxMap]);
            run.count("replay_jxl_ftyp_last");
        }
    }
}
