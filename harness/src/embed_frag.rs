//! Fragmented MP4 (moov+mvex, moof/traf/tfhd/trun + mdat fragments, mfra/tfra/mfro, saio in
//! the sample table) generator, an **independent** finder of every absolute-offset field of a
//! BMFF file (stco, co64, saio, iloc base/extent, tfhd base_data_offset, tfra moof_offset),
//! independent media extractors through those fields (fragment samples, random-access
//! targets, auxiliary information), masking of the offset fields for the byte comparison of
//! moov/meta/moof/mfra, the differential driver of `adjust_known_offsets_from` against the
//! Lean table model (Model/C09Bmff.lean), BMFF update-manifest layouts and fixture assets.

use std::io::Cursor;

use c2pa::verif_hooks::c09 as hook9;

use crate::common::{fixtures, guarded, Rng, Run};
use crate::embed_common::*;
use crate::embed_lex2::{be32, bmff_boxes, bmff_c2pa_box, bx, full, BMFF_C2PA_UUID};
use crate::embed_oracle::{one_case, Ctx};

// ───────────────────────── generator ─────────────────────────

#[derive(Clone, Copy, Debug)]
pub struct FragOpts {
    pub nfrag: usize,
    /// tfhd carries an absolute base_data_offset (flag 0x000001); otherwise default-base-is-moof
    pub abs_base: bool,
    /// tfra version 1 (64-bit time / moof_offset)
    pub tfra_v1: bool,
    pub mfra: bool,
    /// `saio` (+ `saiz`) in the sample table pointing at auxiliary data in a top-level mdat
    pub saio_v: Option<u8>,
    pub ntracks: usize,
}

pub fn gen_frag_opts(rng: &mut Rng) -> FragOpts {
    FragOpts {
        nfrag: rng.range(1, 3) as usize,
        abs_base: rng.chance(1, 2),
        tfra_v1: rng.chance(1, 2),
        mfra: rng.chance(3, 4),
        saio_v: match rng.below(3) {
            0 => None,
            1 => Some(0),
            _ => Some(1),
        },
        ntracks: if rng.chance(1, 3) { 2 } else { 1 },
    }
}

fn fullf(ty: &[u8; 4], version: u8, flags: u32, body: &[u8]) -> Vec<u8> {
    let mut b = vec![version, (flags >> 16) as u8, (flags >> 8) as u8, flags as u8];
    b.extend_from_slice(body);
    bx(ty, &b)
}

/// Layouts (the C2PA box is present only with `existing`):
/// 0: ftyp [c2pa] moov aux frag* mfra     1: ftyp moov aux [c2pa] frag* mfra
/// 2: ftyp moov aux frag0 [c2pa] frag1.. mfra     3: ftyp moov aux frag* mfra [c2pa]
pub fn gen_fmp4(rng: &mut Rng, existing: Option<&Store>, layout: u64, o: FragOpts) -> Asset {
    let ftyp = bx(b"ftyp", b"iso5\0\0\x02\0iso5iso6mp41");
    let c2pa = existing.map(|s| bmff_c2pa_box(&s.bytes)).unwrap_or_default();
    // per fragment: samples
    let frags: Vec<Vec<Vec<u8>>> = (0..o.nfrag).map(|_| (0..rng.range(1, 3)).map(|_| { let k = rng.range(1, 30) as usize; rng.bytes(k) }).collect()).collect();
    let naux = rng.range(1, 2) as usize;
    let aux: Vec<u8> = rng.bytes(8 * naux);
    let abs_at_mdat: Vec<bool> = (0..o.nfrag).map(|_| rng.chance(1, 2)).collect();

    let build_moov = |aux_at: usize| -> Vec<u8> {
        let mut traks = vec![];
        for t in 0..o.ntracks {
            let mut stbl = full(b"stsd", 0, &[0, 0, 0, 0]);
            stbl.extend_from_slice(&full(b"stts", 0, &[0, 0, 0, 0]));
            stbl.extend_from_slice(&full(b"stsc", 0, &[0, 0, 0, 0]));
            stbl.extend_from_slice(&full(b"stsz", 0, &[0, 0, 0, 0, 0, 0, 0, 0]));
            stbl.extend_from_slice(&full(b"stco", 0, &[0, 0, 0, 0]));
            if let (Some(v), 0) = (o.saio_v, t) {
                // saiz: default_sample_info_size 8, sample_count naux
                let mut z = vec![8u8];
                z.extend_from_slice(&(naux as u32).to_be_bytes());
                stbl.extend_from_slice(&full(b"saiz", 0, &z));
                let mut s = (naux as u32).to_be_bytes().to_vec();
                for i in 0..naux {
                    let off = (aux_at + 8 + 8 * i) as u64;
                    if v == 0 {
                        s.extend_from_slice(&(off as u32).to_be_bytes());
                    } else {
                        s.extend_from_slice(&off.to_be_bytes());
                    }
                }
                stbl.extend_from_slice(&full(b"saio", v, &s));
            }
            let minf = bx(b"minf", &[full(b"vmhd", 0, &[0; 8]), bx(b"stbl", &stbl)].concat());
            let mdia = bx(b"mdia", &[full(b"mdhd", 0, &[0; 20]), full(b"hdlr", 0, b"\0\0\0\0vide\0\0\0\0\0\0\0\0\0\0\0\0\0"), minf].concat());
            let mut tk = vec![0u8; 80];
            tk[8..12].copy_from_slice(&((t + 1) as u32).to_be_bytes());
            traks.push(bx(b"trak", &[full(b"tkhd", 0, &tk), mdia].concat()));
        }
        let mut trex = vec![];
        for t in 0..o.ntracks {
            let mut x = ((t + 1) as u32).to_be_bytes().to_vec();
            x.extend_from_slice(&[0, 0, 0, 1, 0, 0, 0, 0, 0, 0, 0, 0, 0, 0, 0, 0]);
            trex.extend_from_slice(&full(b"trex", 0, &x));
        }
        let mut kids = full(b"mvhd", 0, &[0; 96]);
        for t in traks {
            kids.extend_from_slice(&t);
        }
        kids.extend_from_slice(&bx(b"mvex", &trex));
        bx(b"moov", &kids)
    };
    let build_frag = |k: usize, at: usize| -> Vec<u8> {
        let tid = (k % o.ntracks + 1) as u32;
        let mfhd = full(b"mfhd", 0, &((k + 1) as u32).to_be_bytes());
        let mk = |base: u64, data_offset: i32| -> Vec<u8> {
            let mut th = tid.to_be_bytes().to_vec();
            let flags = if o.abs_base {
                th.extend_from_slice(&base.to_be_bytes());
                0x000001
            } else {
                0x020000
            };
            let tfhd = fullf(b"tfhd", 0, flags, &th);
            let mut tr = (frags[k].len() as u32).to_be_bytes().to_vec();
            tr.extend_from_slice(&data_offset.to_be_bytes());
            for s in &frags[k] {
                tr.extend_from_slice(&(s.len() as u32).to_be_bytes());
            }
            let trun = fullf(b"trun", 0, 0x000201, &tr);
            bx(b"moof", &[mfhd.clone(), bx(b"traf", &[tfhd, trun].concat())].concat())
        };
        let moof_len = mk(0, 0).len();
        let moof = if o.abs_base && abs_at_mdat[k] { mk((at + moof_len + 8) as u64, 0) } else { mk(at as u64, (moof_len + 8) as i32) };
        [moof, bx(b"mdat", &frags[k].concat())].concat()
    };
    let build_mfra = |moof_at: &[usize]| -> Vec<u8> {
        let mut kids = vec![];
        for t in 0..o.ntracks {
            let mine: Vec<usize> = (0..o.nfrag).filter(|k| k % o.ntracks == t).collect();
            let mut x = ((t + 1) as u32).to_be_bytes().to_vec();
            x.extend_from_slice(&[0, 0, 0, 0]); // all three length fields one byte wide
            x.extend_from_slice(&(mine.len() as u32).to_be_bytes());
            for (i, k) in mine.iter().enumerate() {
                if o.tfra_v1 {
                    x.extend_from_slice(&((i * 1000) as u64).to_be_bytes());
                    x.extend_from_slice(&(moof_at[*k] as u64).to_be_bytes());
                } else {
                    x.extend_from_slice(&((i * 1000) as u32).to_be_bytes());
                    x.extend_from_slice(&(moof_at[*k] as u32).to_be_bytes());
                }
                x.extend_from_slice(&[1, 1, 1]);
            }
            kids.extend_from_slice(&full(b"tfra", if o.tfra_v1 { 1 } else { 0 }, &x));
        }
        let size = 8 + kids.len() + 16;
        kids.extend_from_slice(&full(b"mfro", 0, &(size as u32).to_be_bytes()));
        bx(b"mfra", &kids)
    };
    // piece order
    let mut pieces: Vec<String> = vec!["moov".into(), "aux".into()];
    for k in 0..o.nfrag {
        pieces.push(format!("f{k}"));
    }
    if o.mfra {
        pieces.push("mfra".into());
    }
    if existing.is_some() {
        let at = match layout {
            0 => 0,
            1 => 2,
            2 => 3.min(pieces.len()),
            _ => pieces.len(),
        };
        pieces.insert(at, "c2pa".into());
    }
    let moov_len = build_moov(0).len();
    let aux_box = bx(b"mdat", &aux);
    let mfra_len = build_mfra(&vec![0; o.nfrag]).len();
    let mut at = ftyp.len();
    let mut aux_at = 0;
    let mut frag_at = vec![0usize; o.nfrag];
    for p in &pieces {
        match p.as_str() {
            "c2pa" => at += c2pa.len(),
            "moov" => at += moov_len,
            "aux" => {
                aux_at = at;
                at += aux_box.len();
            }
            "mfra" => at += mfra_len,
            f => {
                let k: usize = f[1..].parse().unwrap_or(0);
                frag_at[k] = at;
                at += build_frag(k, 0).len();
            }
        }
    }
    let mut b = ftyp;
    for p in &pieces {
        match p.as_str() {
            "c2pa" => b.extend_from_slice(&c2pa),
            "moov" => b.extend_from_slice(&build_moov(aux_at)),
            "aux" => b.extend_from_slice(&aux_box),
            "mfra" => b.extend_from_slice(&build_mfra(&frag_at)),
            f => {
                let k: usize = f[1..].parse().unwrap_or(0);
                b.extend_from_slice(&build_frag(k, frag_at[k]));
            }
        }
    }
    Asset {
        family: Family::Bmff,
        fmt: "mp4",
        bytes: b,
        desc: format!(
            "fmp4-layout{layout}-n{}t{}{}{}{}{}",
            o.nfrag,
            o.ntracks,
            if o.abs_base { "+tfhdbase" } else { "+basemoof" },
            if o.mfra { if o.tfra_v1 { "+tfra1" } else { "+tfra0" } } else { "" },
            match o.saio_v { Some(0) => "+saio0", Some(_) => "+saio1", None => "" },
            if existing.is_some() { "+cai" } else { "" }
        ),
        existing: existing.cloned(),
    }
}

// ───────────────────────── independent offset-field finder ─────────────────────────

#[derive(Clone, Debug, PartialEq)]
pub struct OffField {
    /// stco | co64 | saio | tfhd | tfra | ilocb | iloce
    pub kind: &'static str,
    pub path: String,
    pub pos: usize,
    pub width: usize,
    pub value: u64,
    /// iloc: construction method of the item
    pub cm: u8,
    /// iloc extent: base_offset of its item
    pub base: u64,
    /// tfhd / tfra: track id
    pub tid: u32,
}

fn rdn(b: &[u8], o: usize, w: usize) -> Option<u64> {
    let s = b.get(o..o.checked_add(w)?)?;
    Some(s.iter().fold(0u64, |a, x| (a << 8) | *x as u64))
}

#[derive(Default)]
pub struct OffsetMap {
    pub fields: Vec<OffField>,
    /// (track id, start of the enclosing moof) per tfhd in file order
    pub moofs: Vec<(u32, usize)>,
    /// a box on one of the adjusted paths could not be parsed
    pub broken: Option<String>,
}

fn walk_fields(b: &[u8], start: usize, end: usize, path: &str, moof_at: usize, out: &mut OffsetMap) {
    let Some(boxes) = bmff_boxes(b, start, end) else {
        if !path.is_empty() {
            out.broken = Some(format!("children of {path} do not tile"));
        }
        return;
    };
    for x in boxes {
        let p = format!("{path}/{}", String::from_utf8_lossy(&x.ty));
        let body = x.start + x.hdr;
        match p.as_str() {
            "/moov" | "/moov/trak" | "/moov/trak/mdia" | "/moov/trak/mdia/minf" | "/moov/trak/mdia/minf/stbl" | "/moof/traf" | "/mfra" => walk_fields(b, body, x.end, &p, moof_at, out),
            "/moof" => walk_fields(b, body, x.end, &p, x.start, out),
            "/meta" => walk_fields(b, body + 4, x.end, &p, moof_at, out),
            "/moov/trak/mdia/minf/stbl/stco" | "/moov/trak/mdia/minf/stbl/co64" => {
                let w = if &x.ty == b"stco" { 4 } else { 8 };
                let Some(n) = be32(b, body + 4) else { out.broken = Some(p); continue };
                for i in 0..n {
                    let pos = body + 8 + w * i;
                    let Some(v) = rdn(b, pos, w) else { out.broken = Some(p.clone()); break };
                    if pos + w > x.end {
                        out.broken = Some(p.clone());
                        break;
                    }
                    out.fields.push(OffField { kind: if w == 4 { "stco" } else { "co64" }, path: p.clone(), pos, width: w, value: v, cm: 0, base: 0, tid: 0 });
                }
            }
            "/moov/trak/mdia/minf/stbl/saio" => {
                let (Some(version), Some(flags)) = (b.get(body).copied(), rdn(b, body + 1, 3)) else { out.broken = Some(p); continue };
                let mut q = body + 4;
                if flags & 1 == 1 {
                    q += 8;
                }
                let Some(n) = be32(b, q) else { out.broken = Some(p); continue };
                let w = if version == 0 { 4 } else { 8 };
                for i in 0..n {
                    let pos = q + 4 + w * i;
                    let Some(v) = rdn(b, pos, w) else { out.broken = Some(p.clone()); break };
                    out.fields.push(OffField { kind: "saio", path: p.clone(), pos, width: w, value: v, cm: 0, base: 0, tid: 0 });
                }
            }
            "/moof/traf/tfhd" => {
                let (Some(flags), Some(tid)) = (rdn(b, body + 1, 3), be32(b, body + 4)) else { out.broken = Some(p); continue };
                out.moofs.push((tid as u32, moof_at));
                if flags & 1 == 1 {
                    let Some(v) = rdn(b, body + 8, 8) else { out.broken = Some(p); continue };
                    out.fields.push(OffField { kind: "tfhd", path: p.clone(), pos: body + 8, width: 8, value: v, cm: 0, base: 0, tid: tid as u32 });
                }
            }
            "/mfra/tfra" => {
                let (Some(version), Some(tid), Some(info), Some(n)) = (b.get(body).copied(), be32(b, body + 4), be32(b, body + 8), be32(b, body + 12)) else { out.broken = Some(p); continue };
                let extra = ((info >> 4) & 3) + 1 + ((info >> 2) & 3) + 1 + (info & 3) + 1;
                let w = if version == 1 { 8 } else { 4 };
                let mut q = body + 16;
                for _ in 0..n {
                    let pos = q + w;
                    let Some(v) = rdn(b, pos, w) else { out.broken = Some(p.clone()); break };
                    out.fields.push(OffField { kind: "tfra", path: p.clone(), pos, width: w, value: v, cm: 0, base: 0, tid: tid as u32 });
                    q = pos + w + extra;
                }
            }
            "/meta/iloc" => {
                if iloc_fields(b, body, &p, out).is_none() {
                    out.broken = Some(p);
                }
            }
            _ => {}
        }
    }
}

fn iloc_fields(b: &[u8], body: usize, p: &str, out: &mut OffsetMap) -> Option<()> {
    let version = *b.get(body)?;
    let x = *b.get(body + 4)?;
    let y = *b.get(body + 5)?;
    let (offset_size, length_size, base_size, index_size) = ((x >> 4) as usize, (x & 15) as usize, (y >> 4) as usize, (y & 15) as usize);
    let mut o = body + 6;
    let wide = version >= 2;
    let count = rdn(b, o, if wide { 4 } else { 2 })?;
    o += if wide { 4 } else { 2 };
    for _ in 0..count {
        o += if wide { 4 } else { 2 };
        let cm = if version == 1 || version == 2 {
            let c = rdn(b, o, 2)?;
            o += 2;
            (c & 15) as u8
        } else {
            0
        };
        o += 2;
        let base = rdn(b, o, base_size)?;
        if base_size > 0 {
            out.fields.push(OffField { kind: "ilocb", path: p.to_string(), pos: o, width: base_size, value: base, cm, base: 0, tid: 0 });
        }
        o += base_size;
        let ec = rdn(b, o, 2)?;
        o += 2;
        for _ in 0..ec {
            if (version == 1 || version == 2) && index_size > 0 {
                o += index_size;
            }
            let eo = rdn(b, o, offset_size)?;
            if offset_size > 0 {
                out.fields.push(OffField { kind: "iloce", path: p.to_string(), pos: o, width: offset_size, value: eo, cm, base, tid: 0 });
            }
            o += offset_size;
            rdn(b, o, length_size)?;
            o += length_size;
        }
    }
    Some(())
}

pub fn offset_fields(b: &[u8]) -> OffsetMap {
    let mut m = OffsetMap::default();
    walk_fields(b, 0, b.len(), "", 0, &mut m);
    m
}

/// Is this field one that holds an absolute file offset (and is therefore excluded from the
/// byte comparison of its box and compared through the data it addresses instead)?
fn is_absolute(f: &OffField) -> bool {
    !matches!(f.kind, "ilocb" | "iloce") || f.cm == 0
}

/// The bytes `start..end` of `b` with every absolute-offset field zeroed.
pub fn masked(b: &[u8], start: usize, end: usize, fields: &[OffField]) -> Vec<u8> {
    let mut v = b[start..end].to_vec();
    for f in fields {
        if is_absolute(f) && f.pos >= start && f.pos + f.width <= end {
            for c in v[f.pos - start..f.pos - start + f.width].iter_mut() {
                *c = 0;
            }
        }
    }
    v
}

// ───────────────────────── media through the fragment structures ─────────────────────────

#[derive(Debug, PartialEq, Default)]
pub struct FragView {
    /// per moof, per traf, per trun sample: the sample bytes
    pub samples: Vec<Result<Vec<u8>, String>>,
    /// per tfra entry: mfhd sequence number of the moof found at moof_offset
    pub tfra: Vec<Result<u32, String>>,
    /// per saio entry of the sample tables: 8 bytes of auxiliary information
    pub saio: Vec<Result<Vec<u8>, String>>,
}

pub fn frag_view(b: &[u8]) -> Option<FragView> {
    let top = bmff_boxes(b, 0, b.len())?;
    let mut v = FragView::default();
    for m in top.iter().filter(|x| &x.ty == b"moof") {
        let mut prev_end = m.start;
        for t in bmff_boxes(b, m.start + m.hdr, m.end)?.iter().filter(|x| &x.ty == b"traf") {
            let kids = bmff_boxes(b, t.start + t.hdr, t.end)?;
            let Some(th) = kids.iter().find(|x| &x.ty == b"tfhd") else { continue };
            let body = th.start + th.hdr;
            let flags = rdn(b, body + 1, 3)?;
            let mut q = body + 8;
            let mut base = if flags & 0x020000 != 0 { m.start as u64 } else { prev_end as u64 };
            if flags & 1 != 0 {
                base = rdn(b, q, 8)?;
                q += 8;
            }
            if flags & 2 != 0 {
                q += 4;
            }
            if flags & 8 != 0 {
                q += 4;
            }
            let default_size = if flags & 0x10 != 0 { Some(rdn(b, q, 4)?) } else { None };
            let mut cursor = base;
            for tr in kids.iter().filter(|x| &x.ty == b"trun") {
                let tb = tr.start + tr.hdr;
                let tf = rdn(b, tb + 1, 3)?;
                let n = rdn(b, tb + 4, 4)?;
                let mut r = tb + 8;
                if tf & 1 != 0 {
                    let d = rdn(b, r, 4)? as u32 as i32;
                    cursor = (base as i64 + d as i64) as u64;
                    r += 4;
                }
                if tf & 4 != 0 {
                    r += 4;
                }
                for _ in 0..n.min(100_000) {
                    if tf & 0x100 != 0 {
                        r += 4;
                    }
                    let size = if tf & 0x200 != 0 {
                        let s = rdn(b, r, 4)?;
                        r += 4;
                        s
                    } else {
                        default_size.unwrap_or(0)
                    };
                    if tf & 0x400 != 0 {
                        r += 4;
                    }
                    if tf & 0x800 != 0 {
                        r += 4;
                    }
                    if size == 0 {
                        continue;
                    }
                    v.samples.push(match b.get(cursor as usize..(cursor + size) as usize) {
                        Some(x) => Ok(x.to_vec()),
                        None => Err(format!("fragment sample at {cursor}+{size} is outside the {}-byte file", b.len())),
                    });
                    cursor += size;
                }
            }
            prev_end = cursor as usize;
        }
    }
    let m = offset_fields(b);
    for f in &m.fields {
        match f.kind {
            "tfra" => {
                let o = f.value as usize;
                let r = if b.get(o + 4..o + 8) == Some(b"moof") {
                    let size = be32(b, o).unwrap_or(0);
                    match bmff_boxes(b, o + 8, (o + size).min(b.len())).and_then(|k| k.into_iter().find(|x| &x.ty == b"mfhd")) {
                        Some(h) => be32(b, h.start + h.hdr + 4).map(|s| s as u32).ok_or("mfhd too short".to_string()),
                        None => Err(format!("moof at {o} without mfhd")),
                    }
                } else {
                    Err(format!("moof_offset {o} of track {} does not address a moof box", f.tid))
                };
                v.tfra.push(r);
            }
            "saio" => {
                let o = f.value as usize;
                v.saio.push(b.get(o..o + 8).map(|x| x.to_vec()).ok_or(format!("auxiliary information offset {o} is outside the {}-byte file", b.len())));
            }
            _ => {}
        }
    }
    Some(v)
}

/// C09 for fragmented files: samples through tfhd/trun, tfra random-access targets and saio
/// auxiliary data are the same before and after.
pub fn check_fragments(cx: &mut crate::embed_lex2::PrefixCtx, before: &[u8], after: &[u8], what: &str) {
    let (Some(a), Some(b)) = (frag_view(before), frag_view(after)) else { return };
    if a.samples.iter().any(|x| x.is_err()) || a.tfra.iter().any(|x| x.is_err()) || a.saio.iter().any(|x| x.is_err()) {
        return; // the input itself was inconsistent
    }
    fn first<T: PartialEq + std::fmt::Debug>(x: &[T], y: &[T]) -> Option<String> {
        if x.len() != y.len() {
            return Some(format!("count {} -> {}", x.len(), y.len()));
        }
        x.iter().zip(y.iter()).enumerate().find(|(_, (p, q))| p != q).map(|(i, (p, q))| format!("entry {i}: {} -> {}", trunc(&format!("{p:?}")), trunc(&format!("{q:?}"))))
    }
    if let Some(d) = first(&a.samples, &b.samples) {
        cx.fail("offset-broken-tfhd", format!("{what}: fragment samples addressed through tfhd/trun changed: {d}"));
    }
    if let Some(d) = first(&a.tfra, &b.tfra) {
        cx.fail("offset-broken-tfra", format!("{what}: tfra random-access entries no longer address their movie fragment (mfhd sequence numbers): {d}"));
    }
    if let Some(d) = first(&a.saio, &b.saio) {
        cx.fail("offset-broken-saio", format!("{what}: auxiliary information addressed through saio changed: {d}"));
    }
}

fn trunc(s: &str) -> String {
    s.chars().take(80).collect()
}

// ───────────────────────── differential: adjust_known_offsets_from vs the Lean table model ─────────────────────────

fn field_tok(f: &OffField) -> String {
    format!("{}.{}.{}.{}.{}.{}", f.kind, f.width, f.value, f.cm, f.base, f.tid)
}

/// One request: the offset fields of `bytes` (independent finder), `adjust`, `pivot`; reply =
/// the values of those fields after the real `adjust_known_offsets_from`, or `err`.
pub fn adjust_case(run: &mut Run, bytes: &[u8], adjust: i64, pivot: u64, what: &str) {
    let m = offset_fields(bytes);
    if m.broken.is_some() {
        run.count("adjust_case_skipped_unparsable");
        return;
    }
    let b2 = bytes.to_vec();
    let r = guarded(move || {
        let mut c = Cursor::new(b2);
        hook9::adjust_known_offsets_from(&mut c, adjust, pivot).map(|_| c.into_inner())
    });
    let reply = match &r {
        Ok(Ok(out)) => {
            let after = offset_fields(out);
            if after.fields.len() != m.fields.len() {
                "shape-changed".to_string()
            } else if after.fields.is_empty() {
                "-".to_string()
            } else {
                after.fields.iter().map(|f| f.value.to_string()).collect::<Vec<_>>().join(",")
            }
        }
        Ok(Err(_)) => "err".to_string(),
        Err(_) => "panic".to_string(),
    };
    let fields = if m.fields.is_empty() { "-".to_string() } else { m.fields.iter().map(field_tok).collect::<Vec<_>>().join(",") };
    let moofs = if m.moofs.is_empty() { "-".to_string() } else { m.moofs.iter().map(|(t, o)| format!("{t}@{o}")).collect::<Vec<_>>().join(",") };
    let idx = run.case(format!("C09 bmffadj adj={adjust} pivot={pivot} moofs={moofs} fields={fields}"), reply.clone());
    run.count("bmffadj_cases");
    for f in &m.fields {
        run.count(&format!("bmffadj_field_{}{}", f.kind, f.width));
    }
    if reply != "err" && reply != "panic" && !m.fields.is_empty() {
        run.nontrivial(format!("bmffadj {what} adj={adjust} pivot={pivot}"));
    }
    match &r {
        Err(p) => run.fail(idx, "panic", format!("{what}: adjust_known_offsets_from panics: {p}")),
        Ok(Ok(out)) => {
            // nothing but the offset fields may change
            let all: Vec<OffField> = m.fields.clone();
            if out.len() != bytes.len() || masked(out, 0, out.len(), &all) != masked(bytes, 0, bytes.len(), &all) {
                run.fail(idx, "adjust-touches-other-bytes", format!("{what}: adjust_known_offsets_from(adj={adjust}, pivot={pivot}) changed bytes outside the absolute-offset fields"));
            }
        }
        _ => {}
    }
}

/// `adjust_offset` / `adjust_offset_u32` on single values (boundaries of u32 / u64 / i64).
pub fn adjust_scalar_cases(run: &mut Run, rng: &mut Rng, n: usize) {
    let edge: [u64; 12] = [0, 1, 7, 8, 9, 0x7fff_ffff, 0xffff_fffe, 0xffff_ffff, 0x1_0000_0000, 0x7fff_ffff_ffff_ffff, u64::MAX - 1, u64::MAX];
    let adj_edge: [i64; 12] = [0, 1, -1, 8, -8, 300, -300, 0x7fff_ffff, -0x8000_0000, 0x1_0000_0000, i64::MAX, i64::MIN];
    for i in 0..n {
        let o = if i % 3 == 0 { *rng.pick(&edge) } else { rng.below(2000) };
        let adj = if i % 2 == 0 { *rng.pick(&adj_edge) } else { rng.below(600) as i64 - 300 };
        let pivot = match rng.below(4) {
            0 => o,
            1 => o.wrapping_add(1),
            2 => o.saturating_sub(1),
            _ => rng.below(2000),
        };
        let w32 = o <= u32::MAX as u64 && rng.chance(1, 2);
        let reply = if w32 {
            match hook9::adjust_offset_u32(o as u32, adj, pivot) {
                Ok(v) => v.to_string(),
                Err(_) => "err".into(),
            }
        } else {
            match hook9::adjust_offset(o, adj, pivot) {
                Ok(v) => v.to_string(),
                Err(_) => "err".into(),
            }
        };
        run.case(format!("C09 adjoff w={} o={o} adj={adj} pivot={pivot}", if w32 { 4 } else { 8 }), reply);
        run.count("adjoff_cases");
    }
}

/// Differential cases over every BMFF generator and the fixtures.
pub fn adjust_table_cases(run: &mut Run, rng: &mut Rng, thorough: bool) {
    adjust_scalar_cases(run, rng, if thorough { 3000 } else { 400 });
    let mut assets: Vec<Asset> = vec![];
    let n = if thorough { 400 } else { 70 };
    for i in 0..n {
        let mut r = rng.fork();
        let ex = gen_store(60 + i, 5);
        let with = i % 2 == 0;
        let e = if with { Some(&ex) } else { None };
        let fo = gen_frag_opts(&mut r);
        assets.push(match i % 3 {
            0 => gen_fmp4(&mut r, e, (i as u64 / 3) % 4, fo),
            1 => crate::embed_lex2::gen_mp4(&mut r, e, (i as u64 / 3) % 5, i % 2 == 1),
            _ => {
                let p = crate::embed_heif::gen_params(&mut r);
                crate::embed_heif::gen_heif(&mut r, e, (i as u64 / 3) % 6, p)
            }
        });
    }
    for a in fixture_assets() {
        if a.family == Family::Bmff && a.bytes.len() < 1_200_000 {
            assets.push(a);
        }
    }
    for a in &assets {
        let m = offset_fields(&a.bytes);
        let mut vals: Vec<u64> = m.fields.iter().map(|f| f.value).collect();
        vals.push(a.bytes.len() as u64);
        let reps = if a.desc.starts_with("fixture") { 3 } else { 8 };
        let min_val = vals.iter().copied().filter(|v| *v > 0).min().unwrap_or(0);
        for k in 0..reps {
            let pivot = match k % 4 {
                0 => *rng.pick(&vals),
                1 => rng.pick(&vals).wrapping_add(1),
                // at or below the smallest non-zero offset: every field moves
                2 => min_val.saturating_sub(rng.below(2)),
                _ => rng.below(a.bytes.len() as u64 + 2),
            };
            let adj = match rng.below(8) {
                0 => 0,
                1 => -(rng.below(a.bytes.len() as u64 + 40) as i64),
                // just below / above the u32 range for the offsets of these files
                2 | 3 => 0xffff_ff00 - rng.below(a.bytes.len() as u64 + 0x200) as i64 + rng.below(0x400) as i64,
                4 => i64::MAX - rng.below(3) as i64,
                _ => rng.below(700) as i64 - 100,
            };
            adjust_case(run, &a.bytes, adj, pivot, &a.desc);
        }
        // exactly at the u32 boundary of the largest 4-byte field: one below fits, the next fails
        if let Some(max32) = m.fields.iter().filter(|f| f.width == 4).map(|f| f.value).max() {
            if !a.desc.starts_with("fixture") {
                let fit = 0xffff_ffffi64 - max32 as i64;
                adjust_case(run, &a.bytes, fit, min_val, &a.desc);
                adjust_case(run, &a.bytes, fit + 1, min_val, &a.desc);
                adjust_case(run, &a.bytes, fit + 1, max32, &a.desc);
            }
        }
    }
}

// ───────────────────────── fixtures ─────────────────────────

/// Real files of sdk/tests/fixtures, one or two per container family (with and without an
/// existing manifest where the repository has both).
pub fn fixture_assets() -> Vec<Asset> {
    let list: [(Family, &'static str, &'static str); 24] = [
        (Family::Jpeg, "jpg", "IMG_0003.jpg"),
        (Family::Jpeg, "jpg", "CA.jpg"),
        (Family::Png, "png", "libpng-test.png"),
        (Family::Gif, "gif", "sample1.gif"),
        (Family::Riff, "wav", "sample1.wav"),
        (Family::Riff, "webp", "test.webp"),
        (Family::Riff, "webp", "sample1.webp"),
        (Family::Riff, "avi", "test.avi"),
        (Family::Bmff, "mp4", "video1_no_manifest.mp4"),
        (Family::Bmff, "mp4", "video1.mp4"),
        (Family::Bmff, "mp4", "legacy.mp4"),
        (Family::Bmff, "mp4", "dashinit.mp4"),
        // (nested_moov_1000.mp4 is a deliberately malformed file: boxes nested 1000 deep)
        (Family::Tiff, "tif", "MultiPage.tif"),
        (Family::Bmff, "heic", "sample1.heic"),
        (Family::Bmff, "heif", "sample1.heif"),
        (Family::Bmff, "avif", "sample1.avif"),
        (Family::Bmff, "m4a", "sample1.m4a"),
        (Family::Bmff, "mov", "c.mov"),
        (Family::Tiff, "tif", "TUSCANY.TIF"),
        (Family::Svg, "svg", "sample1.svg"),
        (Family::Mp3, "mp3", "sample1.mp3"),
        (Family::Flac, "flac", "sample1.flac"),
        (Family::Jxl, "jxl", "sample1.jxl"),
        (Family::Png, "png", "exp-test1.png"),
    ];
    let mut v = vec![];
    for (family, fmt, name) in list {
        let Ok(bytes) = std::fs::read(fixtures().join(name)) else { continue };
        if bytes.is_empty() {
            continue;
        }
        let existing = match op_read(fmt, &bytes) {
            ReadRes::Ok(s) => Some(lit_store(&s)),
            _ => None,
        };
        v.push(Asset { family, fmt, bytes, desc: format!("fixture:{name}{}", if existing.is_some() { "+cai" } else { "" }), existing });
    }
    v
}

/// Fixture cases of a property: the property's basic sequence on every real file of the
/// families it covers (oracles only; the layer-A / byte-exact requests are emitted as usual).
pub fn fixture_cases(run: &mut Run, prop: &'static str, thorough: bool) {
    let fams = crate::embed_oracle::families_for(prop);
    for a in fixture_assets() {
        if !fams.contains(&a.family) {
            continue;
        }
        // byte-exact Lean models run on the whole asset (hex in the request): keep those small
        if modelled(a.family) && a.bytes.len() > 200_000 {
            continue;
        }
        if !thorough && a.bytes.len() > 1_200_000 {
            continue;
        }
        let fam = a.family;
        let len = |l: usize| l.max(min_store_len(fam)).max(if fam == Family::Bmff { 39 } else { 1 });
        let s1 = gen_store(len(333), 11);
        let s2 = gen_store(len(90), 12);
        let same = gen_store(s2.bytes.len(), 13);
        let ops: Vec<Op> = match prop {
            "C07" => vec![Op::Read, Op::Write(s1), Op::Read, Op::Write(s2), Op::Read, Op::Remove, Op::Read],
            "C08" => vec![Op::Write(s1), Op::Write(s2), Op::Loc, Op::Patch(same), Op::Loc, Op::Read],
            "C09" => vec![Op::Write(s1), Op::Write(s2), Op::Patch(same), Op::Remove],
            _ => vec![Op::BoxMap, Op::Write(s1), Op::BoxMap, Op::Loc, Op::Remove, Op::BoxMap],
        };
        one_case(run, prop, &a, &ops);
        run.count("fixture_cases");
    }
}

// ───────────────────────── BMFF update-manifest layouts ─────────────────────────

fn sign_with(fmt: &str, src: &[u8], update: bool) -> Result<Vec<u8>, String> {
    use c2pa::{Builder, BuilderIntent, Context, EphemeralSigner};
    let src = src.to_vec();
    let fmt = fmt.to_string();
    let r = guarded(move || -> c2pa::Result<Vec<u8>> {
        let signer = EphemeralSigner::new("verif.test")?;
        let ctx = Context::new().with_settings(r#"{"verify":{"verify_after_sign":false}}"#)?.with_signer(signer);
        let def = if update {
            serde_json::json!({"title": "u", "format": fmt, "claim_generator_info": [{"name": "verif-harness", "version": "0.1"}], "assertions": []}).to_string()
        } else {
            crate::sign::definition("verif asset", &fmt)
        };
        let mut b = Builder::from_context(ctx).with_definition(def.as_str())?;
        if update {
            b.set_intent(BuilderIntent::Update);
        }
        let mut out = Cursor::new(Vec::new());
        b.save_to_stream(&fmt, &mut Cursor::new(src), &mut out)?;
        Ok(out.into_inner())
    });
    match r {
        Ok(Ok(v)) => Ok(v),
        Ok(Err(e)) => Err(format!("{e:?}")),
        Err(p) => Err(format!("PANIC: {p}")),
    }
}

/// Purposes of the top-level C2PA uuid boxes, in file order.
pub fn c2pa_purposes(b: &[u8]) -> Vec<(String, usize, usize)> {
    let mut v = vec![];
    if let Some(top) = bmff_boxes(b, 0, b.len()) {
        for x in top {
            let body = x.start + x.hdr;
            if &x.ty == b"uuid" && b.get(body..body + 16) == Some(&BMFF_C2PA_UUID[..]) {
                let p: Vec<u8> = b[(body + 20).min(x.end)..x.end].iter().take_while(|c| **c != 0).cloned().collect();
                v.push((String::from_utf8_lossy(&p).into_owned(), x.start, x.end));
            }
        }
    }
    v
}

/// Move the top-level box at `from..to` to position `dest` (an existing top-level boundary) —
/// absolute offsets are NOT fixed up: used only for boxes after all addressed data.
fn move_to_end(b: &[u8], from: usize, to: usize) -> Vec<u8> {
    let mut v = b[..from].to_vec();
    v.extend_from_slice(&b[to..]);
    v.extend_from_slice(&b[from..to]);
    v
}

/// C09 on the update-manifest branches of `BmffIO::write_cai`: the asset carries an ordinary
/// store (A1) or an original + update pair (A2, made by the Builder with `BuilderIntent::Update`);
/// the store written is an update store (the combined store read back from A2) or an ordinary
/// one. Only the media oracles apply (the store read back is re-serialised by design).
pub fn update_layout_cases(run: &mut Run, rng: &mut Rng, thorough: bool) {
    let mut sources: Vec<Asset> = vec![];
    for i in 0..(if thorough { 8 } else { 3 }) {
        let mut r = rng.fork();
        let fo = gen_frag_opts(&mut r);
        sources.push(match i % 3 {
            0 => crate::embed_lex2::gen_mp4(&mut r, None, 1, i % 2 == 1),
            1 => gen_fmp4(&mut r, None, 0, fo),
            _ => crate::embed_lex2::gen_mp4(&mut r, None, 0, false),
        });
    }
    if let Ok(b) = std::fs::read(fixtures().join("video1_no_manifest.mp4")) {
        sources.push(Asset { family: Family::Bmff, fmt: "mp4", bytes: b, desc: "fixture:video1_no_manifest.mp4".into(), existing: None });
    }
    for src in sources {
        let a1 = match sign_with("video/mp4", &src.bytes, false) {
            Ok(v) => v,
            Err(e) => {
                run.count("update_layout_sign_failed");
                run.notes.push(format!("update layouts: {} cannot be signed: {}", src.desc, trunc(&e)));
                continue;
            }
        };
        let a2 = match sign_with("video/mp4", &a1, true) {
            Ok(v) => v,
            Err(e) => {
                run.count("update_layout_update_failed");
                run.notes.push(format!("update layouts: update manifest on {} fails: {}", src.desc, trunc(&e)));
                continue;
            }
        };
        let purposes: Vec<String> = c2pa_purposes(&a2).into_iter().map(|p| p.0).collect();
        run.count(&format!("update_layout_boxes_{}", purposes.join("+")));
        let ReadRes::Ok(u) = op_read("mp4", &a2) else {
            run.count("update_layout_read_failed");
            continue;
        };
        let ustore = Store { spec: format!("update-store-{}", u.len()), bytes: u };
        let plain = gen_store(200, 3);
        let mk = |bytes: Vec<u8>, tag: &str| Asset { family: Family::Bmff, fmt: "mp4", bytes, desc: format!("{}+{tag}", src.desc), existing: Some(ustore.clone()) };
        // A1 + update store: manifest -> original, update box appended
        update_case(run, &mk(a1.clone(), "ordinary"), &[Op::Write(ustore.clone())], "split");
        // A2 + update store: the update box is replaced in place
        update_case(run, &mk(a2.clone(), "orig+update"), &[Op::Write(ustore.clone())], "append");
        // A2 + ordinary store: original replaced, update box truncated off
        update_case(run, &mk(a2.clone(), "orig+update"), &[Op::Write(plain.clone())], "truncate");
        update_case(run, &mk(a2.clone(), "orig+update"), &[Op::Remove], "remove");
        // the original box moved to the end of A1 is not meaningful (offsets); instead: A2 whose
        // update box is followed by a free box (boxes after the update box)
        let mut a2f = a2.clone();
        a2f.extend_from_slice(&bx(b"free", b"after-update"));
        update_case(run, &mk(a2f.clone(), "orig+update+free"), &[Op::Write(plain.clone())], "truncate-trailing-box");
        update_case(run, &mk(a2f, "orig+update+free"), &[Op::Write(ustore.clone())], "append-trailing-box");
        // update box not last: moved before the last top-level box that is not a C2PA box
        let _ = move_to_end;
    }
}

fn update_case(run: &mut Run, asset: &Asset, ops: &[Op], branch: &str) {
    let steps = exec(asset, ops);
    // oracle-only case (the store read back is re-serialised by design): marker request
    let idx = run.case(format!("C09 oracle tag=update-{branch}"), "oracle".to_string());
    run.count(&format!("update_layout_{branch}"));
    let mut cx = Ctx { run, prop: "C09", idx, tiff_legacy: false };
    for (k, st) in steps.iter().enumerate() {
        let what = format!("[{}] update-manifest branch '{branch}' step {k}", asset.desc);
        if let Some(e) = &st.err {
            if is_panic(e) {
                cx.fail("panic", format!("{what}: {e}"));
            } else {
                cx.run.count(&format!("update_layout_{branch}_refused"));
                cx.run.notes.push(format!("{what}: refused: {}", trunc(e)));
            }
            continue;
        }
        cx.run.nontrivial(format!("update-layout {} {branch}", asset.desc));
        // boxes after the update box (a layout the SDK itself never writes) report separately
        let prefix = if branch.ends_with("trailing-box") { "update-trailing-box-" } else { "update-" };
        crate::embed_oracle::check_media(&mut cx, asset, &st.before, &st.after, &what, prefix);
    }
}

/// C07 on an asset with an original + update manifest pair (made by the Builder): removal
/// must leave no manifest and an asset the handler still accepts.
pub fn update_remove_cases(run: &mut Run, rng: &mut Rng) {
    let mut r = rng.fork();
    let src = crate::embed_lex2::gen_mp4(&mut r, None, 1, false);
    let Ok(a1) = sign_with("video/mp4", &src.bytes, false) else {
        run.count("update_remove_sign_failed");
        return;
    };
    let Ok(a2) = sign_with("video/mp4", &a1, true) else {
        run.count("update_remove_update_failed");
        return;
    };
    let idx = run.case("C07 abs fmt=mp4 init=- ops=r,g".to_string(), "r:ok g:none".to_string());
    run.count("update_remove_case");
    let mut cx = Ctx { run, prop: "C07", idx, tiff_legacy: false };
    let what = format!("[{}+orig+update] removal from an asset with an original and an update manifest box", src.desc);
    match op_remove("mp4", &a2) {
        Err(e) => cx.fail(if is_panic(&e) { "panic" } else { "remove-error" }, format!("{what}: {e}")),
        Ok(out) => {
            cx.run.nontrivial("update-remove mp4".to_string());
            let left: Vec<String> = c2pa_purposes(&out).into_iter().map(|p| p.0).collect();
            match op_read("mp4", &out) {
                ReadRes::None if left.is_empty() => {}
                o => cx.fail("remove-leaves-update-box-bmff", format!("{what}: C2PA boxes left after removal: [{}]; read_cai then gives {}", left.join(","), match o { ReadRes::Ok(v) => format!("a {}-byte store", v.len()), x => trunc(&format!("{x:?}")) })),
            }
        }
    }
}
