//! Shared by c03 / c22 / c39 (included with `#[path]`): definition generator, signing and
//! reading helpers, and the report oracle of C03 (copied from bin/c03.rs; keep in sync).
#![allow(dead_code)]

use std::io::Cursor;

use c2pa::{Builder, Context, EphemeralSigner, Reader, SigningAlg};
use serde_json::{json, Value};
use sha2::Digest;
use vh::common::{canon_json, fixtures, Rng};

pub const ALGS: [(&str, SigningAlg); 7] = [
    ("es256", SigningAlg::Es256),
    ("es384", SigningAlg::Es384),
    ("es512", SigningAlg::Es512),
    ("ps256", SigningAlg::Ps256),
    ("ps384", SigningAlg::Ps384),
    ("ps512", SigningAlg::Ps512),
    ("ed25519", SigningAlg::Ed25519),
];

pub fn test_signer(alg: &str) -> c2pa::Result<c2pa::BoxedSigner> {
    let (name, a) = ALGS.iter().find(|(n, _)| *n == alg).expect("alg");
    let cert = std::fs::read(fixtures().join(format!("certs/{name}.pub")))?;
    let key = std::fs::read(fixtures().join(format!("certs/{name}.pem")))?;
    c2pa::create_signer::from_keys(&cert, &key, *a, None)
}

pub fn trust_settings() -> String {
    let anchors = std::fs::read_to_string(fixtures().join("certs/trust/test_cert_root_bundle.pem")).unwrap_or_default();
    json!({"trust": {"trust_anchors": anchors}, "verify": {"verify_trust": true, "remote_manifest_fetch": false, "ocsp_fetch": false}}).to_string()
}

pub fn base_settings() -> String {
    json!({"verify": {"verify_trust": true, "remote_manifest_fetch": false, "ocsp_fetch": false}}).to_string()
}

// ---------------------------------------------------------------------------------------------
// generators

pub const TITLES: [&str; 12] = [
    "plain title.jpg",
    "",
    "ünïcödé – title — ✓",
    "日本語のタイトル",
    "عنوان عربي",
    "emoji 🦀🚀 title",
    "quotes \" and \\ backslash / slash",
    "line\nbreak\tand tab",
    "<xml> & 'apos' &amp;",
    "a",
    " leading and trailing ",
    "ＦＵＬＬＷＩＤＴＨ e\u{301} combining",
];

pub fn gen_string(r: &mut Rng) -> String {
    match r.below(8) {
        0 => String::new(),
        1 => "x".repeat(r.range(1, 300) as usize),
        2 => TITLES[r.below(TITLES.len() as u64) as usize].to_string(),
        3 => format!("v{}", r.below(100000)),
        4 => "é".repeat(r.range(20, 30) as usize),
        5 => "http://example.com/a?b=1&c=2#frag".to_string(),
        6 => "y".repeat(*r.pick(&[22usize, 23, 24, 25, 254, 255, 256, 257]) as usize),
        _ => "hello world".to_string(),
    }
}

pub fn gen_value(r: &mut Rng, depth: u32, floats: bool) -> Value {
    let k = if depth == 0 { r.below(6) } else { r.below(8) };
    match k {
        0 => Value::Null,
        1 => Value::Bool(r.chance(1, 2)),
        2 => match r.below(7) {
            0 => json!(0),
            1 => json!(r.below(24)),
            2 => json!(*r.pick(&[23u64, 24, 255, 256, 65535, 65536, 4294967295, 4294967296, i64::MAX as u64])),
            3 => json!(-(r.below(1000) as i64) - 1),
            4 => json!(*r.pick(&[-24i64, -25, -256, -257, -65536, -65537, i64::MIN])),
            _ => json!(r.next() as i64),
        },
        3 => {
            if floats {
                json!(*r.pick(&[0.5f64, -3.25, 1.0e10, 1.1, 3.141592653589793, 65504.0, 1.0e-7, -0.0, 100000.5]))
            } else {
                json!(r.below(1000))
            }
        }
        4 | 5 => Value::String(gen_string(r)),
        6 => Value::Array((0..r.below(5)).map(|_| gen_value(r, depth - 1, floats)).collect()),
        _ => {
            let mut m = serde_json::Map::new();
            for i in 0..r.below(5) {
                let key = match r.below(4) {
                    0 => format!("k{i}"),
                    1 => format!("ключ{i}"),
                    2 => format!("key with space {i}"),
                    _ => format!("{}{i}", "k".repeat(r.range(1, 30) as usize)),
                };
                m.insert(key, gen_value(r, depth - 1, floats));
            }
            Value::Object(m)
        }
    }
}

pub fn gen_object(r: &mut Rng, floats: bool) -> Value {
    let mut m = serde_json::Map::new();
    for i in 0..r.range(1, 5) {
        m.insert(format!("f{i}"), gen_value(r, 2, floats));
    }
    Value::Object(m)
}

#[derive(Clone, Debug)]
pub struct Supplied {
    pub title: Option<String>,
    pub format: String,
    pub cgi: Vec<Value>,
    /// label, data, kind ("Json"/"Cbor"), is-actions
    pub assertions: Vec<(String, Value, &'static str)>,
    /// title, format, relationship, instance_id
    pub ingredients: Vec<(String, String, String, String)>,
    pub thumbnail: Option<(String, Vec<u8>)>,
    pub claim_version: u8,
    pub hash_alg: Option<&'static str>,
}

pub const CUSTOM_LABELS: [&str; 11] = [
    "org.verif.custom.extra",
    "verif.custom",
    "org.verif",
    "org.verif.custom",
    "org.verif.custom",
    "com.example.test-assert",
    "org.verif.with_underscore",
    "org.verif.UPPER.Case9",
    "org.verif.a.b.c.d.e.f.g",
    "org.verif.data",
    "x.y",
];

pub fn gen_supplied(r: &mut Rng, format: &str, thorough: bool) -> Supplied {
    let title = if r.chance(1, 12) { None } else { Some(TITLES[r.below(TITLES.len() as u64) as usize].to_string()) };
    let claim_version = if r.chance(1, 4) { 1 } else { 2 };
    let mut cgi = vec![];
    // a version 2 claim allows exactly one claim_generator_info entry (Claim::build)
    for i in 0..(if claim_version == 2 { 1 } else { r.range(1, 2) }) {
        let mut g = json!({"name": if i == 0 { "verif harness".to_string() } else { gen_string(r) + "g" }, "version": format!("{}.{}", r.below(10), r.below(100))});
        if r.chance(1, 3) {
            g["org.verif.extra"] = json!(gen_string(r));
        }
        cgi.push(g);
    }
    let n_ing = r.below(3) as usize;
    let mut ingredients = vec![];
    for i in 0..n_ing {
        let rel = *r.pick(&["componentOf", "inputTo"]);
        ingredients.push((
            format!("ingredient {i} {}", TITLES[r.below(TITLES.len() as u64) as usize]),
            r.pick(&["image/jpeg", "image/png", "application/octet-stream", "video/mp4"]).to_string(),
            rel.to_string(),
            format!("xmp:iid:verif-{}-{i}", r.below(1_000_000)),
        ));
    }
    let mut assertions: Vec<(String, Value, &'static str)> = vec![];
    // the actions assertion (needed: a claim must carry c2pa.created / c2pa.opened)
    let mut actions = vec![json!({"action": "c2pa.created", "digitalSourceType": "http://cv.iptc.org/newscodes/digitalsourcetype/digitalCapture"})];
    for _ in 0..r.below(3) {
        let mut a = json!({"action": *r.pick(&["c2pa.edited", "c2pa.color_adjustments", "c2pa.cropped", "c2pa.filtered", "org.verif.custom_action"])});
        if r.chance(1, 2) {
            a["parameters"] = json!({"org.verif.p": gen_value(r, 1, false)});
        }
        if r.chance(1, 3) {
            a["description"] = json!(gen_string(r));
        }
        if r.chance(1, 4) {
            a["when"] = json!("2024-05-06T07:08:09Z");
        }
        actions.push(a);
    }
    assertions.push(("c2pa.actions".to_string(), json!({"actions": actions}), "Cbor"));
    let n = if thorough { r.below(7) } else { r.below(5) } as usize;
    for _ in 0..n {
        match r.below(9) {
            0 | 1 | 2 => {
                let l = *r.pick(&CUSTOM_LABELS);
                assertions.push((l.to_string(), gen_object(r, true), "Json"));
            }
            3 | 4 | 5 => {
                let l = *r.pick(&CUSTOM_LABELS);
                let fl = r.chance(1, 2);
                assertions.push((l.to_string(), gen_object(r, fl), "Cbor"));
            }
            6 => assertions.push((
                "cawg.training-mining".to_string(),
                json!({"entries": {"cawg.ai_inference": {"use": "notAllowed"}, "cawg.ai_generative_training": {"use": "constrained", "constraint_info": gen_string(r)}}}),
                "Cbor",
            )),
            7 => assertions.push((
                "stds.schema-org.CreativeWork".to_string(),
                json!({"@context": "http://schema.org/", "@type": "CreativeWork", "author": [{"@type": "Person", "name": gen_string(r)}]}),
                "Json",
            )),
            _ => assertions.push((
                "org.verif.big".to_string(),
                json!({"blob": "z".repeat(*r.pick(&[1000usize, 65000, 66000, 200000])), "n": r.below(1000)}),
                if r.chance(1, 2) { "Json" } else { "Cbor" },
            )),
        }
    }
    let thumbnail = if r.chance(1, 3) {
        let bytes = std::fs::read(fixtures().join("thumbnail.jpg")).unwrap_or_else(|_| vec![0xff, 0xd8, 0xff, 0xd9]);
        Some(("image/jpeg".to_string(), bytes))
    } else {
        None
    };
    Supplied {
        title,
        format: format.to_string(),
        cgi,
        assertions,
        ingredients,
        thumbnail,
        claim_version,
        hash_alg: *r.pick(&[None, None, Some("sha256"), Some("sha384"), Some("sha512")]),
    }
}

pub fn definition_json(s: &Supplied) -> Value {
    let mut d = json!({
        "format": s.format,
        "claim_generator_info": s.cgi,
        "claim_version": s.claim_version,
        "assertions": s.assertions.iter().map(|(l, data, kind)| {
            let mut a = json!({"label": l, "data": data});
            if *kind == "Json" { a["kind"] = json!("Json"); }
            a
        }).collect::<Vec<_>>(),
        "ingredients": s.ingredients.iter().map(|(t, f, rel, iid)| json!({"title": t, "format": f, "relationship": rel, "instance_id": iid})).collect::<Vec<_>>(),
    });
    if let Some(t) = &s.title {
        d["title"] = json!(t);
    }
    if let Some(a) = s.hash_alg {
        d["hash_alg"] = json!(a);
    }
    if let Some((f, _)) = &s.thumbnail {
        d["thumbnail"] = json!({"format": f, "identifier": "verif-thumb.jpg"});
    }
    d
}

// ---------------------------------------------------------------------------------------------
// implementation driver

pub struct Signed {
    pub asset: Vec<u8>,
    pub manifest: Vec<u8>,
}

pub fn sign(s: &Supplied, src: &[u8], signer_alg: &str, settings: &str) -> c2pa::Result<Signed> {
    let ctx = Context::new().with_settings(settings)?;
    let mut b = Builder::from_context(ctx).with_definition(definition_json(s).to_string().as_str())?;
    if let Some((_, bytes)) = &s.thumbnail {
        b.add_resource("verif-thumb.jpg", Cursor::new(bytes.clone()))?;
    }
    let mut out = Cursor::new(Vec::new());
    let manifest = if signer_alg == "ephemeral" {
        let signer = EphemeralSigner::new("verif.test")?;
        b.sign(&signer, &s.format, &mut Cursor::new(src.to_vec()), &mut out)?
    } else {
        let signer = test_signer(signer_alg)?;
        b.sign(signer.as_ref(), &s.format, &mut Cursor::new(src.to_vec()), &mut out)?
    };
    Ok(Signed { asset: out.into_inner(), manifest })
}

pub fn read(fmt: &str, data: &[u8], settings: &str) -> Result<(String, Value, Reader), String> {
    let ctx = Context::new().with_settings(settings).map_err(|e| format!("{e:?}"))?;
    let r = Reader::from_context(ctx).with_stream(fmt, Cursor::new(data.to_vec())).map_err(|e| format!("{e:?}"))?;
    let v: Value = serde_json::from_str(&r.json()).map_err(|e| e.to_string())?;
    Ok((format!("{:?}", r.validation_state()), v, r))
}

/// The JSON report renders byte strings as base64 text: an object member that is a non-empty
/// array of integers 0..=255 is indistinguishable from a byte string and comes back as standard
/// base64. The same rendering is applied (independently written) to the supplied side;
/// everything else is compared literally.
pub fn render_bytes(v: &Value) -> Value {
    fn b64(bytes: &[u8]) -> String {
        const T: &[u8; 64] = b"ABCDEFGHIJKLMNOPQRSTUVWXYZabcdefghijklmnopqrstuvwxyz0123456789+/";
        let mut out = String::new();
        for ch in bytes.chunks(3) {
            let n = (ch[0] as u32) << 16 | (*ch.get(1).unwrap_or(&0) as u32) << 8 | *ch.get(2).unwrap_or(&0) as u32;
            out.push(T[(n >> 18) as usize & 63] as char);
            out.push(T[(n >> 12) as usize & 63] as char);
            out.push(if ch.len() > 1 { T[(n >> 6) as usize & 63] as char } else { '=' });
            out.push(if ch.len() > 2 { T[n as usize & 63] as char } else { '=' });
        }
        out
    }
    match v {
        Value::Object(m) => Value::Object(
            m.iter()
                .map(|(k, x)| {
                    let y = match x {
                        Value::Array(a) if !a.is_empty() && a.iter().all(|e| e.as_u64().map(|n| n <= 255).unwrap_or(false)) => {
                            Value::String(b64(&a.iter().map(|e| e.as_u64().unwrap_or(0) as u8).collect::<Vec<_>>()))
                        }
                        other => render_bytes(other),
                    };
                    (k.clone(), y)
                })
                .collect(),
        ),
        Value::Array(a) => Value::Array(a.iter().map(render_bytes).collect()),
        other => other.clone(),
    }
}

pub fn same_json(a: &Value, b: &Value) -> bool {
    canon_json(&render_bytes(&json!({"w": a}))) == canon_json(&json!({"w": b}))
}

/// Oracle: compare the reported active manifest with what was supplied. Returns (class, detail).
pub fn compare_report(s: &Supplied, report: &Value, reader: &Reader) -> Vec<(&'static str, String)> {
    let mut bad = vec![];
    let active = report.get("active_manifest").and_then(|x| x.as_str()).unwrap_or("");
    let m = &report["manifests"][active];
    if m.is_null() {
        bad.push(("report-no-active-manifest", format!("active_manifest={active:?}")));
        return bad;
    }
    // title
    let rt = m.get("title").and_then(|x| x.as_str()).map(|x| x.to_string());
    if rt != s.title {
        bad.push(("report-title-differs", format!("supplied {:?} reported {:?}", s.title, rt)));
    }
    let rf = m.get("format").and_then(|x| x.as_str());
    if (s.claim_version == 1 || rf.is_some()) && rf != Some(s.format.as_str()) {
        bad.push(("report-format-differs", format!("supplied {} reported {:?}", s.format, m.get("format"))));
    }
    // claim generator info
    let rg = m.get("claim_generator_info").and_then(|x| x.as_array()).cloned().unwrap_or_default();
    if rg.len() != s.cgi.len() {
        bad.push(("report-generator-differs", format!("supplied {} entries, reported {}", s.cgi.len(), rg.len())));
    } else {
        for (i, (a, b)) in s.cgi.iter().zip(rg.iter()).enumerate() {
            let mut b2 = b.clone();
            if i == 0 {
                if let Some(o) = b2.as_object_mut() {
                    o.remove("org.contentauth.c2pa_rs");
                }
            }
            if !same_json(a, &b2) {
                bad.push(("report-generator-differs", format!("entry {i}: supplied {a} reported {b}")));
            }
        }
    }
    // assertions: exactly the supplied ones, in order
    let ra = m.get("assertions").and_then(|x| x.as_array()).cloned().unwrap_or_default();
    let mut used = vec![false; ra.len()];
    for (l, data, kind) in &s.assertions {
        let found = ra.iter().enumerate().position(|(i, a)| {
            !used[i] && a.get("label").and_then(|x| x.as_str()) == Some(norm_label(l)) && assertion_data_matches(l, data, &a["data"])
        });
        match found {
            Some(i) => {
                used[i] = true;
                let rk = ra[i].get("kind").and_then(|x| x.as_str()).unwrap_or("Cbor");
                if rk != *kind {
                    bad.push(("report-assertion-kind-differs", format!("{l}: supplied kind {kind}, reported {rk}")));
                }
            }
            None => {
                let same_label: Vec<String> = ra.iter().filter(|a| a.get("label").and_then(|x| x.as_str()) == Some(norm_label(l))).map(|a| a["data"].to_string()).collect();
                if same_label.is_empty() {
                    bad.push(("report-missing-assertion", format!("label {l} not reported; reported labels {:?}", ra.iter().map(|a| a["label"].to_string()).collect::<Vec<_>>())));
                } else {
                    let d = data.to_string();
                    bad.push(("report-assertion-data-differs", format!("label {l}: supplied {} reported {}", &d[..d.len().min(300)], &same_label[0][..same_label[0].len().min(300)])));
                }
            }
        }
    }
    for (i, a) in ra.iter().enumerate() {
        if !used[i] {
            bad.push(("report-extra-assertion", format!("reported but not supplied: {}", a["label"])));
        }
    }
    // order of the reported assertions = order supplied
    let supplied_labels: Vec<&str> = s.assertions.iter().map(|(l, _, _)| norm_label(l)).collect();
    let reported_labels: Vec<&str> = ra.iter().filter_map(|a| a.get("label").and_then(|x| x.as_str())).collect();
    if bad.is_empty() && supplied_labels != reported_labels {
        bad.push(("report-assertion-order-differs", format!("supplied {supplied_labels:?} reported {reported_labels:?}")));
    }
    // ingredients
    let ri = m.get("ingredients").and_then(|x| x.as_array()).cloned().unwrap_or_default();
    if ri.len() != s.ingredients.len() {
        bad.push(("report-ingredient-count-differs", format!("supplied {} reported {}", s.ingredients.len(), ri.len())));
    } else {
        for ((t, f, rel, iid), r) in s.ingredients.iter().zip(ri.iter()) {
            let g = |k: &str| r.get(k).and_then(|x| x.as_str()).unwrap_or("<none>").to_string();
            if g("title") != *t || g("format") != *f || g("relationship") != *rel || g("instance_id") != *iid {
                bad.push(("report-ingredient-differs", format!("supplied ({t},{f},{rel},{iid}) reported {r}")));
            }
            if r.get("validation_status").is_some() || r.get("active_manifest").is_some() {
                bad.push(("report-ingredient-differs", format!("unsigned ingredient reports manifest/validation data: {r}")));
            }
        }
    }
    // thumbnail
    match (&s.thumbnail, m.get("thumbnail")) {
        (None, None) => {}
        (Some((f, bytes)), Some(t)) => {
            if t.get("format").and_then(|x| x.as_str()) != Some(f.as_str()) {
                bad.push(("report-thumbnail-differs", format!("format supplied {f} reported {t}")));
            }
            let id = t.get("identifier").and_then(|x| x.as_str()).unwrap_or("");
            let mut out = Cursor::new(Vec::new());
            match reader.resource_to_stream(id, &mut out) {
                Ok(_) if out.get_ref() == bytes => {}
                Ok(_) => bad.push(("report-thumbnail-differs", format!("bytes differ: supplied {} reported {}", bytes.len(), out.get_ref().len()))),
                Err(e) => bad.push(("report-thumbnail-differs", format!("resource {id} unreadable: {e:?}"))),
            }
        }
        (a, b) => bad.push(("report-thumbnail-differs", format!("supplied {:?} reported {:?}", a.as_ref().map(|x| &x.0), b))),
    }
    if m.get("redactions").is_some() {
        bad.push(("report-redactions-differ", format!("none supplied, reported {}", m["redactions"])));
    }
    bad
}

/// documented re-labelling: the typed actions assertion is written with its current version
pub fn norm_label(l: &str) -> &str {
    if l == "c2pa.actions" {
        "c2pa.actions.v2"
    } else {
        l
    }
}

pub fn assertion_data_matches(label: &str, supplied: &Value, reported: &Value) -> bool {
    if label.starts_with("c2pa.actions") {
        // the builder may decorate actions (settings); every supplied action must be there,
        // in order, with every supplied member unchanged, and no other action
        let sa = supplied["actions"].as_array().cloned().unwrap_or_default();
        let ra = reported["actions"].as_array().cloned().unwrap_or_default();
        if sa.len() != ra.len() {
            return false;
        }
        for (a, b) in sa.iter().zip(ra.iter()) {
            for (k, v) in a.as_object().into_iter().flatten() {
                if !same_json(v, &b[k]) {
                    return false;
                }
            }
        }
        true
    } else {
        same_json(supplied, reported)
    }
}

pub fn sha(alg: &str, parts: &[&[u8]]) -> Vec<u8> {
    match alg {
        "sha384" => {
            let mut h = sha2::Sha384::new();
            parts.iter().for_each(|p| h.update(p));
            h.finalize().to_vec()
        }
        "sha512" => {
            let mut h = sha2::Sha512::new();
            parts.iter().for_each(|p| h.update(p));
            h.finalize().to_vec()
        }
        _ => {
            let mut h = sha2::Sha256::new();
            parts.iter().for_each(|p| h.update(p));
            h.finalize().to_vec()
        }
    }
}

pub fn is_bmff(fmt: &str) -> bool {
    matches!(fmt, "video/mp4" | "image/avif" | "image/heic" | "image/heif" | "audio/mp4" | "video/quicktime")
}

