//! Shared plumbing for every per-property correspondence driver.
//!
//! A driver produces *cases*. Each case is one request line (the exact text the
//! Lean model driver will read), one implementation reply line (what the real
//! code did, canonicalised), and optionally an oracle failure (the property,
//! evaluated directly on the implementation, does not hold for this case).

use std::{
    collections::{BTreeMap, BTreeSet},
    fs,
    io::Write,
    path::{Path, PathBuf},
};

/// SplitMix64: the only source of randomness in the harness.
#[derive(Clone)]
pub struct Rng(pub u64);

impl Rng {
    pub fn new(seed: u64) -> Self {
        Rng(seed ^ 0x9E37_79B9_7F4A_7C15)
    }

    pub fn next(&mut self) -> u64 {
        self.0 = self.0.wrapping_add(0x9E37_79B9_7F4A_7C15);
        let mut z = self.0;
        z = (z ^ (z >> 30)).wrapping_mul(0xBF58_476D_1CE4_E5B9);
        z = (z ^ (z >> 27)).wrapping_mul(0x94D0_49BB_1331_11EB);
        z ^ (z >> 31)
    }

    /// uniform in 0..n (n > 0)
    pub fn below(&mut self, n: u64) -> u64 {
        self.next() % n
    }

    pub fn range(&mut self, lo: u64, hi_incl: u64) -> u64 {
        lo + self.below(hi_incl - lo + 1)
    }

    pub fn chance(&mut self, num: u64, den: u64) -> bool {
        self.below(den) < num
    }

    pub fn pick<'a, T>(&mut self, xs: &'a [T]) -> &'a T {
        &xs[self.below(xs.len() as u64) as usize]
    }

    pub fn bytes(&mut self, n: usize) -> Vec<u8> {
        (0..n).map(|_| self.next() as u8).collect()
    }

    /// derive an independent generator for one case
    pub fn fork(&mut self) -> Rng {
        Rng(self.next())
    }
}

pub struct OracleFailure {
    pub case: usize,
    /// stable class key, matched against known_findings.json
    pub class: String,
    pub detail: String,
}

/// Collects the three streams plus the coverage statistics of one run.
pub struct Run {
    pub property: String,
    pub tier: String,
    pub seed: u64,
    pub reqs: Vec<String>,
    pub impls: Vec<String>,
    pub oracle: Vec<OracleFailure>,
    pub nontrivial: BTreeSet<String>,
    pub dist: BTreeMap<String, u64>,
    pub samples: Vec<String>,
    pub notes: Vec<String>,
    pub rule: String,
    /// extra obligations decided on the implementation side (name -> ok)
    pub obligations: BTreeMap<String, bool>,
}

impl Run {
    pub fn new(property: &str, tier: &str, seed: u64) -> Self {
        Run {
            property: property.to_string(),
            tier: tier.to_string(),
            seed,
            reqs: vec![],
            impls: vec![],
            oracle: vec![],
            nontrivial: BTreeSet::new(),
            dist: BTreeMap::new(),
            samples: vec![],
            notes: vec![],
            rule: String::new(),
            obligations: BTreeMap::new(),
        }
    }

    pub fn thorough(&self) -> bool {
        self.tier == "thorough"
    }

    /// Record one case. Returns its index.
    pub fn case(&mut self, req: String, imp: String) -> usize {
        debug_assert!(!req.contains('\n') && !imp.contains('\n'));
        if self.samples.len() < 6 || (self.reqs.len() % 997 == 0 && self.samples.len() < 24) {
            self.samples.push(format!("{req}  =>  {imp}"));
        }
        self.reqs.push(req);
        self.impls.push(imp);
        self.reqs.len() - 1
    }

    pub fn count(&mut self, key: &str) {
        *self.dist.entry(key.to_string()).or_insert(0) += 1;
    }

    /// Mark a case as non-trivial under the property's stated rule; `key`
    /// identifies it for distinctness.
    pub fn nontrivial(&mut self, key: String) {
        self.nontrivial.insert(key);
    }

    pub fn fail(&mut self, case: usize, class: &str, detail: String) {
        self.oracle.push(OracleFailure {
            case,
            class: class.to_string(),
            detail,
        });
    }

    pub fn write(&self, out: &Path) -> std::io::Result<()> {
        fs::create_dir_all(out)?;
        let mut f = fs::File::create(out.join("reqs.txt"))?;
        for r in &self.reqs {
            writeln!(f, "{r}")?;
        }
        let mut f = fs::File::create(out.join("impl.txt"))?;
        for r in &self.impls {
            writeln!(f, "{r}")?;
        }
        let oracle: Vec<serde_json::Value> = self
            .oracle
            .iter()
            .map(|o| {
                serde_json::json!({
                    "case": o.case,
                    "class": o.class,
                    "detail": o.detail,
                    "request": self.reqs.get(o.case),
                    "impl": self.impls.get(o.case),
                })
            })
            .collect();
        let stats = serde_json::json!({
            "property": self.property,
            "tier": self.tier,
            "seed": self.seed,
            "evaluations": self.reqs.len(),
            "distinct_nontrivial": self.nontrivial.len(),
            "rule": self.rule,
            "input_distribution": self.dist,
            "samples": self.samples,
            "notes": self.notes,
            "oracle_failures": oracle,
            "impl_obligations": self.obligations,
        });
        fs::write(
            out.join("stats.json"),
            serde_json::to_string_pretty(&stats).unwrap(),
        )
    }
}

pub fn hex(b: &[u8]) -> String {
    if b.is_empty() {
        "-".to_string()
    } else {
        hex::encode(b)
    }
}

pub fn unhex(s: &str) -> Vec<u8> {
    if s == "-" {
        vec![]
    } else {
        hex::decode(s).expect("hex")
    }
}

/// Run `f` catching panics; a panic is an implementation-vs-oracle failure,
/// never a model disagreement.
pub fn guarded<T>(f: impl FnOnce() -> T + std::panic::UnwindSafe) -> Result<T, String> {
    std::panic::catch_unwind(f).map_err(|e| {
        if let Some(s) = e.downcast_ref::<&str>() {
            s.to_string()
        } else if let Some(s) = e.downcast_ref::<String>() {
            s.clone()
        } else {
            "panic".to_string()
        }
    })
}

pub fn fixtures() -> PathBuf {
    PathBuf::from("/repo/sdk/tests/fixtures")
}

/// Scratch directory outside /repo and /verif, removed by the caller.
pub fn scratch(tag: &str) -> PathBuf {
    let base = std::env::var("VERIF_SCRATCH").unwrap_or_else(|_| "/tmp/verif-scratch".to_string());
    let p = PathBuf::from(base).join(format!("{tag}-{}", std::process::id()));
    let _ = fs::remove_dir_all(&p);
    fs::create_dir_all(&p).expect("scratch");
    p
}

/// Entry point shared by every driver binary: `<bin> <quick|thorough> <seed> <outdir>`.
pub fn main_with(property: &str, f: impl FnOnce(&mut Run, &mut Rng)) {
    let args: Vec<String> = std::env::args().collect();
    if args.len() < 4 {
        eprintln!("usage: {} <quick|thorough> <seed> <outdir>", args[0]);
        std::process::exit(2);
    }
    let tier = args[1].as_str();
    let seed: u64 = args[2].parse().expect("seed");
    let out = PathBuf::from(&args[3]);
    // panics inside guarded sections are data; keep stderr quiet
    std::panic::set_hook(Box::new(|_| {}));
    let mut run = Run::new(property, tier, seed);
    let mut rng = Rng::new(seed);
    f(&mut run, &mut rng);
    run.write(&out).expect("write outputs");
}

/// Canonical JSON text: object keys sorted recursively (hash-map order must never show).
pub fn canon_json(v: &serde_json::Value) -> String {
    fn go(v: &serde_json::Value, out: &mut String) {
        match v {
            serde_json::Value::Object(m) => {
                let mut keys: Vec<&String> = m.keys().collect();
                keys.sort();
                out.push('{');
                for (i, k) in keys.iter().enumerate() {
                    if i > 0 {
                        out.push(',');
                    }
                    out.push_str(&serde_json::to_string(k).unwrap());
                    out.push(':');
                    go(&m[*k], out);
                }
                out.push('}');
            }
            serde_json::Value::Array(a) => {
                out.push('[');
                for (i, x) in a.iter().enumerate() {
                    if i > 0 {
                        out.push(',');
                    }
                    go(x, out);
                }
                out.push(']');
            }
            other => out.push_str(&other.to_string()),
        }
    }
    let mut s = String::new();
    go(v, &mut s);
    s
}
