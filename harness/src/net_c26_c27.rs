//! Shared by the C26 and C27 drivers (included with `#[path]`): scripted recording transport,
//! generators for URIs / patterns / Location values / header sets, the would-be redirect chain
//! (the `url` crate as oracle for `resolve_redirect_target`), the chain request line, and the
//! *independent* statements of the two properties used by the oracles (documented pattern rule,
//! address-space tables, inet_aton/WHATWG number forms).

#![allow(dead_code)]

use std::{
    future::Future,
    io::{BufRead, BufReader, Cursor, Read, Write},
    net::{Ipv6Addr, TcpListener},
    pin::Pin,
    sync::{
        atomic::{AtomicBool, Ordering},
        Arc, Mutex,
    },
    task::{Context as TaskContext, Poll, RawWaker, RawWakerVTable, Waker},
};

use c2pa::http::{
    http::{header::LOCATION, HeaderValue, Request, Response, Uri},
    restricted::HostPattern,
    AsyncHttpResolver, HttpResolverError, SyncHttpResolver,
};
use vh::common::Rng;

// ---------------------------------------------------------------- encoding

pub fn hx(b: &[u8]) -> String {
    if b.is_empty() {
        "-".to_string()
    } else {
        hex::encode(b)
    }
}

pub fn opt_hx(s: Option<&str>) -> String {
    match s {
        None => "~".to_string(),
        Some(s) => hx(s.as_bytes()),
    }
}

/// `text/scheme/host/port` from the accessors of the real `http::Uri`.
pub fn uri_enc(u: &Uri) -> String {
    format!(
        "{}/{}/{}/{}",
        hx(u.to_string().as_bytes()),
        opt_hx(u.scheme_str()),
        opt_hx(u.host()),
        opt_hx(u.port().as_ref().map(|p| p.as_str()))
    )
}

pub fn uri_fields(u: &Uri) -> String {
    format!(
        "scheme={} host={} port={}",
        opt_hx(u.scheme_str()),
        opt_hx(u.host()),
        opt_hx(u.port().as_ref().map(|p| p.as_str()))
    )
}

/// `~` no list, `-` empty list, else comma-separated hex.
pub fn allow_enc(a: &Option<Vec<String>>) -> String {
    match a {
        None => "~".to_string(),
        Some(v) if v.is_empty() => "-".to_string(),
        Some(v) => v.iter().map(|p| hx(p.as_bytes())).collect::<Vec<_>>().join(","),
    }
}

pub fn headers_enc(h: &[(String, Vec<u8>)]) -> String {
    if h.is_empty() {
        "-".to_string()
    } else {
        h.iter().map(|(n, v)| format!("{}:{}", hx(n.as_bytes()), hx(v))).collect::<Vec<_>>().join(",")
    }
}

// ---------------------------------------------------------------- scripted transport

#[derive(Clone, Debug)]
pub enum Reply {
    Io,
    Resp { status: u16, locations: Vec<Vec<u8>> },
}

#[derive(Clone, Debug)]
pub struct Seen {
    pub uri: Uri,
    pub method: String,
    pub body: Vec<u8>,
    pub headers: Vec<(String, Vec<u8>)>,
}

impl Seen {
    pub fn enc(&self) -> String {
        format!(
            "{};{};{};{}",
            hx(self.uri.to_string().as_bytes()),
            hx(self.method.as_bytes()),
            hx(&self.body),
            headers_enc(&self.headers)
        )
    }
}

pub fn request_headers(r: &Request<Vec<u8>>) -> Vec<(String, Vec<u8>)> {
    r.headers().iter().map(|(n, v)| (n.as_str().to_string(), v.as_bytes().to_vec())).collect()
}

/// Replies by call index and records every request it is handed.
pub struct Scripted {
    pub script: Vec<Reply>,
    pub seen: Arc<Mutex<Vec<Seen>>>,
}

impl Scripted {
    pub fn new(script: Vec<Reply>) -> (Self, Arc<Mutex<Vec<Seen>>>) {
        let seen = Arc::new(Mutex::new(vec![]));
        (Scripted { script, seen: seen.clone() }, seen)
    }

    fn serve(&self, request: Request<Vec<u8>>) -> Result<Response<Box<dyn Read>>, HttpResolverError> {
        let k = {
            let mut s = self.seen.lock().unwrap();
            s.push(Seen {
                uri: request.uri().clone(),
                method: request.method().as_str().to_string(),
                body: request.body().clone(),
                headers: request_headers(&request),
            });
            s.len() - 1
        };
        match self.script.get(k) {
            None | Some(Reply::Io) => Err(HttpResolverError::Io(std::io::Error::other("scripted"))),
            Some(Reply::Resp { status, locations }) => {
                let mut b = Response::builder().status(*status);
                for l in locations {
                    b = b.header(LOCATION, HeaderValue::from_bytes(l).expect("generator emits valid header bytes"));
                }
                b.body(Box::new(std::io::empty()) as Box<dyn Read>).map_err(HttpResolverError::Http)
            }
        }
    }
}

impl SyncHttpResolver for Scripted {
    fn http_resolve(&self, request: Request<Vec<u8>>) -> Result<Response<Box<dyn Read>>, HttpResolverError> {
        self.serve(request)
    }
}

#[async_trait::async_trait]
impl AsyncHttpResolver for Scripted {
    async fn http_resolve_async(
        &self,
        request: Request<Vec<u8>>,
    ) -> Result<Response<Box<dyn Read>>, HttpResolverError> {
        self.serve(request)
    }
}

/// Minimal executor: the scripted transport never suspends.
pub fn block_on<F: Future + ?Sized>(mut f: Pin<Box<F>>) -> F::Output {
    fn raw() -> RawWaker {
        fn no(_: *const ()) {}
        fn cl(_: *const ()) -> RawWaker {
            raw()
        }
        static VT: RawWakerVTable = RawWakerVTable::new(cl, no, no, no);
        RawWaker::new(std::ptr::null(), &VT)
    }
    let waker = unsafe { Waker::from_raw(raw()) };
    let mut cx = TaskContext::from_waker(&waker);
    loop {
        if let Poll::Ready(v) = f.as_mut().poll(&mut cx) {
            return v;
        }
    }
}

pub fn result_class(r: &Result<Response<Box<dyn Read>>, HttpResolverError>) -> String {
    match r {
        Ok(resp) => format!("ok:{}", resp.status().as_u16()),
        Err(HttpResolverError::UriDisallowed { .. }) => "uri-disallowed".into(),
        Err(HttpResolverError::RedirectDisallowed { .. }) => "redirect-disallowed".into(),
        Err(HttpResolverError::RedirectTargetDisallowed { .. }) => "target-disallowed".into(),
        Err(HttpResolverError::TooManyRedirects { .. }) => "too-many".into(),
        Err(HttpResolverError::Other(_)) => "other".into(),
        Err(HttpResolverError::Http(_)) => "http".into(),
        Err(HttpResolverError::Io(_)) => "io".into(),
        Err(_) => "unexpected".into(),
    }
}

// ---------------------------------------------------------------- would-be chain

#[derive(Clone, Debug)]
pub enum LocKind {
    Absent,
    Opaque,
    Str(String),
}

#[derive(Clone, Debug)]
pub enum JoinRes {
    NotApplicable,
    Other,
    Http,
    Ok(Uri),
}

#[derive(Clone, Debug)]
pub struct Hop {
    pub reply: Reply,
    pub loc: LocKind,
    pub join: JoinRes,
}

fn visible_ascii(b: &[u8]) -> bool {
    b.iter().all(|&b| (32..127).contains(&b) || b == b'\t')
}

/// The `url`/`http` crates as oracle for `resolve_redirect_target`.
pub fn oracle_join(base: &Uri, location: &str) -> JoinRes {
    let Ok(base_url) = url::Url::parse(&base.to_string()) else {
        return JoinRes::Other;
    };
    let Ok(target) = base_url.join(location) else {
        return JoinRes::Other;
    };
    match target.as_str().parse::<Uri>() {
        Ok(u) => JoinRes::Ok(u),
        Err(_) => JoinRes::Http,
    }
}

/// The chain of requests the redirect follower would issue if nothing refused a hop.
/// `uris[k]` is the URI of hop `k`; `hops[k]` what the transport replies and where that leads.
pub fn plan(initial: &Uri, script: &[Reply]) -> (Vec<Uri>, Vec<Hop>) {
    let mut uris = vec![initial.clone()];
    let mut hops = vec![];
    for reply in script {
        let cur = uris.last().unwrap().clone();
        match reply {
            Reply::Io => {
                hops.push(Hop { reply: reply.clone(), loc: LocKind::Absent, join: JoinRes::NotApplicable });
                break;
            }
            Reply::Resp { status, locations } => {
                let loc = match locations.first() {
                    None => LocKind::Absent,
                    Some(v) if !visible_ascii(v) => LocKind::Opaque,
                    Some(v) => LocKind::Str(String::from_utf8(v.clone()).unwrap()),
                };
                let redirect = (300..400).contains(status);
                let join = match (&loc, redirect) {
                    (LocKind::Str(s), true) => oracle_join(&cur, s),
                    _ => JoinRes::NotApplicable,
                };
                let next = if let JoinRes::Ok(u) = &join { Some(u.clone()) } else { None };
                hops.push(Hop { reply: reply.clone(), loc, join });
                match next {
                    Some(u) => uris.push(u),
                    None => break,
                }
            }
        }
    }
    (uris, hops)
}

pub fn hops_enc(hops: &[Hop]) -> String {
    if hops.is_empty() {
        return "-".to_string();
    }
    hops.iter()
        .map(|h| match &h.reply {
            Reply::Io => "E".to_string(),
            Reply::Resp { status, .. } => {
                let loc = match &h.loc {
                    LocKind::Absent => "~".to_string(),
                    LocKind::Opaque => "!".to_string(),
                    LocKind::Str(s) => hx(s.as_bytes()),
                };
                let join = match &h.join {
                    JoinRes::NotApplicable => "~".to_string(),
                    JoinRes::Other => "O".to_string(),
                    JoinRes::Http => "H".to_string(),
                    JoinRes::Ok(u) => format!("T{}", uri_enc(u)),
                };
                format!("R:{status}:{loc}:{join}")
            }
        })
        .collect::<Vec<_>>()
        .join("|")
}

/// One chain case: configuration, request, script.
pub struct ChainCase {
    pub allow: Option<Vec<String>>,
    pub redirects: bool,
    pub method: String,
    pub uri: Uri,
    pub headers: Vec<(String, Vec<u8>)>,
    pub body: Vec<u8>,
    pub script: Vec<Reply>,
    pub async_mode: bool,
}

impl ChainCase {
    pub fn request(&self) -> Request<Vec<u8>> {
        let mut b = Request::builder().method(self.method.as_str()).uri(self.uri.clone());
        for (n, v) in &self.headers {
            b = b.header(n.as_str(), HeaderValue::from_bytes(v).expect("header value"));
        }
        b.body(self.body.clone()).expect("request")
    }

    /// request line (without the property id and op) in the protocol of Model/C27.lean
    pub fn line(&self, hops: &[Hop]) -> String {
        let req = self.request();
        format!(
            "allow={} redir={} mode={} m={} body={} hdrs={} u={} hops={}",
            allow_enc(&self.allow),
            self.redirects as u8,
            if self.async_mode { "a" } else { "s" },
            hx(self.method.as_bytes()),
            hx(&self.body),
            headers_enc(&request_headers(&req)),
            uri_enc(&self.uri),
            hops_enc(hops)
        )
    }
}

pub fn trace_enc(seen: &[Seen]) -> String {
    if seen.is_empty() {
        "-".to_string()
    } else {
        seen.iter().map(|s| s.enc()).collect::<Vec<_>>().join("|")
    }
}

pub fn patterns(v: &[String]) -> Vec<HostPattern> {
    v.iter().map(|p| HostPattern::new(p)).collect()
}

// ---------------------------------------------------------------- independent statements (oracles)

/// The documented allow-list rule for one pattern (exact host or `*.` wildcard sub-domain,
/// case-insensitive, optional scheme, port strings equal; a pattern consisting only of a scheme
/// admits every URI of that scheme). Written from the documentation, not from `matches`.
pub fn spec_pattern_allows(pattern: &str, scheme: Option<&str>, host: Option<&str>, port: Option<&str>) -> bool {
    let p = pattern.to_ascii_lowercase();
    let (pscheme, rest) = if p.starts_with("https://") {
        (Some("https"), &p[8..])
    } else if p.starts_with("http://") {
        (Some("http"), &p[7..])
    } else {
        (None, &p[..])
    };
    let (phost, pport) = match rest.rfind(':') {
        Some(i) => (&rest[..i], Some(&rest[i + 1..])),
        None => (rest, None),
    };
    if let Some(s) = pscheme {
        if scheme != Some(s) {
            return false;
        }
    }
    if phost.is_empty() {
        return pscheme.is_some();
    }
    let Some(h) = host else {
        return false;
    };
    if pport != port {
        return false;
    }
    let h = h.to_ascii_lowercase();
    if let Some(suffix) = phost.strip_prefix("*.") {
        h.ends_with(&format!(".{suffix}"))
    } else {
        h == phost
    }
}

pub fn spec_allows(patterns: &[String], u: &Uri) -> bool {
    let port = u.port();
    let port = port.as_ref().map(|p| p.as_str());
    patterns.iter().any(|p| spec_pattern_allows(p, u.scheme_str(), u.host(), port))
}

/// Address blocks of the statement as inclusive numeric ranges.
pub const V4_BLOCKS: &[(u32, u32, &str)] = &[
    (0x0000_0000, 0x0000_0000, "unspecified"),
    (0x7f00_0000, 0x7fff_ffff, "loopback"),
    (0x0a00_0000, 0x0aff_ffff, "private"),
    (0xac10_0000, 0xac1f_ffff, "private"),
    (0xc0a8_0000, 0xc0a8_ffff, "private"),
    (0xa9fe_0000, 0xa9fe_ffff, "link-local"),
    (0xe000_0000, 0xefff_ffff, "multicast"),
    (0xffff_ffff, 0xffff_ffff, "broadcast"),
    (0xc000_0200, 0xc000_02ff, "documentation"),
    (0xc633_6400, 0xc633_64ff, "documentation"),
    (0xcb00_7100, 0xcb00_71ff, "documentation"),
    (0x6440_0000, 0x647f_ffff, "shared"),
];

pub fn spec_v4_block(ip: u32) -> Option<&'static str> {
    V4_BLOCKS.iter().find(|(lo, hi, _)| *lo <= ip && ip <= *hi).map(|b| b.2)
}

pub fn spec_v6_block(ip: Ipv6Addr) -> Option<&'static str> {
    let n = u128::from(ip);
    if n == 0 {
        return Some("unspecified");
    }
    if n == 1 {
        return Some("loopback");
    }
    if n >> 120 == 0xff {
        return Some("multicast");
    }
    if n >> 121 == 0x7e {
        return Some("unique-local");
    }
    if n >> 118 == 0x3fa {
        return Some("link-local");
    }
    if n >> 32 == 0xffff {
        return spec_v4_block(n as u32);
    }
    None
}

/// IPv4 number forms of inet_aton / the WHATWG host parser: 1–4 parts, each decimal, octal
/// (leading 0) or hex (0x), the last part filling the remaining bytes.
pub fn numeric_v4(host: &str) -> Option<u32> {
    let mut parts: Vec<&str> = host.split('.').collect();
    if parts.len() > 1 && parts.last() == Some(&"") {
        parts.pop();
    }
    if parts.is_empty() || parts.len() > 4 {
        return None;
    }
    let mut nums: Vec<u64> = vec![];
    for p in &parts {
        if p.is_empty() {
            return None;
        }
        let (radix, digits) = if p.starts_with("0x") || p.starts_with("0X") {
            (16, &p[2..])
        } else if p.len() > 1 && p.starts_with('0') {
            (8, &p[1..])
        } else {
            (10, &p[..])
        };
        if !digits.chars().all(|c| c.is_digit(radix)) || digits.len() > 16 {
            return None;
        }
        nums.push(if digits.is_empty() { 0 } else { u64::from_str_radix(digits, radix).ok()? });
    }
    let n = nums.len();
    if nums[..n - 1].iter().any(|v| *v > 255) {
        return None;
    }
    if nums[n - 1] >= 256u64.pow((5 - n) as u32) {
        return None;
    }
    let mut ip = nums[n - 1];
    for (i, v) in nums[..n - 1].iter().enumerate() {
        ip += v * 256u64.pow((3 - i) as u32);
    }
    Some(ip as u32)
}

/// Is this URI host one of the internal hosts named by the statement? Returns the category.
pub fn spec_internal_host(host: &str) -> Option<String> {
    let h = host.to_ascii_lowercase();
    if let Some(inner) = h.strip_prefix('[').and_then(|x| x.strip_suffix(']')) {
        return inner.parse::<Ipv6Addr>().ok().and_then(spec_v6_block).map(|c| format!("v6-{c}"));
    }
    let h = h.strip_suffix('.').unwrap_or(&h);
    if h == "localhost" || h.ends_with(".localhost") {
        return Some("localhost-name".to_string());
    }
    numeric_v4(h).and_then(spec_v4_block).map(|c| format!("v4-{c}"))
}

pub const SENSITIVE: [&str; 4] = ["authorization", "cookie", "proxy-authorization", "host"];

// ---------------------------------------------------------------- generators

pub const DOMAINS: &[&str] = &[
    "example.org",
    "contentauthenticity.org",
    "cdn.example.org",
    "example.com",
    "a.b.example.net",
    "org",
    "xn--bcher-kva.example",
    "192.0.2.1",
    "93.184.216.34",
    "[2001:db8::1]",
    "[::1]",
    "localhost",
    "127.0.0.1",
];

pub fn flip_case(rng: &mut Rng, s: &str) -> String {
    s.chars()
        .map(|c| if rng.chance(1, 3) { c.to_ascii_uppercase() } else { c })
        .collect()
}

pub fn label(rng: &mut Rng) -> String {
    let n = rng.range(1, 5) as usize;
    (0..n).map(|_| *rng.pick(&['a', 'b', 'x', 'f', 'e', '0', '7', '-'])).collect()
}

pub fn gen_pattern(rng: &mut Rng) -> String {
    if rng.chance(1, 25) {
        return rng
            .pick(&["", " ", "https://", "http://", "https:// ", "*", "*.", ":", "*.:80", "ünï.example", "*.ü.example", "http://:8080", "HTTPS://", "*.*.example.org", "[::1]", "[::1]:8080", "ftp://example.org", "http:/example.org", "example.org:", "*.org"])
            .to_string();
    }
    let scheme = *rng.pick(&["", "", "", "https://", "http://", "HTTPS://", "Http://"]);
    let dom = *rng.pick(DOMAINS);
    let host = match rng.below(6) {
        0 | 1 => dom.to_string(),
        2 | 3 => format!("*.{dom}"),
        4 => flip_case(rng, dom),
        _ => format!("*.{}", flip_case(rng, dom)),
    };
    let port = *rng.pick(&["", "", "", ":443", ":80", ":8080", ":080", ":"]);
    format!("{scheme}{host}{port}")
}

pub fn gen_allow(rng: &mut Rng) -> Option<Vec<String>> {
    match rng.below(10) {
        0 => None,
        1 => Some(vec![]),
        _ => Some((0..rng.range(1, 4)).map(|_| gen_pattern(rng)).collect()),
    }
}

/// `host[:port]` (with scheme when the pattern has one) built to be *near* a pattern: exact,
/// sub-domain, sibling prefix, trailing/leading dot, case, wrong/missing port.
pub fn authority_near(rng: &mut Rng, pattern: &str) -> (Option<&'static str>, String) {
    let p = pattern.to_ascii_lowercase();
    let (scheme, rest) = if let Some(r) = p.strip_prefix("https://") {
        (Some("https"), r.to_string())
    } else if let Some(r) = p.strip_prefix("http://") {
        (Some("http"), r.to_string())
    } else {
        (None, p.clone())
    };
    let (host, port) = match rest.rfind(':') {
        Some(i) if !rest.ends_with(']') => (rest[..i].to_string(), Some(rest[i + 1..].to_string())),
        _ => (rest.clone(), None),
    };
    let base = host.strip_prefix("*.").unwrap_or(&host).to_string();
    let wild = host.starts_with("*.");
    let h = match rng.below(12) {
        0 | 1 | 2 => {
            if wild {
                format!("{}.{base}", label(rng))
            } else {
                base.clone()
            }
        }
        3 => base.clone(),
        4 => format!("{}.{base}", label(rng)),
        5 => format!("{}.{}.{base}", label(rng), label(rng)),
        6 => format!("{}{base}", label(rng)),
        7 => format!("{base}."),
        8 => format!(".{base}"),
        9 => format!("{base}.{}", label(rng)),
        10 => {
            let l = label(rng);
            flip_case(rng, &format!("{l}.{base}"))
        }
        _ => flip_case(rng, &base),
    };
    let port = match rng.below(8) {
        0 => None,
        1 => Some("80".to_string()),
        2 => Some("0443".to_string()),
        _ => port,
    };
    let auth = match port {
        Some(p) => format!("{h}:{p}"),
        None => h,
    };
    let scheme = if rng.chance(1, 5) { Some(*rng.pick(&["http", "https", "ftp"])) } else { scheme };
    (scheme, auth)
}

/// `(scheme, host[:port])` that the documented rule admits for `pattern` (None for patterns that
/// admit nothing useful).
pub fn authority_matching(rng: &mut Rng, pattern: &str) -> Option<(Option<&'static str>, String)> {
    let p = pattern.to_ascii_lowercase();
    let (scheme, rest) = if let Some(r) = p.strip_prefix("https://") {
        (Some("https"), r.to_string())
    } else if let Some(r) = p.strip_prefix("http://") {
        (Some("http"), r.to_string())
    } else {
        (None, p.clone())
    };
    let (host, port) = match rest.rfind(':') {
        Some(i) if !rest.ends_with(']') => (rest[..i].to_string(), Some(rest[i + 1..].to_string())),
        _ => (rest.clone(), None),
    };
    if host.is_empty() || host.contains(' ') || !host.is_ascii() {
        return None;
    }
    let h = match host.strip_prefix("*.") {
        Some(base) => format!("{}.{base}", label(rng)),
        None => host.clone(),
    };
    let h = if rng.chance(1, 4) { flip_case(rng, &h) } else { h };
    Some((scheme, match port {
        Some(p) => format!("{h}:{p}"),
        None => h,
    }))
}

/// An initial request URI that the allow-list (if any) admits, when it admits anything.
pub fn gen_good_uri_string(rng: &mut Rng, allow: &Option<Vec<String>>) -> String {
    if let Some(v) = allow {
        if !v.is_empty() {
            let p = rng.pick(v).clone();
            if let Some((scheme, auth)) = authority_matching(rng, &p) {
                let s = scheme.unwrap_or_else(|| *rng.pick(&["http", "https"]));
                return format!("{s}://{auth}{}", gen_path(rng));
            }
        }
    }
    gen_uri_string(rng, allow)
}

pub fn gen_path(rng: &mut Rng) -> String {
    rng.pick(&["", "/", "/a/b", "/manifest.c2pa", "/x?y=1", "/a/../b", "/%41", "/p;q", "/a#f"]).to_string()
}

/// An initial request URI string (not necessarily parseable).
pub fn gen_uri_string(rng: &mut Rng, allow: &Option<Vec<String>>) -> String {
    let near = match allow {
        Some(v) if !v.is_empty() && rng.chance(4, 5) => Some(rng.pick(v).clone()),
        _ => None,
    };
    let (scheme, auth) = match near {
        Some(p) => authority_near(rng, &p),
        None => {
            let d = *rng.pick(DOMAINS);
            let h = match rng.below(4) {
                0 => d.to_string(),
                1 => format!("{}.{d}", label(rng)),
                2 => flip_case(rng, d),
                _ => format!("{d}."),
            };
            let port = *rng.pick(&["", "", ":80", ":443", ":8080"]);
            (None, format!("{h}{port}"))
        }
    };
    let user = if rng.chance(1, 8) {
        rng.pick(&["user@", "user:pw@", "example.org@", "example.org:443@", "@"]).to_string()
    } else {
        String::new()
    };
    match rng.below(20) {
        0 => format!("{user}{auth}"),             // authority form
        1 => gen_path(rng),                        // origin form / empty
        2 => "*".to_string(),
        _ => {
            let s = scheme.map(|s| s.to_string()).unwrap_or_else(|| rng.pick(&["http", "https", "https", "HTTP", "ftp"]).to_string());
            format!("{s}://{user}{auth}{}", gen_path(rng))
        }
    }
}

pub fn gen_v4(rng: &mut Rng) -> [u8; 4] {
    if rng.chance(1, 6) {
        return [rng.range(1, 223) as u8, rng.next() as u8, rng.next() as u8, rng.next() as u8];
    }
    let (lo, hi, _) = *rng.pick(V4_BLOCKS);
    let ip = match rng.below(5) {
        0 => lo,
        1 => hi,
        2 => lo.wrapping_sub(1),
        3 => hi.wrapping_add(1),
        _ => lo + (rng.next() as u32) % (hi - lo + 1).max(1),
    };
    ip.to_be_bytes()
}

/// An IPv4 address in one of the notations of the statement's grammar.
pub fn enc_v4(rng: &mut Rng, a: [u8; 4]) -> String {
    let n = u32::from_be_bytes(a);
    match rng.below(16) {
        0..=3 => format!("{}.{}.{}.{}", a[0], a[1], a[2], a[3]),
        4 => format!("{}.{}.{}.{}.", a[0], a[1], a[2], a[3]),
        5 => format!("{n}"),
        6 => format!("0x{n:08x}"),
        7 => format!("0X{n:X}"),
        8 => format!("0{:o}.0{:o}.0{:o}.0{:o}", a[0], a[1], a[2], a[3]),
        9 => format!("0x{:x}.0x{:x}.0x{:x}.0x{:x}", a[0], a[1], a[2], a[3]),
        10 => format!("{}.0x{:x}.{}.{}", a[0], a[1], a[2], a[3]),
        11 => format!("{}.{}", a[0], n & 0x00ff_ffff),
        12 => format!("{}.{}.{}", a[0], a[1], n & 0xffff),
        13 => format!("{}.{}.{}.{}", a[0], a[1], a[2], a[3]).bytes().map(|b| if b.is_ascii_digit() { format!("%{b:02x}") } else { (b as char).to_string() }).collect(),
        14 => format!("{:03}.{:03}.{:03}.{:03}", a[0], a[1], a[2], a[3]),
        _ => format!("0{n:o}"),
    }
}

pub fn enc_v6_of_v4(rng: &mut Rng, a: [u8; 4]) -> String {
    let hi = u16::from_be_bytes([a[0], a[1]]);
    let lo = u16::from_be_bytes([a[2], a[3]]);
    let d = format!("{}.{}.{}.{}", a[0], a[1], a[2], a[3]);
    match rng.below(9) {
        0 | 1 => format!("[::ffff:{d}]"),
        2 => format!("[::ffff:{hi:x}:{lo:x}]"),
        3 => format!("[0:0:0:0:0:ffff:{d}]"),
        4 => format!("[0000:0000:0000:0000:0000:FFFF:{hi:04X}:{lo:04X}]"),
        5 => format!("[::{d}]"),
        6 => format!("[64:ff9b::{d}]"),
        7 => format!("[2002:{hi:x}:{lo:x}::1]"),
        _ => format!("[::FFFF:{d}]"),
    }
}

pub const V6_LITERALS: &[&str] = &[
    "[::1]", "[::]", "[0:0:0:0:0:0:0:1]", "[0:0:0:0:0:0:0:0]", "[fe80::1]", "[FE80::abcd]", "[febf:ffff::1]", "[fec0::1]",
    "[fc00::1]", "[fd12:3456:789a::1]", "[fdff:ffff:ffff:ffff:ffff:ffff:ffff:ffff]", "[fe00::1]", "[fbff::1]",
    "[ff02::1]", "[ff00::]", "[FFFF:ffff::1]", "[feff::1]", "[2606:2800:220:1:248:1893:25c8:1946]", "[2001:db8::1]",
    "[2001:4860:4860::8888]", "[::2]", "[1::]", "[::ffff:0:0]", "[::fffe:127.0.0.1]", "[0:0:0:0:0:0:0:2]",
];

pub const NAMES: &[&str] = &[
    "localhost", "LOCALHOST", "localhost.", "LocalHost.", "a.localhost", "a.b.localhost.", "x.LOCALHOST",
    "localhost.localdomain", "notlocalhost", "localhost.example.com", "localhostx", "example.com", "sub.example.com",
    "contentauthenticity.org", "cafe.example.com", "0x.example.com", "1e3.example", "example.org", "cdn.example.org",
];

/// A host for a redirect target; `friendly` hosts are those the allow-list of the case admits.
pub fn gen_target_host(rng: &mut Rng, friendly: &[String], internal_bias: u64) -> String {
    if !friendly.is_empty() && rng.chance(3, 5) {
        return rng.pick(friendly).clone();
    }
    if rng.below(100) >= internal_bias {
        // global
        return match rng.below(5) {
            0 => rng.pick(&["example.com", "sub.example.com", "contentauthenticity.org", "example.org", "cdn.example.org"]).to_string(),
            1 => format!("{}.example.com", label(rng)),
            2 => rng.pick(&["93.184.216.34", "8.8.8.8", "1.1.1.1", "172.32.0.1", "100.128.0.1", "192.0.3.1", "223.255.255.255"]).to_string(),
            3 => rng.pick(&["[2606:2800:220:1:248:1893:25c8:1946]", "[2001:4860:4860::8888]", "[2a00:1450:4001:81b::200e]"]).to_string(),
            _ => rng.pick(NAMES).to_string(),
        };
    }
    match rng.below(8) {
        0..=2 => {
            let a = gen_v4(rng);
            enc_v4(rng, a)
        }
        3 | 4 => {
            let a = gen_v4(rng);
            enc_v6_of_v4(rng, a)
        }
        5 => rng.pick(V6_LITERALS).to_string(),
        _ => rng.pick(NAMES).to_string(),
    }
}

/// A `Location` header value (bytes valid for `HeaderValue`).
pub fn gen_location(rng: &mut Rng, friendly: &[String], internal_bias: u64) -> Vec<u8> {
    let s = match rng.below(20) {
        0..=3 => rng.pick(&["/next", "next", "../up", "?q=1", "/a/b/c", "./", "/", "x/y?z#f", "#frag", ""]).to_string(),
        4 => format!("//{}/sr", gen_target_host(rng, friendly, internal_bias)),
        5 => {
            // rare shapes: other schemes, userinfo, whitespace, backslashes, broken
            let h = gen_target_host(rng, friendly, internal_bias);
            match rng.below(9) {
                0 => format!("ftp://{h}/f"),
                1 => format!("foo://{h}/opaque"),
                2 => format!("http://user:pw@{h}/u"),
                3 => format!(" http://{h}/ws "),
                4 => format!("http:\\\\{h}\\bs"),
                5 => format!("HTTP://{h}:80/up"),
                6 => "http://".to_string(),
                7 => format!("http://{h}:99999/badport"),
                _ => format!("mailto:{h}"),
            }
        }
        6 => {
            // non-ASCII bytes: `HeaderValue::to_str` fails
            let mut v = b"http://".to_vec();
            v.extend("１２７.0.0.1".as_bytes());
            v.extend(b"/fw");
            return v;
        }
        _ => {
            let scheme = *rng.pick(&["http", "http", "https", "https", "HTTPS"]);
            let h = gen_target_host(rng, friendly, internal_bias);
            let port = *rng.pick(&["", "", "", "", ":80", ":443", ":8080"]);
            let port = if h.contains(':') && !h.starts_with('[') { "" } else { port };
            format!("{scheme}://{h}{port}{}", rng.pick(&["/", "/hop", "/a/b?c=d", ""]))
        }
    };
    s.into_bytes()
}

pub fn gen_headers(rng: &mut Rng) -> Vec<(String, Vec<u8>)> {
    let names = [
        "Authorization", "authorization", "AUTHORIZATION", "Cookie", "cookie", "COOKIE", "Proxy-Authorization",
        "proxy-authorization", "Host", "HOST", "accept", "User-Agent", "x-api-key", "authorization-x", "xcookie",
        "cookie2", "content-type", "Proxy-Authenticate", "hosts", "x-forwarded-host",
    ];
    let n = match rng.below(8) {
        0 => 0,
        1 | 2 => 1,
        _ => rng.range(2, 7),
    };
    (0..n)
        .map(|_| {
            let name = rng.pick(&names).to_string();
            let len = rng.below(6) as usize;
            let val: Vec<u8> = (0..len).map(|_| *rng.pick(b"abcXYZ019 =;,/-")).collect();
            (name, val)
        })
        .collect()
}

/// A redirect script of `len` redirect hops followed by a final reply.
pub fn gen_script(rng: &mut Rng, len: usize, friendly: &[String], internal_bias: u64) -> Vec<Reply> {
    let mut s = vec![];
    for _ in 0..len {
        let status = match rng.below(12) {
            0 => 300,
            1 => 301,
            2 | 3 | 4 => 302,
            5 => 303,
            6 => 307,
            7 => 308,
            8 => 399,
            9 => 304,
            10 => 305,
            _ => 302,
        };
        let mut locations = vec![gen_location(rng, friendly, internal_bias)];
        if rng.chance(1, 20) {
            locations.push(gen_location(rng, friendly, internal_bias));
        }
        s.push(Reply::Resp { status, locations });
    }
    s.push(match rng.below(12) {
        0 => Reply::Io,
        1 => Reply::Resp { status: 302, locations: vec![] },
        2 => Reply::Resp { status: 200, locations: vec![gen_location(rng, friendly, internal_bias)] },
        3 => Reply::Resp { status: *rng.pick(&[299u16, 400, 404, 500, 204, 100]), locations: vec![gen_location(rng, friendly, internal_bias)] },
        _ => Reply::Resp { status: *rng.pick(&[200u16, 200, 200, 404, 500]), locations: vec![] },
    });
    s
}

/// Hosts (with port) that the documented rule admits for some pattern of the list.
pub fn friendly_hosts(rng: &mut Rng, allow: &Option<Vec<String>>) -> Vec<String> {
    let mut out = vec![];
    if let Some(v) = allow {
        for p in v {
            for k in 0..4 {
                let auth = if k < 3 { authority_matching(rng, p).map(|x| x.1) } else { Some(authority_near(rng, p).1) };
                if let Some(auth) = auth {
                    if !auth.is_empty() && !auth.contains(' ') {
                        out.push(auth);
                    }
                }
            }
        }
    }
    out
}

// ---------------------------------------------------------------- loopback listener

/// A plain HTTP/1.1 listener on 127.0.0.1: `/r/<hex location>` answers 302 with that Location,
/// anything else 200 with an empty body. Records `METHOD path` of every request it receives.
pub struct Loopback {
    pub port: u16,
    pub hits: Arc<Mutex<Vec<String>>>,
    stop: Arc<AtomicBool>,
    handle: Option<std::thread::JoinHandle<()>>,
}

impl Loopback {
    pub fn base(&self) -> String {
        format!("http://127.0.0.1:{}", self.port)
    }

    /// URL on this listener that answers with a redirect to `loc`.
    pub fn redirect_to(&self, loc: &str) -> String {
        format!("{}/r/{}", self.base(), hex::encode(loc))
    }

    pub fn take(&self) -> Vec<String> {
        std::mem::take(&mut *self.hits.lock().unwrap())
    }

    pub fn shutdown(&mut self) {
        self.stop.store(true, Ordering::SeqCst);
        if let Some(h) = self.handle.take() {
            let _ = h.join();
        }
    }
}

pub fn loopback() -> Option<Loopback> {
    let listener = TcpListener::bind("127.0.0.1:0").ok()?;
    let port = listener.local_addr().ok()?.port();
    listener.set_nonblocking(true).ok()?;
    let hits = Arc::new(Mutex::new(vec![]));
    let stop = Arc::new(AtomicBool::new(false));
    let (h2, s2) = (hits.clone(), stop.clone());
    let handle = std::thread::spawn(move || {
        while !s2.load(Ordering::SeqCst) {
            match listener.accept() {
                Ok((mut stream, _)) => {
                    let _ = stream.set_nonblocking(false);
                    let _ = stream.set_read_timeout(Some(std::time::Duration::from_secs(5)));
                    let mut reader = BufReader::new(stream.try_clone().expect("clone"));
                    let mut first = String::new();
                    let _ = reader.read_line(&mut first);
                    let mut content_length = 0usize;
                    loop {
                        let mut l = String::new();
                        match reader.read_line(&mut l) {
                            Ok(n) if n > 2 => {
                                if let Some(v) = l.to_ascii_lowercase().strip_prefix("content-length:") {
                                    content_length = v.trim().parse().unwrap_or(0);
                                }
                            }
                            _ => break,
                        }
                    }
                    let mut body = vec![0u8; content_length.min(1 << 20)];
                    let _ = reader.read_exact(&mut body);
                    let mut it = first.split_whitespace();
                    let method = it.next().unwrap_or("?").to_string();
                    let path = it.next().unwrap_or("/").to_string();
                    h2.lock().unwrap().push(format!("{method} {path}"));
                    let resp = match path.strip_prefix("/r/").and_then(|h| hex::decode(h).ok()) {
                        Some(loc) => format!(
                            "HTTP/1.1 302 Found\r\nLocation: {}\r\nContent-Length: 0\r\nConnection: close\r\n\r\n",
                            String::from_utf8_lossy(&loc)
                        ),
                        None => "HTTP/1.1 200 OK\r\nContent-Length: 0\r\nConnection: close\r\n\r\n".to_string(),
                    };
                    let _ = stream.write_all(resp.as_bytes());
                }
                Err(_) => std::thread::sleep(std::time::Duration::from_millis(2)),
            }
        }
    });
    Some(Loopback { port, hits, stop, handle: Some(handle) })
}

// ---------------------------------------------------------------- request sites of the SDK

/// The request sites of `Model/C26.lean` (`Site`), driven on the real code.
#[derive(Clone, Copy, Debug, PartialEq, Eq)]
pub enum SiteKind {
    /// `Context::resolver()` of the configured Context
    Ctx,
    /// `Builder::sign` with a signer that names a time authority: the signer's default
    /// `send_timestamp_request` (builds `Context::new()`)
    Tsa,
    /// the settings-configured remote signer (`SyncGenericResolver::with_redirects()`)
    Remote,
}

impl SiteKind {
    pub fn tag(self) -> &'static str {
        match self {
            SiteKind::Ctx => "ctx",
            SiteKind::Tsa => "tsa",
            SiteKind::Remote => "remote",
        }
    }
}

const FIXTURE_CERT: &str = "/repo/sdk/tests/fixtures/certs/es256.pub";
const FIXTURE_KEY: &str = "/repo/sdk/tests/fixtures/certs/es256.pem";
const FIXTURE_JPEG: &str = "/repo/sdk/tests/fixtures/earth_apollo17.jpg";

fn site_class(e: &HttpResolverError) -> &'static str {
    match e {
        HttpResolverError::UriDisallowed { .. } => "uri-disallowed",
        HttpResolverError::RedirectDisallowed { .. } => "redirect-disallowed",
        HttpResolverError::RedirectTargetDisallowed { .. } => "target-disallowed",
        _ => "err",
    }
}

/// One request issued at `kind` under the caller's configuration (`allow`, `redirects`) to `url`
/// (on the loopback listener). Returns the outcome class (`ok` = the transport's final answer was
/// delivered, a refusal class, or `err`) and the requests the listener received.
pub fn run_site(lb: &Loopback, kind: SiteKind, allow: &Option<Vec<String>>, redirects: bool, url: &str, async_mode: bool) -> Result<(String, Vec<String>), String> {
    use c2pa::{crypto::time_stamp::TimeStampError, Builder, Context, Error, SigningAlg};
    let mut core = serde_json::json!({ "allow_redirects": redirects });
    if let Some(v) = allow {
        core["allowed_network_hosts"] = serde_json::json!(v);
    }
    let mut settings = serde_json::json!({ "core": core });
    let cert = std::fs::read(FIXTURE_CERT).map_err(|e| format!("fixture cert: {e}"))?;
    if kind == SiteKind::Remote {
        settings["signer"] = serde_json::json!({ "remote": { "url": url, "alg": "es256", "sign_cert": String::from_utf8_lossy(&cert) } });
    }
    let ctx = Context::new().with_settings(settings.to_string().as_str()).map_err(|e| format!("settings: {e}"))?;
    lb.take();
    match kind {
        SiteKind::Ctx => {
            let rq = Request::post(url).body(b"data".to_vec()).map_err(|e| e.to_string())?;
            let class = match ctx_resolve(&ctx, rq, async_mode) {
                Ok(_) => "ok",
                Err(e) => site_class(&e),
            };
            Ok((class.to_string(), lb.take()))
        }
        SiteKind::Remote => {
            let signer = ctx.signer().map_err(|e| format!("remote signer: {e}"))?;
            let class = if signer.sign(b"data").is_ok() { "ok" } else { "err" };
            Ok((class.to_string(), lb.take()))
        }
        SiteKind::Tsa => {
            let key = std::fs::read(FIXTURE_KEY).map_err(|e| format!("fixture key: {e}"))?;
            let src = std::fs::read(FIXTURE_JPEG).map_err(|e| format!("fixture jpeg: {e}"))?;
            let signer = c2pa::create_signer::from_keys(&cert, &key, SigningAlg::Es256, Some(url.to_string())).map_err(|e| format!("signer: {e}"))?;
            // outcome class: the signer's own request function (the error variant survives here)
            let class = match signer.send_timestamp_request(b"verif") {
                None => "no-request",
                Some(Ok(_)) => "ok",
                // the listener is no time authority: its 200 arrives as "HTTP error response"
                Some(Err(Error::TimeStampError(TimeStampError::HttpErrorResponse(..)))) => "ok",
                Some(Err(Error::TimeStampError(TimeStampError::HttpResolverError(e)))) => site_class(&e),
                Some(Err(_)) => "err",
            };
            lb.take();
            // requests: signing end to end with the configured Context
            let mut b = Builder::from_context(ctx)
                .with_definition(r#"{"title":"site","format":"image/jpeg","claim_generator_info":[{"name":"verif","version":"1"}]}"#)
                .map_err(|e| format!("definition: {e}"))?;
            let mut out = Cursor::new(Vec::new());
            let _ = b.sign(signer.as_ref(), "image/jpeg", &mut Cursor::new(src), &mut out);
            Ok((class.to_string(), lb.take()))
        }
    }
}

/// One request through the default resolver stack of `ctx`: `resolver()` (built by
/// `build_default_sync_resolver`) or `resolver_async()` (built by `build_default_async_resolver`,
/// driven on a current-thread tokio runtime).
pub fn ctx_resolve(ctx: &c2pa::Context, rq: Request<Vec<u8>>, async_mode: bool) -> Result<Response<Box<dyn Read>>, HttpResolverError> {
    if async_mode {
        let rt = tokio::runtime::Builder::new_current_thread().enable_all().build().expect("tokio runtime");
        let resolver = ctx.resolver_async();
        rt.block_on(resolver.http_resolve_async(rq))
    } else {
        ctx.resolver().http_resolve(rq)
    }
}

/// The URI of a request the listener recorded.
pub fn hit_uri(lb: &Loopback, hit: &str) -> Option<Uri> {
    let path = hit.split_whitespace().nth(1)?;
    format!("{}{}", lb.base(), path).parse().ok()
}
