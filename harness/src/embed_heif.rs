//! HEIF-style BMFF assets (ftyp, meta{hdlr,pitm,iloc,idat,iref}, mdat) and an independent
//! resolver of every item's bytes per ISO/IEC 14496-12 §8.11.3 (ItemLocationBox):
//! construction_method 0 (file offset), 1 (idat offset), 2 (item offset through the `iloc`
//! item reference), base_offset, offset/length/base_offset/index sizes 0/4/8, several extents.

use crate::common::Rng;
use crate::embed_common::*;
use crate::embed_lex2::{bmff_c2pa_box, bx};

#[derive(Clone, Copy, Debug)]
pub struct IlocParams {
    pub version: u8,
    pub offset_size: u8,
    pub length_size: u8,
    pub base_offset_size: u8,
    pub index_size: u8,
}

#[derive(Clone, Debug)]
struct GenItem {
    id: u32,
    cm: u8,
    /// chunks of payload, one per extent
    parts: Vec<Vec<u8>>,
    /// which mdat holds the data (cm 0): 0 or 1
    mdat: usize,
    /// base_offset carries the position (extent offsets relative to it)
    use_base: bool,
    /// cm 2: (referenced item id, offset inside it, length)
    item_ref: Option<(u32, usize, usize)>,
}

fn put(v: &mut Vec<u8>, size: u8, val: u64) {
    match size {
        4 => v.extend_from_slice(&(val as u32).to_be_bytes()),
        8 => v.extend_from_slice(&val.to_be_bytes()),
        _ => {}
    }
}

fn fullbox(ty: &[u8; 4], version: u8, body: &[u8]) -> Vec<u8> {
    let mut b = vec![version, 0, 0, 0];
    b.extend_from_slice(body);
    bx(ty, &b)
}

/// (item id, per-extent (absolute-or-relative offset, length)) -> iloc box
fn build_iloc(p: IlocParams, items: &[GenItem], pos: &dyn Fn(&GenItem, usize) -> u64) -> Vec<u8> {
    let mut b = vec![(p.offset_size << 4) | p.length_size, (p.base_offset_size << 4) | if p.version >= 1 { p.index_size } else { 0 }];
    if p.version < 2 {
        b.extend_from_slice(&(items.len() as u16).to_be_bytes());
    } else {
        b.extend_from_slice(&(items.len() as u32).to_be_bytes());
    }
    for it in items {
        if p.version < 2 {
            b.extend_from_slice(&(it.id as u16).to_be_bytes());
        } else {
            b.extend_from_slice(&it.id.to_be_bytes());
        }
        if p.version >= 1 {
            b.extend_from_slice(&(it.cm as u16).to_be_bytes());
        }
        b.extend_from_slice(&[0, 0]); // data_reference_index
        let first = pos(it, 0);
        let base = if it.use_base && p.base_offset_size > 0 { first } else { 0 };
        put(&mut b, p.base_offset_size, base);
        b.extend_from_slice(&(it.parts.len() as u16).to_be_bytes());
        for (k, part) in it.parts.iter().enumerate() {
            if p.version >= 1 && p.index_size > 0 {
                put(&mut b, p.index_size, if it.cm == 2 { 1 } else { 0 });
            }
            put(&mut b, p.offset_size, pos(it, k) - base);
            put(&mut b, p.length_size, part.len() as u64);
        }
    }
    fullbox(b"iloc", p.version, &b)
}

pub fn gen_params(rng: &mut Rng) -> IlocParams {
    loop {
        let version = rng.below(3) as u8;
        let p = IlocParams {
            version,
            offset_size: *rng.pick(&[0u8, 4, 4, 8]),
            length_size: *rng.pick(&[4u8, 4, 8]),
            base_offset_size: *rng.pick(&[0u8, 0, 4, 8]),
            index_size: if version >= 1 { *rng.pick(&[0u8, 0, 4, 8]) } else { 0 },
        };
        if p.offset_size == 0 && p.base_offset_size == 0 {
            continue;
        }
        return p;
    }
}

/// Layouts (c2pa present only when `existing`):
/// 0: ftyp [c2pa] meta mdat      1: ftyp [c2pa] mdat meta     2: ftyp mdat meta [c2pa]
/// 3: ftyp meta mdat [c2pa]      4: ftyp mdat [c2pa] meta     5: ftyp mdat [c2pa] meta mdat2
pub fn gen_heif(rng: &mut Rng, existing: Option<&Store>, layout: u64, p: IlocParams) -> Asset {
    let ftyp = bx(b"ftyp", b"heic\0\0\0\0mif1heic");
    let two_mdats = layout == 5;
    let mut items: Vec<GenItem> = vec![];
    let n0 = rng.range(1, 3) as usize;
    for i in 0..n0 {
        let multi = p.offset_size != 0 && rng.chance(1, 2);
        let parts: Vec<Vec<u8>> = (0..if multi { 2 } else { 1 }).map(|_| { let k = rng.range(1, if i == 0 { 150 } else { 30 }) as usize; rng.bytes(k) }).collect();
        items.push(GenItem { id: (i + 1) as u32, cm: 0, parts, mdat: if two_mdats && i % 2 == 1 { 1 } else { 0 }, use_base: p.offset_size == 0 || rng.chance(1, 2), item_ref: None });
    }
    if p.version >= 1 {
        let multi = p.offset_size != 0 && rng.chance(1, 2);
        let parts: Vec<Vec<u8>> = (0..if multi { 2 } else { 1 }).map(|_| { let k = rng.range(1, 20) as usize; rng.bytes(k) }).collect();
        items.push(GenItem { id: 10, cm: 1, parts, mdat: 0, use_base: p.offset_size == 0 || rng.chance(1, 2), item_ref: None });
        // item-relative: a window into item 1
        let src_len: usize = items[0].parts.iter().map(|x| x.len()).sum();
        if src_len >= 2 {
            let off = rng.below(src_len as u64 - 1) as usize;
            let len = rng.range(1, (src_len - off) as u64) as usize;
            items.push(GenItem { id: 11, cm: 2, parts: vec![vec![0; len]], mdat: 0, use_base: p.offset_size == 0 || rng.chance(1, 2), item_ref: Some((1, off, len)) });
        }
    }
    // payload placement: mdat bodies (with a little slack between extents), idat body
    let mut mdat_body: [Vec<u8>; 2] = [vec![], vec![]];
    // leading filler so that idat-relative offsets are not all tiny numbers
    let mut idat_body: Vec<u8> = rng.bytes(rng.clone().below(90) as usize);
    let mut rel: Vec<Vec<usize>> = vec![]; // per item, per extent: offset inside its container
    for it in &items {
        let mut r = vec![];
        for part in &it.parts {
            match it.cm {
                0 => {
                    let body = &mut mdat_body[it.mdat];
                    if rng.chance(1, 3) {
                        body.extend_from_slice(&rng.bytes(3));
                    }
                    r.push(body.len());
                    body.extend_from_slice(part);
                }
                1 => {
                    r.push(idat_body.len());
                    idat_body.extend_from_slice(part);
                    if rng.chance(1, 3) {
                        idat_body.push(0xEE);
                    }
                }
                _ => r.push(it.item_ref.map(|x| x.1).unwrap_or(0)),
            }
        }
        rel.push(r);
    }
    if mdat_body[0].is_empty() {
        mdat_body[0] = rng.bytes(4);
    }
    let mdat = [bx(b"mdat", &mdat_body[0]), bx(b"mdat", &mdat_body[1])];
    let c2pa = existing.map(|s| bmff_c2pa_box(&s.bytes)).unwrap_or_default();

    let build_meta = |mdat_at: [usize; 2]| -> Vec<u8> {
        let hdlr = fullbox(b"hdlr", 0, b"\0\0\0\0pict\0\0\0\0\0\0\0\0\0\0\0\0\0");
        let pitm = fullbox(b"pitm", 0, &[0, 1]);
        let pos = |it: &GenItem, k: usize| -> u64 {
            let idx = items.iter().position(|x| x.id == it.id).unwrap_or(0);
            match it.cm {
                0 => (mdat_at[it.mdat] + 8 + rel[idx][k]) as u64,
                _ => rel[idx][k] as u64,
            }
        };
        let iloc = build_iloc(p, &items, &pos);
        let idat = bx(b"idat", &idat_body);
        let mut kids = [hdlr, pitm, iloc].concat();
        if p.version >= 1 {
            kids.extend_from_slice(&idat);
            if items.iter().any(|x| x.cm == 2) {
                let mut r = vec![];
                r.extend_from_slice(&bx(b"iloc", &[0, 11, 0, 1, 0, 1]));
                kids.extend_from_slice(&fullbox(b"iref", 0, &r));
            }
        }
        fullbox(b"meta", 0, &kids)
    };
    let meta_len = build_meta([0, 0]).len();
    let pieces: Vec<&str> = match layout {
        0 => vec!["c2pa", "meta", "mdat"],
        1 => vec!["c2pa", "mdat", "meta"],
        2 => vec!["mdat", "meta", "c2pa"],
        3 => vec!["meta", "mdat", "c2pa"],
        4 => vec!["mdat", "c2pa", "meta"],
        _ => vec!["mdat", "c2pa", "meta", "mdat2"],
    };
    let mut at = ftyp.len();
    let mut mdat_at = [0usize; 2];
    for pc in &pieces {
        match *pc {
            "c2pa" => at += c2pa.len(),
            "meta" => at += meta_len,
            "mdat" => {
                mdat_at[0] = at;
                at += mdat[0].len();
            }
            _ => {
                mdat_at[1] = at;
                at += mdat[1].len();
            }
        }
    }
    let meta = build_meta(mdat_at);
    let mut b = ftyp;
    for pc in &pieces {
        match *pc {
            "c2pa" => b.extend_from_slice(&c2pa),
            "meta" => b.extend_from_slice(&meta),
            "mdat" => b.extend_from_slice(&mdat[0]),
            _ => b.extend_from_slice(&mdat[1]),
        }
    }
    Asset {
        family: Family::Bmff,
        fmt: "heic",
        bytes: b,
        desc: format!(
            "heif-layout{layout}-v{}-o{}l{}b{}i{}{}",
            p.version,
            p.offset_size,
            p.length_size,
            p.base_offset_size,
            p.index_size,
            if existing.is_some() { "+cai" } else { "" }
        ),
        existing: existing.cloned(),
    }
}

// ───────────────────────── independent item resolver ─────────────────────────

fn rd(b: &[u8], o: &mut usize, size: usize) -> Option<u64> {
    let s = b.get(*o..*o + size)?;
    *o += size;
    Some(s.iter().fold(0u64, |a, x| (a << 8) | *x as u64))
}

fn boxes(b: &[u8], mut p: usize, end: usize) -> Option<Vec<([u8; 4], usize, usize)>> {
    // (type, payload start, box end)
    let mut v = vec![];
    while p + 8 <= end {
        let mut o = p;
        let mut size = rd(b, &mut o, 4)? as usize;
        let ty = [b[p + 4], b[p + 5], b[p + 6], b[p + 7]];
        let mut hdr = 8;
        if size == 1 {
            o = p + 8;
            size = rd(b, &mut o, 8)? as usize;
            hdr = 16;
        } else if size == 0 {
            size = end - p;
        }
        if size < hdr || p + size > end {
            return None;
        }
        v.push((ty, p + hdr, p + size));
        p += size;
    }
    Some(v)
}

#[derive(Debug, Clone, PartialEq)]
pub struct ResolvedItem {
    pub id: u32,
    pub cm: u8,
    pub data: Result<Vec<u8>, String>,
}

struct RawItem {
    id: u32,
    cm: u8,
    base: u64,
    extents: Vec<(u64, u64, u64)>, // index, offset, length
}

/// Resolve every item of the top-level `meta` box. `None` when there is no meta/iloc.
pub fn heif_items(b: &[u8]) -> Option<Vec<ResolvedItem>> {
    let top = boxes(b, 0, b.len())?;
    let (_, ms, me) = *top.iter().find(|x| &x.0 == b"meta")?;
    let kids = boxes(b, ms + 4, me)?;
    let (_, is, _ie) = *kids.iter().find(|x| &x.0 == b"iloc")?;
    let idat: &[u8] = kids.iter().find(|x| &x.0 == b"idat").map(|x| &b[x.1..x.2]).unwrap_or(&[]);
    // item references of type 'iloc': from -> [to]
    let mut refs: Vec<(u32, Vec<u32>)> = vec![];
    if let Some((_, rs, re)) = kids.iter().find(|x| &x.0 == b"iref") {
        let v = b[*rs];
        let w = if v == 0 { 2 } else { 4 };
        for (ty, s, _e) in boxes(b, rs + 4, *re)? {
            if &ty == b"iloc" {
                let mut o = s;
                let from = rd(b, &mut o, w)? as u32;
                let n = rd(b, &mut o, 2)?;
                let mut to = vec![];
                for _ in 0..n {
                    to.push(rd(b, &mut o, w)? as u32);
                }
                refs.push((from, to));
            }
        }
    }
    let version = b[is];
    let mut o = is + 4;
    let x = rd(b, &mut o, 1)? as u8;
    let y = rd(b, &mut o, 1)? as u8;
    let (offset_size, length_size, base_size) = ((x >> 4) as usize, (x & 15) as usize, (y >> 4) as usize);
    let index_size = if version == 1 || version == 2 { (y & 15) as usize } else { 0 };
    let count = if version < 2 { rd(b, &mut o, 2)? } else { rd(b, &mut o, 4)? };
    let mut raw = vec![];
    for _ in 0..count {
        let id = if version < 2 { rd(b, &mut o, 2)? } else { rd(b, &mut o, 4)? } as u32;
        let cm = if version == 1 || version == 2 { (rd(b, &mut o, 2)? & 0x0f) as u8 } else { 0 };
        let _dref = rd(b, &mut o, 2)?;
        let base = rd(b, &mut o, base_size)?;
        let ec = rd(b, &mut o, 2)?;
        let mut extents = vec![];
        for _ in 0..ec {
            let idx = if (version == 1 || version == 2) && index_size > 0 { rd(b, &mut o, index_size)? } else { 0 };
            let eo = rd(b, &mut o, offset_size)?;
            let el = rd(b, &mut o, length_size)?;
            extents.push((idx, eo, el));
        }
        raw.push(RawItem { id, cm, base, extents });
    }
    fn resolve(b: &[u8], idat: &[u8], raw: &[RawItem], refs: &[(u32, Vec<u32>)], it: &RawItem, depth: usize) -> Result<Vec<u8>, String> {
        if depth > 4 {
            return Err("item reference cycle".into());
        }
        let mut out = vec![];
        for (idx, eo, el) in &it.extents {
            let owned;
            let src: &[u8] = match it.cm {
                0 => b,
                1 => idat,
                2 => {
                    let to = refs.iter().find(|r| r.0 == it.id).map(|r| &r.1).ok_or("no iloc item reference")?;
                    let k = if *idx == 0 { 0 } else { *idx as usize - 1 };
                    let tid = *to.get(k).ok_or("extent_index out of range")?;
                    let t = raw.iter().find(|r| r.id == tid).ok_or("referenced item missing")?;
                    owned = resolve(b, idat, raw, refs, t, depth + 1)?;
                    &owned
                }
                m => return Err(format!("construction_method {m}")),
            };
            let start = (it.base + eo) as usize;
            let end = if *el == 0 { src.len() } else { start + *el as usize };
            out.extend_from_slice(src.get(start..end).ok_or_else(|| format!("extent {start}..{end} outside its {}-byte source (construction_method {})", src.len(), it.cm))?);
        }
        Ok(out)
    }
    Some(raw.iter().map(|it| ResolvedItem { id: it.id, cm: it.cm, data: resolve(b, idat, &raw, &refs, it, 0) }).collect())
}
