//! Local PKI / TSA / OCSP responder driven through the `openssl` CLI (3.x on PATH).
//! Included with `#[path]` by the C33 / C36 / C37 drivers. Everything is written below one
//! scratch directory that the caller removes.
#![allow(dead_code)]

use std::{
    fs,
    path::{Path, PathBuf},
    process::Command,
    time::{SystemTime, UNIX_EPOCH},
};

pub fn now() -> i64 {
    SystemTime::now().duration_since(UNIX_EPOCH).unwrap().as_secs() as i64
}

/// unix seconds -> `YYYYMMDDHHMMSSZ` (proleptic Gregorian, UTC)
pub fn asn1_time(t: i64) -> String {
    let days = t.div_euclid(86400);
    let secs = t.rem_euclid(86400);
    // civil-from-days (H. Hinnant)
    let z = days + 719468;
    let era = z.div_euclid(146097);
    let doe = z.rem_euclid(146097);
    let yoe = (doe - doe / 1460 + doe / 36524 - doe / 146096) / 365;
    let y = yoe + era * 400;
    let doy = doe - (365 * yoe + yoe / 4 - yoe / 100);
    let mp = (5 * doy + 2) / 153;
    let d = doy - (153 * mp + 2) / 5 + 1;
    let m = if mp < 10 { mp + 3 } else { mp - 9 };
    let y = if m <= 2 { y + 1 } else { y };
    format!("{:04}{:02}{:02}{:02}{:02}{:02}Z", y, m, d, secs / 3600, (secs / 60) % 60, secs % 60)
}

const CNF: &str = r#"
[ ca ]
default_ca = CA_default
[ CA_default ]
dir = .
database = ./index.txt
new_certs_dir = ./newcerts
serial = ./serial
default_md = sha256
policy = policy_any
unique_subject = no
copy_extensions = none
[ policy_any ]
organizationName = optional
commonName = supplied
[ req ]
distinguished_name = dn
prompt = no
[ dn ]
CN = placeholder
[ v3_root ]
basicConstraints = critical,CA:true
keyUsage = critical,keyCertSign,cRLSign
subjectKeyIdentifier = hash
[ v3_sign ]
basicConstraints = critical,CA:false
keyUsage = critical,digitalSignature
extendedKeyUsage = emailProtection
subjectKeyIdentifier = hash
authorityKeyIdentifier = keyid
[ v3_tsa ]
basicConstraints = critical,CA:false
keyUsage = critical,digitalSignature
extendedKeyUsage = critical,timeStamping
subjectKeyIdentifier = hash
authorityKeyIdentifier = keyid
[ v3_ocsp ]
basicConstraints = critical,CA:false
keyUsage = critical,digitalSignature
extendedKeyUsage = OCSPSigning
subjectKeyIdentifier = hash
authorityKeyIdentifier = keyid
[ tsa_acc1 ]
dir = .
serial = ./tsaserial
crypto_device = builtin
signer_digest = sha256
default_policy = 1.2.3.4.1
digests = sha1, sha224, sha256, sha384, sha512
accuracy = secs:1
ess_cert_id_chain = no
ess_cert_id_alg = sha256
[ tsa_acc0 ]
dir = .
serial = ./tsaserial
crypto_device = builtin
signer_digest = sha256
default_policy = 1.2.3.4.1
digests = sha1, sha224, sha256, sha384, sha512
ess_cert_id_chain = no
ess_cert_id_alg = sha256
[ tsa_sd_sha1 ]
dir = .
serial = ./tsaserial
crypto_device = builtin
signer_digest = sha1
default_policy = 1.2.3.4.1
digests = sha1, sha224, sha256, sha384, sha512
accuracy = secs:1
ess_cert_id_chain = no
ess_cert_id_alg = sha256
[ tsa_sd_sha224 ]
dir = .
serial = ./tsaserial
crypto_device = builtin
signer_digest = sha224
default_policy = 1.2.3.4.1
digests = sha1, sha224, sha256, sha384, sha512
accuracy = secs:1
ess_cert_id_chain = no
ess_cert_id_alg = sha256
[ tsa_sd_sha256 ]
dir = .
serial = ./tsaserial
crypto_device = builtin
signer_digest = sha256
default_policy = 1.2.3.4.1
digests = sha1, sha224, sha256, sha384, sha512
accuracy = secs:1
ess_cert_id_chain = no
ess_cert_id_alg = sha256
[ tsa_sd_sha384 ]
dir = .
serial = ./tsaserial
crypto_device = builtin
signer_digest = sha384
default_policy = 1.2.3.4.1
digests = sha1, sha224, sha256, sha384, sha512
accuracy = secs:1
ess_cert_id_chain = no
ess_cert_id_alg = sha256
[ tsa_sd_sha512 ]
dir = .
serial = ./tsaserial
crypto_device = builtin
signer_digest = sha512
default_policy = 1.2.3.4.1
digests = sha1, sha224, sha256, sha384, sha512
accuracy = secs:1
ess_cert_id_chain = no
ess_cert_id_alg = sha256
[ tsa_sd_md5 ]
dir = .
serial = ./tsaserial
crypto_device = builtin
signer_digest = md5
default_policy = 1.2.3.4.1
digests = sha1, sha224, sha256, sha384, sha512
accuracy = secs:1
ess_cert_id_chain = no
ess_cert_id_alg = sha256
"#;

#[derive(Clone, Debug)]
pub struct Cred {
    pub name: String,
    pub cert: PathBuf,
    pub key: PathBuf,
    pub not_before: i64,
    pub not_after: i64,
}

impl Cred {
    pub fn cert_pem(&self) -> Vec<u8> {
        fs::read(&self.cert).expect("cert")
    }

    pub fn key_pem(&self) -> Vec<u8> {
        fs::read(&self.key).expect("key")
    }

    pub fn cert_der(&self) -> Vec<u8> {
        pem_to_der(&self.cert_pem())
    }
}

pub fn pem_to_der(pem: &[u8]) -> Vec<u8> {
    let s = String::from_utf8_lossy(pem);
    let b64: String = s.lines().filter(|l| !l.starts_with("-----")).collect();
    b64_decode(&b64)
}

fn b64_decode(s: &str) -> Vec<u8> {
    let mut out = Vec::new();
    let mut acc = 0u32;
    let mut bits = 0;
    for c in s.bytes() {
        let v = match c {
            b'A'..=b'Z' => c - b'A',
            b'a'..=b'z' => c - b'a' + 26,
            b'0'..=b'9' => c - b'0' + 52,
            b'+' => 62,
            b'/' => 63,
            _ => continue,
        } as u32;
        acc = (acc << 6) | v;
        bits += 6;
        if bits >= 8 {
            bits -= 8;
            out.push((acc >> bits) as u8);
            acc &= (1 << bits) - 1;
        }
    }
    out
}

/// DER `TimeStampReq` (version 1, no nonce) for the SHA-2 family; `None` for other digests
/// (the caller falls back to `openssl ts -query`).
pub fn ts_request(md: &str, data: &[u8], cert_req: bool) -> Option<Vec<u8>> {
    use sha2::Digest;
    let (oid_last, digest): (u8, Vec<u8>) = match md {
        "sha256" => (1, sha2::Sha256::digest(data).to_vec()),
        "sha384" => (2, sha2::Sha384::digest(data).to_vec()),
        "sha512" => (3, sha2::Sha512::digest(data).to_vec()),
        "sha224" => (4, sha2::Sha224::digest(data).to_vec()),
        _ => return None,
    };
    // AlgorithmIdentifier { 2.16.840.1.101.3.4.2.x, NULL }
    let mut alg = vec![0x30, 0x0d, 0x06, 0x09, 0x60, 0x86, 0x48, 0x01, 0x65, 0x03, 0x04, 0x02, oid_last, 0x05, 0x00];
    let mut imprint = vec![0x30, (alg.len() + 2 + digest.len()) as u8];
    imprint.append(&mut alg);
    imprint.push(0x04);
    imprint.push(digest.len() as u8);
    imprint.extend(digest);
    let mut body = vec![0x02, 0x01, 0x01];
    body.extend(imprint);
    if cert_req {
        body.extend([0x01, 0x01, 0xff]);
    }
    let mut out = vec![0x30, body.len() as u8];
    out.extend(body);
    Some(out)
}

/// `YYYYMMDDHHMMSS` digits -> unix seconds
pub fn epoch_of_digits(d: &[u8]) -> Option<i64> {
    let s = std::str::from_utf8(d).ok()?;
    let n = |a: usize, b: usize| s.get(a..b)?.parse::<i64>().ok();
    let (y, mo, dd, h, mi, se) = (n(0, 4)?, n(4, 6)?, n(6, 8)?, n(8, 10)?, n(10, 12)?, n(12, 14)?);
    let y2 = if mo <= 2 { y - 1 } else { y };
    let era = y2.div_euclid(400);
    let yoe = y2.rem_euclid(400);
    let mp = (mo + 9) % 12;
    let doy = (153 * mp + 2) / 5 + dd - 1;
    let doe = yoe * 365 + yoe / 4 - yoe / 100 + doy;
    Some((era * 146097 + doe - 719468) * 86400 + h * 3600 + mi * 60 + se)
}

/// (TSTInfo.genTime, signed signingTime attribute) of an openssl-made token: the first
/// GeneralizedTime and the last UTCTime of the DER (certificates precede the SignerInfos).
pub fn token_times(tok: &[u8]) -> Option<(i64, i64)> {
    let mut gen = None;
    let mut attr = None;
    for i in 0..tok.len().saturating_sub(16) {
        if gen.is_none() && tok[i] == 0x18 && tok[i + 1] == 0x0f && tok[i + 16] == b'Z' {
            gen = epoch_of_digits(&tok[i + 2..i + 16]);
        }
    }
    for i in 0..tok.len().saturating_sub(14) {
        if tok[i] == 0x17 && tok[i + 1] == 0x0d && tok[i + 14] == b'Z' && tok[i + 2..i + 14].iter().all(|c| c.is_ascii_digit()) {
            let mut d = b"20".to_vec();
            d.extend_from_slice(&tok[i + 2..i + 14]);
            attr = epoch_of_digits(&d);
        }
    }
    Some((gen?, attr?))
}

pub struct Pki {
    pub dir: PathBuf,
    n: std::sync::atomic::AtomicU32,
}

impl Pki {
    pub fn new(dir: &Path) -> Pki {
        fs::create_dir_all(dir.join("newcerts")).expect("pki dir");
        fs::write(dir.join("ca.cnf"), CNF).unwrap();
        fs::write(dir.join("index.txt"), "").unwrap();
        fs::write(dir.join("index.txt.attr"), "unique_subject = no\n").unwrap();
        fs::write(dir.join("serial"), "1000\n").unwrap();
        fs::write(dir.join("tsaserial"), "01\n").unwrap();
        Pki { dir: dir.to_path_buf(), n: std::sync::atomic::AtomicU32::new(0) }
    }

    fn fresh(&self, stem: &str, ext: &str) -> PathBuf {
        let k = self.n.fetch_add(1, std::sync::atomic::Ordering::SeqCst);
        self.dir.join(format!("{stem}-{k}.{ext}"))
    }

    /// run openssl in the PKI directory; returns (success, stderr)
    pub fn openssl(&self, args: &[&str]) -> (bool, String) {
        let out = Command::new("openssl")
            .args(args)
            .current_dir(&self.dir)
            .env("OPENSSL_CONF", self.dir.join("ca.cnf"))
            .output()
            .expect("openssl on PATH");
        (out.status.success(), String::from_utf8_lossy(&out.stderr).to_string())
    }

    fn must(&self, args: &[&str]) {
        let (ok, err) = self.openssl(args);
        if !ok {
            panic!("openssl {:?} failed: {err}", args);
        }
    }

    fn genkey(&self, name: &str) -> PathBuf {
        let key = self.dir.join(format!("{name}.key"));
        self.must(&[
            "genpkey", "-algorithm", "EC", "-pkeyopt", "ec_paramgen_curve:P-256", "-out",
            key.to_str().unwrap(),
        ]);
        key
    }

    /// Self-signed root CA valid `[now-1d, now+3650d]`.
    pub fn root(&self, name: &str) -> Cred {
        let key = self.genkey(name);
        let cert = self.dir.join(format!("{name}.pem"));
        let t = now();
        self.must(&[
            "req", "-new", "-x509", "-key", key.to_str().unwrap(), "-subj",
            &format!("/O=Verif/CN={name}"), "-days", "3650", "-config", "ca.cnf", "-extensions",
            "v3_root", "-out", cert.to_str().unwrap(),
        ]);
        Cred { name: name.to_string(), cert, key, not_before: t, not_after: t + 3650 * 86400 }
    }

    /// Self-signed root CA stored as `<stem>.pem` with subject `/O=Verif/CN=<cn>`; with `key_of`
    /// it reuses that credential's key (same key, other name), otherwise a fresh key is made
    /// (e.g. same name, other key).
    pub fn root_as(&self, stem: &str, cn: &str, key_of: Option<&Cred>) -> Cred {
        let key = match key_of {
            Some(c) => c.key.clone(),
            None => self.genkey(stem),
        };
        let cert = self.dir.join(format!("{stem}.pem"));
        let t = now();
        self.must(&[
            "req", "-new", "-x509", "-key", key.to_str().unwrap(), "-subj",
            &format!("/O=Verif/CN={cn}"), "-days", "3650", "-config", "ca.cnf", "-extensions",
            "v3_root", "-out", cert.to_str().unwrap(),
        ]);
        Cred { name: stem.to_string(), cert, key, not_before: t, not_after: t + 3650 * 86400 }
    }

    /// Serial number of the certificate as upper-case hex (as `openssl x509 -serial` prints it).
    pub fn serial_hex(&self, c: &Cred) -> String {
        let out = Command::new("openssl")
            .args(["x509", "-in", c.cert.to_str().unwrap(), "-noout", "-serial"])
            .output()
            .expect("openssl");
        String::from_utf8_lossy(&out.stdout).trim().trim_start_matches("serial=").to_string()
    }

    /// DER `OCSPRequest` (no nonce) for the certificate with serial `serial_hex` issued by
    /// `issuer`: its single `CertID` carries the issuer name / key hashes openssl computes.
    pub fn ocsp_request_for_serial(&self, issuer: &Cred, serial_hex: &str) -> Option<Vec<u8>> {
        let q = self.fresh("oqs", "der");
        let (ok, _) = self.openssl(&[
            "ocsp", "-issuer", issuer.cert.to_str().unwrap(), "-serial", &format!("0x{serial_hex}"),
            "-no_nonce", "-reqout", q.to_str().unwrap(),
        ]);
        let out = if ok { fs::read(&q).ok() } else { None };
        let _ = fs::remove_file(&q);
        out
    }

    /// DER ECDSA-with-SHA256 signature over `data` with the credential's key.
    pub fn sign_sha256(&self, signer: &Cred, data: &[u8]) -> Option<Vec<u8>> {
        let d = self.fresh("tbs", "bin");
        let s = self.fresh("sig", "bin");
        fs::write(&d, data).ok()?;
        let (ok, _) = self.openssl(&[
            "dgst", "-sha256", "-sign", signer.key.to_str().unwrap(), "-out", s.to_str().unwrap(),
            d.to_str().unwrap(),
        ]);
        let out = if ok { fs::read(&s).ok() } else { None };
        let _ = fs::remove_file(&d);
        let _ = fs::remove_file(&s);
        out
    }

    /// Issue a leaf under `ca` with the extension section `ext` and the exact validity
    /// `[not_before, not_after]` (unix seconds).
    pub fn issue(&self, ca: &Cred, name: &str, ext: &str, not_before: i64, not_after: i64) -> Cred {
        let key = self.dir.join(format!("{name}.key"));
        let csr = self.dir.join(format!("{name}.csr"));
        let cert = self.dir.join(format!("{name}.pem"));
        self.must(&[
            "req", "-new", "-newkey", "ec", "-pkeyopt", "ec_paramgen_curve:P-256", "-nodes",
            "-keyout", key.to_str().unwrap(), "-subj", &format!("/O=Verif/CN={name}"), "-config",
            "ca.cnf", "-out", csr.to_str().unwrap(),
        ]);
        self.must(&[
            "ca", "-batch", "-config", "ca.cnf", "-cert", ca.cert.to_str().unwrap(), "-keyfile",
            ca.key.to_str().unwrap(), "-in", csr.to_str().unwrap(), "-out", cert.to_str().unwrap(),
            "-extensions", ext, "-startdate", &asn1_time(not_before), "-enddate",
            &asn1_time(not_after), "-notext",
        ]);
        Cred { name: name.to_string(), cert, key, not_before, not_after }
    }

    /// Like `issue`, with the subject key made by `openssl genpkey <keyargs>` (e.g.
    /// `["-algorithm", "RSA-PSS", "-pkeyopt", "rsa_keygen_bits:2048"]`); `None` if openssl refuses.
    pub fn issue_key(&self, ca: &Cred, name: &str, ext: &str, not_before: i64, not_after: i64, keyargs: &[&str]) -> Option<Cred> {
        let key = self.dir.join(format!("{name}.key"));
        let csr = self.dir.join(format!("{name}.csr"));
        let cert = self.dir.join(format!("{name}.pem"));
        let mut g = vec!["genpkey"];
        g.extend_from_slice(keyargs);
        g.extend_from_slice(&["-out", key.to_str().unwrap()]);
        if !self.openssl(&g).0 {
            return None;
        }
        if !self.openssl(&[
            "req", "-new", "-key", key.to_str().unwrap(), "-subj", &format!("/O=Verif/CN={name}"),
            "-config", "ca.cnf", "-out", csr.to_str().unwrap(),
        ]).0 {
            return None;
        }
        if !self.openssl(&[
            "ca", "-batch", "-config", "ca.cnf", "-cert", ca.cert.to_str().unwrap(), "-keyfile",
            ca.key.to_str().unwrap(), "-in", csr.to_str().unwrap(), "-out", cert.to_str().unwrap(),
            "-extensions", ext, "-startdate", &asn1_time(not_before), "-enddate",
            &asn1_time(not_after), "-notext",
        ]).0 {
            return None;
        }
        Some(Cred { name: name.to_string(), cert, key, not_before, not_after })
    }

    /// RFC 3161 TimeStampResp over the digest `digest_hex` (algorithm `md` = sha1/sha256/sha384/sha512),
    /// signed by `tsa`; `chain` certificates are embedded next to the signer when `with_certs`.
    pub fn ts_reply(
        &self,
        tsa: &Cred,
        chain: Option<&Cred>,
        md: &str,
        data: &[u8],
        with_certs: bool,
        section: &str,
    ) -> Option<Vec<u8>> {
        let q = self.fresh("q", "tsq");
        let r = self.fresh("r", "tsr");
        let d = self.fresh("d", "bin");
        if let Some(req) = ts_request(md, data, with_certs) {
            fs::write(&q, req).ok()?;
        } else {
            fs::write(&d, data).ok()?;
            let mdflag = format!("-{md}");
            let mut qa = vec![
                "ts", "-query", "-data", d.to_str().unwrap(), mdflag.as_str(), "-no_nonce", "-out",
                q.to_str().unwrap(),
            ];
            if with_certs {
                qa.push("-cert");
            }
            self.must(&qa);
        }
        let mut ra = vec![
            "ts", "-reply", "-config", "ca.cnf", "-section", section, "-queryfile",
            q.to_str().unwrap(), "-signer", tsa.cert.to_str().unwrap(), "-inkey",
            tsa.key.to_str().unwrap(), "-out", r.to_str().unwrap(),
        ];
        if let Some(c) = chain {
            ra.push("-chain");
            ra.push(c.cert.to_str().unwrap());
        }
        let (ok, _) = self.openssl(&ra);
        let out = if ok { fs::read(&r).ok() } else { None };
        let _ = fs::remove_file(&q);
        let _ = fs::remove_file(&r);
        let _ = fs::remove_file(&d);
        out
    }

    /// DER `INTEGER` encoding (tag, length, value) of the certificate's serial number.
    pub fn serial_der(&self, c: &Cred) -> Vec<u8> {
        let out = Command::new("openssl")
            .args(["x509", "-in", c.cert.to_str().unwrap(), "-noout", "-serial"])
            .output()
            .expect("openssl");
        let s = String::from_utf8_lossy(&out.stdout);
        let hexs = s.trim().trim_start_matches("serial=").to_string();
        let mut v: Vec<u8> = (0..hexs.len() / 2)
            .map(|i| u8::from_str_radix(&hexs[2 * i..2 * i + 2], 16).unwrap())
            .collect();
        if v[0] & 0x80 != 0 {
            v.insert(0, 0);
        }
        let mut d = vec![0x02, v.len() as u8];
        d.extend(v);
        d
    }

    /// Mark `cert` revoked in the CA database.
    pub fn revoke(&self, ca: &Cred, cert: &Cred, reason: Option<&str>) {
        let mut a = vec![
            "ca", "-config", "ca.cnf", "-cert", ca.cert.to_str().unwrap(), "-keyfile",
            ca.key.to_str().unwrap(), "-revoke", cert.cert.to_str().unwrap(),
        ];
        if let Some(r) = reason {
            a.push("-crl_reason");
            a.push(r);
        }
        self.must(&a);
    }

    /// All GeneralizedTime values (unix seconds) in DER order.
    pub fn generalized_times(der: &[u8]) -> Vec<i64> {
        let mut out = vec![];
        let mut i = 0;
        while i + 17 <= der.len() {
            if der[i] == 0x18 && der[i + 1] == 0x0f && der[i + 16] == b'Z' && der[i + 2..i + 16].iter().all(|c| c.is_ascii_digit()) {
                if let Some(t) = epoch_of_digits(&der[i + 2..i + 16]) {
                    out.push(t);
                }
                i += 17;
            } else {
                i += 1;
            }
        }
        out
    }

    /// OCSP response (DER) about `cert` (issued by `issuer`), answered from the CA database and
    /// signed by `responder`; `ndays` sets nextUpdate (None = no nextUpdate).
    pub fn ocsp_response(
        &self,
        issuer: &Cred,
        cert: &Cred,
        responder: &Cred,
        ndays: Option<u32>,
        index: &str,
        extra: &[&str],
    ) -> Option<Vec<u8>> {
        let q = self.fresh("oq", "der");
        let r = self.fresh("or", "der");
        if !self.dir.join(index).exists() {
            fs::write(self.dir.join(index), "").ok()?;
            fs::write(self.dir.join(format!("{index}.attr")), "unique_subject = no\n").ok()?;
        }
        self.must(&[
            "ocsp", "-issuer", issuer.cert.to_str().unwrap(), "-cert", cert.cert.to_str().unwrap(),
            "-no_nonce", "-reqout", q.to_str().unwrap(),
        ]);
        let nd = ndays.map(|d| d.to_string());
        let mut a = vec![
            "ocsp", "-index", index, "-CA", issuer.cert.to_str().unwrap(), "-rsigner",
            responder.cert.to_str().unwrap(), "-rkey", responder.key.to_str().unwrap(), "-reqin",
            q.to_str().unwrap(), "-respout", r.to_str().unwrap(),
        ];
        if let Some(nd) = &nd {
            a.push("-ndays");
            a.push(nd);
        }
        a.extend_from_slice(extra);
        let (ok, _) = self.openssl(&a);
        let out = if ok { fs::read(&r).ok() } else { None };
        let _ = fs::remove_file(&q);
        let _ = fs::remove_file(&r);
        out
    }
}
