#!/bin/bash
# Runs every claimed quick check against /repo's working tree, one after the other; prints one line per check.
cd /verif
out=${1:-/tmp/all-quick.txt}; : > $out
for f in registry/C??.json; do id=$(basename $f .json)
  s=$(date +%s); ./check $id --tier quick > /tmp/all-quick-$id.log 2>&1; rc=$?
  echo "$id rc=$rc $(( $(date +%s)-s ))s $(grep -E "^C[0-9]+ tier" /tmp/all-quick-$id.log | cut -c1-170) $(grep -c VIOLATION /tmp/all-quick-$id.log) viol" >> $out
done
echo DONE >> $out
