#!/usr/bin/env python3
"""usage: tools_split_test_hunks.py <patch> <out_code.patch> <out_tests.patch>
Splits a unified diff into hunks that add test code (a '+' line with #[test] / #[cfg(test)] / fn test_) and the rest.
Handles patches with or without 'diff --git' headers."""
import re,sys
src,oc,ot=sys.argv[1:4]
t=open(src).read()
# split into per-file sections: a section starts at 'diff --git' or at a '--- a/' line not preceded by a diff header
lines=t.splitlines(keepends=True)
secs=[];cur=[]
for i,l in enumerate(lines):
    start = l.startswith('diff --git ') or (l.startswith('--- ') and i+1<len(lines) and lines[i+1].startswith('+++ ') and not any(x.startswith('diff --git ') for x in cur[-4:]) )
    if start and cur and any(x.startswith('@@ ') for x in cur):
        secs.append(''.join(cur)); cur=[]
    cur.append(l)
if cur: secs.append(''.join(cur))
code=[];tests=[]
for f in secs:
    if not f.strip(): continue
    head,*hunks=re.split(r'(?m)^(?=@@ )',f)
    c=[h for h in hunks if not re.search(r'(?m)^\+.*(#\[test\]|#\[cfg\(test\)\]|fn test_)',h)]
    s=[h for h in hunks if h not in c]
    if c: code.append(head+''.join(c))
    if s: tests.append(head+''.join(s))
open(oc,'w').write(''.join(code)); open(ot,'w').write(''.join(tests))
print('code files',len(code),'test files',len(tests))
