#!/usr/bin/env python3
"""usage: tools_split_test_hunks.py <patch> <out_code.patch> <out_tests.patch>
Splits a unified diff into hunks that add test code (a '+' line with #[test] / #[cfg(test)] / fn test_) and the rest."""
import re,sys
src,oc,ot=sys.argv[1:4]
t=open(src).read()
files=re.split(r'(?m)^(?=diff --git )',t)
code=[];tests=[]
for f in files:
    if not f.strip(): continue
    head,*hunks=re.split(r'(?m)^(?=@@ )',f)
    c=[h for h in hunks if not re.search(r'(?m)^\+.*(#\[test\]|#\[cfg\(test\)\]|fn test_)',h)]
    s=[h for h in hunks if h not in c]
    if c: code.append(head+''.join(c))
    if s: tests.append(head+''.join(s))
open(oc,'w').write(''.join(code)); open(ot,'w').write(''.join(tests))
print('code hunks files',len(code),'test hunk files',len(tests))
