#!/usr/bin/env python3
"""Regenerate lean/C2paModel/Gen/C10AllocSites.lean from /repo/sdk/src.

Lists every allocation whose size is an expression (not a literal) in the non-test code of the
SDK: `vec![x; e]`, `with_capacity(e)`, `.resize(e, _)`, `.reserve(e)`, `.reserve_exact(e)`,
`.repeat(e)`, `safe_vec(e, _)`, `read_to_vec(e)`, and every unbounded read `read_to_end(` /
`read_to_string(` and decompressor call, and classifies what bounds the size:

  lit       the expression is built from literals and constants only
  mem       the expression is built from `.len()` / `.count()` / `.capacity()` of values that
            are already in memory (+ constants): bounded by a small multiple of live data
  min       the expression is `min(_, constant)` (or `.min(constant)`)
  fallible  `safe_vec` / `read_to_vec` / `try_reserve*`: allocation failure is an error and
            (`read_to_vec`) the length is checked against the stream first (model: C10)
  guard     listed in translators/c10_alloc_reviewed.json with a guard pattern that **must be
            found in the text of the same function before the site** (the check that bounds
            the size) and a one-line reason
  stream    reviewed: `read_to_end` of the caller's input stream itself (no decompressor in
            between): bounded by the input size
  writer    reviewed: the site is on the signing / writing path and the size is the caller's own
            request (reserve size, salt length, placeholder size …), not a field of a parsed asset
  uncappedRemote  reviewed, **not bounded**: a download whose only limit is what the remote
            server sends (kept visible; the table theorem allows exactly the listed ones)
  none      anything else — the table theorem fails and the check reports the site

A site is identified by (file, function, normalised expression), not by line number, so moving
code does not invalidate a review, changing the size expression or removing the guard does.
Fails closed (exit 1) on anything it cannot parse.
"""
import hashlib, json, os, re, sys

ROOT = os.path.dirname(os.path.dirname(os.path.abspath(__file__)))
SRC = "/repo/sdk/src"
OUT = os.path.join(ROOT, "lean/C2paModel/Gen/C10AllocSites.lean")
REVIEW = os.path.join(ROOT, "translators/c10_alloc_reviewed.json")


def fail(m):
    print("translator c10_alloc_sites: " + m)
    sys.exit(1)


def strip_tests(text):
    cut = [m.start() for m in re.finditer(r"#\[cfg\(test\)\]\s*(\n\s*#\[[^\]]*\]\s*)*\n?\s*(pub(\(crate\))? )?mod \w+", text)]
    return text if not cut else text[:min(cut)]


def strip_comments(text):
    """Blank comments, string and char literals (offsets and newlines kept)."""
    out = list(text)
    n = len(text)
    i = 0

    def blank(a, b):
        for k in range(a, b):
            if out[k] != "\n":
                out[k] = " "

    while i < n:
        c = text[i]
        if text.startswith("//", i):
            j = text.find("\n", i)
            j = n if j < 0 else j
            blank(i, j)
            i = j
        elif text.startswith("/*", i):
            depth, j = 1, i + 2
            while j < n and depth:
                if text.startswith("/*", j):
                    depth += 1
                    j += 2
                elif text.startswith("*/", j):
                    depth -= 1
                    j += 2
                else:
                    j += 1
            blank(i, j)
            i = j
        elif c == "r" and re.match(r'r#*"', text[i:i + 12]) and (i == 0 or not (text[i - 1].isalnum() or text[i - 1] == "_")):
            m = re.match(r'r(#*)"', text[i:i + 12])
            end = text.find('"' + m.group(1), i + len(m.group(0)))
            if end < 0:
                fail("unterminated raw string")
            blank(i + len(m.group(0)), end)
            i = end + 1 + len(m.group(1))
        elif c == '"':
            j = i + 1
            while j < n and text[j] != '"':
                j += 2 if text[j] == "\\" else 1
            blank(i + 1, j)
            i = j + 1
        elif c == "'":
            m = re.match(r"'(\\.[^']*|[^'\\])'", text[i:i + 12])
            if m:
                blank(i + 1, i + len(m.group(0)) - 1)
                i += len(m.group(0))
            else:
                i += 1
        else:
            i += 1
    return "".join(out)


def match_close(text, i, op, cl):
    depth = 0
    while i < len(text):
        c = text[i]
        if c == op:
            depth += 1
        elif c == cl:
            depth -= 1
            if depth == 0:
                return i
        i += 1
    return -1


def first_arg(s):
    depth = 0
    for i, c in enumerate(s):
        if c in "([{<" and not (c == "<" and (i == 0 or not (s[i - 1].isalnum() or s[i - 1] == ":"))):
            depth += 1
        elif c in ")]}" or (c == ">" and depth > 0 and i > 0 and s[i - 1] != "-" and s[i - 1] != "="):
            depth -= 1
        elif c == "," and depth == 0:
            return s[:i]
    return s


def norm(e):
    return re.sub(r"\s+", " ", e).strip()


LEAF_LIT = re.compile(r"^(\d[\d_]*(usize|u64|u32|u8|i64|i32)?|0x[0-9a-fA-F_]+|[A-Z][A-Z0-9_]*|(\w+::)+[A-Z][A-Z0-9_]*|(std::)?mem::size_of::<[\w:<> ]+>\(\)|size_of::<[\w:<> ]+>\(\))$")


def classify_expr(e):
    e = norm(e)
    x = re.sub(r"\bas (usize|u64|u32|u16|u8|i64|i32)\b", "", e)
    mem = re.compile(r"[&*]?[A-Za-z_][\w]*(\s*\.\s*[A-Za-z_]\w*(\(\s*\))?|\[[^\]]*\])*\s*\.\s*(len|count|capacity)\(\s*\)")
    # sum of the lengths of pieces of a value in memory
    x = re.sub(r"[A-Za-z_][\w]*\([^()]*\)\s*\.map\(\|(\w+)\| \1\.len\(\)\)\s*\.sum\(\)", "m.len()", x)
    had_mem = bool(mem.search(x))
    y = mem.sub("0", x)
    y = re.sub(r"\.(div_ceil|saturating_add|saturating_mul|checked_add|next_power_of_two|max)\(", "+(", y)
    leaves = [t for t in re.split(r"[\s+\-*/()%,]+", y) if t]
    if all(LEAF_LIT.match(t) for t in leaves):
        return "mem" if had_mem else "lit"
    m = re.search(r"(\bmin\(|\.min\()", x)
    if m:
        # min with at least one constant/mem operand
        close = match_close(x, x.index("(", m.start()), "(", ")")
        inner = x[x.index("(", m.start()) + 1:close]
        parts = [p.strip() for p in inner.split(",")] if "," in inner else [inner.strip()]
        if m.group(0).startswith("."):
            parts = [inner.strip()]
        if any(classify_expr(p) in ("lit", "mem") for p in parts if p):
            return "min"
    return "var"


def classify_local(e, before, depth=0):
    """classify_expr, resolving plain local identifiers through their last `let` in the function."""
    e = norm(e)
    # look through fallible conversions: `usize::try_from(x).map_err(..)?`, `x?`
    prev = None
    while prev != e:
        prev = e
        k = e.find(".map_err(")
        if k >= 0:
            c = match_close(e, k + 8, "(", ")")
            if c > 0:
                e = e[:k] + e[c + 1:]
        e = re.sub(r"\?$", "", e).strip()
        m = re.match(r"^(?:usize|u64|u32)::(?:try_from|from)\((.*)\)$", e)
        if m and e.count("(") == e.count(")"):
            e = m.group(1).strip()
    # a choice between constants
    if re.match(r"^if [^{}]* \{ [\w:]+ \} else \{ [\w:]+ \}$", e):
        a, b = re.findall(r"\{ ([\w:]+) \}", e)
        if LEAF_LIT.match(a) and LEAF_LIT.match(b):
            return "lit"
    # the length of the caller's stream
    if re.match(r"^stream_len\(\w+\)$", e) or re.match(r"^\w+\.seek\(SeekFrom::End\(0\)\)$", e):
        return "stream"
    c = classify_expr(e)
    if c != "var" or depth >= 3:
        return c
    x = re.sub(r"\bas (usize|u64|u32|u16|u8|i64|i32)\b", "", norm(e))
    idents = set(t for t in re.findall(r"(?<![\w.:])[a-z_][a-z0-9_]*(?![\w(:.\[!])", x) if t not in ("as", "mut", "usize", "u64", "u32", "u8"))
    if not idents:
        return c
    worst = "lit"
    order = {"lit": 0, "mem": 1, "min": 2, "stream": 3}
    for ident in idents:
        ms = list(re.finditer(r"\blet\s+(mut\s+)?" + re.escape(ident) + r"\s*(:[^=;]+)?=\s*([^;]+);", before))
        if not ms or ms[-1].group(1):
            return "var"  # unknown, or `let mut` (may be reassigned: not resolved)
        rhs = ms[-1].group(3)
        k = classify_local(rhs, before[:ms[-1].start()], depth + 1)
        if k not in order:
            return "var"
        if order[k] > order[worst]:
            worst = k
    # every identifier is lit/mem/min-bounded; the rest of the expression must be arithmetic
    rest = x
    for ident in idents:
        rest = re.sub(r"(?<![\w.])" + re.escape(ident) + r"(?![\w(])", "0", rest)
    return worst if classify_expr(rest) in ("lit", "mem", "min") else "var"



PATTERNS = [
    ("vec", re.compile(r"\bvec!\[")),
    ("with_capacity", re.compile(r"\bwith_capacity\(")),
    ("resize", re.compile(r"\.resize\(")),
    ("reserve", re.compile(r"\.reserve(_exact)?\(")),
    ("try_reserve", re.compile(r"\.try_reserve(_exact)?\(")),
    ("repeat", re.compile(r"\.repeat\(")),
    ("safe_vec", re.compile(r"\bsafe_vec\(")),
    ("read_to_vec", re.compile(r"\.read_to_vec\(")),
    ("read_to_end", re.compile(r"\.read_to_end\(")),
    ("read_to_string", re.compile(r"\.read_to_string\(")),
    ("decompress", re.compile(r"\b(BrotliDecompress|Decompressor::new|ZlibDecoder::new|DeflateDecoder::new|GzDecoder::new|inflate_bytes\w*)\(")),
]


def main():
    review = json.load(open(REVIEW)) if os.path.exists(REVIEW) else {}
    used = set()
    files = []
    for d, _, fs in os.walk(SRC):
        if "verif_hooks" in d:
            continue
        for f in fs:
            if f.endswith(".rs") and f not in ("test.rs", "test_signer.rs"):
                files.append(os.path.join(d, f))
    files.sort()
    h = hashlib.sha256()
    sites = []
    for path in files:
        rel = os.path.relpath(path, SRC)
        text = strip_comments(strip_tests(open(path, errors="replace").read()))
        fns = [(m.start(), m.group(1)) for m in re.finditer(r"\bfn\s+(\w+)", text)]
        for kind, pat in PATTERNS:
            for m in pat.finditer(text):
                op = m.end() - 1
                if kind == "vec":
                    close = match_close(text, op, "[", "]")
                    if close < 0:
                        fail(f"unbalanced vec! at {rel}")
                    inner = text[op + 1:close]
                    # vec![x; e] only
                    depth = 0
                    semi = -1
                    for i, c in enumerate(inner):
                        if c in "([{":
                            depth += 1
                        elif c in ")]}":
                            depth -= 1
                        elif c == ";" and depth == 0:
                            semi = i
                            break
                    if semi < 0:
                        continue
                    expr = inner[semi + 1:]
                else:
                    close = match_close(text, op, "(", ")")
                    if close < 0:
                        fail(f"unbalanced parens at {rel}")
                    expr = first_arg(text[op + 1:close]) if kind not in ("read_to_end", "read_to_string", "decompress") else ""
                line_start = text.rfind("\n", 0, m.start()) + 1
                line = text[line_start:text.find("\n", m.start())]
                if re.search(r"\bfn\s+\w+", line) and kind in ("safe_vec", "read_to_vec"):
                    continue  # the definition itself
                fn_at = [f for f in fns if f[0] < m.start()]
                fn_pos, fn_name = fn_at[-1] if fn_at else (0, "-")
                ln = text.count("\n", 0, m.start()) + 1
                e = norm(expr)
                before = text[fn_pos:m.start()]
                stmt = norm(text[max(line_start, m.start() - 160):close + 1])
                if kind in ("read_to_vec", "try_reserve"):
                    cls = "fallible"
                    c2 = "fallible"
                elif kind == "safe_vec":
                    # fallible, but with `Some(fill)` the memory is touched: the count itself
                    # has to be bounded (auto class, or a reviewed guard)
                    c2 = classify_local(e, before)
                    cls = "fallible" if c2 in ("lit", "mem", "min", "stream") else "var"
                elif kind in ("read_to_end", "read_to_string", "decompress"):
                    # bounded when the reader is `.take(n)`-limited in the same statement
                    stmt_start = max(text.rfind(";", 0, m.start()), text.rfind("{", 0, m.start())) + 1
                    recv = norm(text[stmt_start:m.start()])
                    e = recv[-80:]
                    cls = "var"
                    tk = recv.rfind(".take(")
                    if tk >= 0:
                        tc = match_close(recv, tk + 5, "(", ")")
                        bound = recv[tk + 6:tc] if tc > 0 else ""
                        # `.take(n)` bounds the read only as far as `n` itself is bounded
                        if bound and classify_local(bound, before) in ("lit", "mem", "min", "stream"):
                            cls = "min"
                    if kind == "decompress" and re.search(r"BoundedVecWriter::new\(", before) and re.search(r"&mut\s+bounded_writer", text[op:close]):
                        cls = "min"  # the sink is the bounded writer (model: C10 BVW)
                    c2 = cls
                else:
                    cls = classify_local(e, before)
                    c2 = cls
                key = f"{rel}::{fn_name}::{kind}::{e}"
                reason = ""
                if cls == "var":
                    wild = f"{rel}::{fn_name}::{kind}::*"
                    rkey = key if key in review else wild
                    r = review.get(rkey)
                    if r is not None:
                        used.add(rkey)
                        g = r.get("guard", "")
                        ok_guard = bool(g) and bool(re.search(g, norm(before)))
                        if ok_guard and r.get("guard_fn"):
                            # the bounding check sits in another function of the same file
                            fm = re.search(r"\bfn\s+" + re.escape(r["guard_fn"]) + r"\b", text)
                            body = ""
                            if fm:
                                nxt = re.search(r"\n\s*(pub(\([\w:]+\))?\s+)?(async\s+)?fn\s", text[fm.end():])
                                body = text[fm.start():fm.end() + (nxt.start() if nxt else len(text))]
                            ok_guard = bool(body) and bool(re.search(r.get("guard_fn_pattern", "$^"), norm(body)))
                        if ok_guard and r.get("precede"):
                            a, b = r["precede"]
                            occ = [m2.start() for m2 in re.finditer(re.escape(b), text)]
                            ok_guard = bool(occ) and all(a in text[max(0, o - 600):o] for o in occ)
                        if ok_guard:
                            cls = "guard"
                            reason = r.get("why", "")
                        elif not g and r.get("class") in ("stream", "writer", "uncappedRemote") and r.get("why"):
                            cls = r["class"]
                            reason = r.get("why", "")
                        else:
                            cls = "none"
                            reason = "reviewed guard pattern not found before the site: " + g
                    elif cls == "var":
                        cls = "none"
                sites.append({"file": rel, "line": ln, "fn": fn_name, "kind": kind, "expr": e, "cls": cls, "key": key, "why": reason})
                h.update((key + ":" + cls).encode())
    # ---- the assertion-count limit: every place that grows an assertion list
    limit_rows = []

    def fn_before(text, pos):
        fns2 = [(m.start(), m.group(1)) for m in re.finditer(r"\bfn\s+(\w+)", text) if m.start() < pos]
        return fns2[-1] if fns2 else (0, "-")

    CHECK_CLAIM = r"if self\.assertion_store\.len\(\) >= MAX_ASSERTIONS \{ return Err\(Error::TooManyAssertions"
    CHECK_READER = r"if num_assertions > MAX_ASSERTIONS \{ return Err\(Error::TooManyAssertions.*for idx in 0\.\.num_assertions"
    for path in files:
        rel = os.path.relpath(path, SRC)
        text = strip_comments(strip_tests(open(path, errors="replace").read()))
        for m in re.finditer(r"\b(definition\.assertions|assertion_store)\s*\.\s*(push|extend|extend_from_slice|insert|append|resize)\(", text):
            if m.group(1) == "assertion_store" and rel != "claim.rs":
                continue  # `Claim.assertion_store` is a private field: other files name other things
            pos, fname = fn_before(text, m.start())
            before = norm(text[pos:m.start()])
            if m.group(1) == "definition.assertions":
                ok = m.group(2) == "push" and "self.check_assertion_limit()?;" in before
                what = "builder-list-" + m.group(2)
            elif fname == "put_assertion_store":
                ok = m.group(2) == "push"
                what = "loader-push"
            else:
                ok = m.group(2) == "push" and bool(re.search(CHECK_CLAIM, before))
                what = "claim-list-" + m.group(2)
            limit_rows.append((rel, fname, what, ok))
        for m in re.finditer(r"\.put_assertion_store\(", text):
            pos, fname = fn_before(text, m.start())
            before = norm(text[pos:m.start()])
            limit_rows.append((rel, fname, "loader-push-call", rel == "store.rs" and bool(re.search(CHECK_READER, before))))
        if rel == "builder.rs":
            m = re.search(r"fn check_assertion_limit\(&self\) -> Result<\(\)> \{(.*?)\n    \}", text, re.S)
            limit_rows.append((rel, "check_assertion_limit", "limit-definition", bool(m and re.search(r"if self\.definition\.assertions\.len\(\) >= MAX_ASSERTIONS \{ return Err\(Error::TooManyAssertions", norm(m.group(1))))))
    if len(limit_rows) < 5:
        fail(f"only {len(limit_rows)} assertion-list sites found — pattern rot?")
    if len(sites) < 50:
        fail(f"only {len(sites)} allocation sites found — pattern rot?")
    stale = sorted(set(review) - used)

    def lean_str(x):
        return '"' + x.replace("\\", "\\\\").replace('"', '\\"') + '"'

    rows = [f'  ⟨{lean_str(s["file"])}, {lean_str(s["fn"])}, {lean_str(s["kind"])}, {lean_str(s["expr"][:90])}, Bound.{s["cls"]}⟩' for s in sites]
    text = f"""import C2paModel.Base
/-
GENERATED on every check run by translators/c10_alloc_sites.py — do not edit.
Every allocation of the SDK's non-test code whose size is an expression, every unbounded
`read_to_end` / `read_to_string` and every decompressor call, with what bounds the size
(see the translator's docstring for the classes). `Bound.none` = nothing recognised.
-/
namespace C2pa.C10.Gen

inductive Bound
  | lit | mem | min | fallible | guard | stream | writer | uncappedRemote | none
  deriving DecidableEq, Repr

structure Site where
  file : String
  fn : String
  kind : String
  expr : String
  bound : Bound
  deriving Repr

def Site.guarded (s : Site) : Bool := s.bound != Bound.none && s.bound != Bound.uncappedRemote

def allocSites : List Site := [
{(',' + chr(10)).join(rows)}
]

/-- Every place in the SDK that grows an assertion list (`Builder.definition.assertions`,
`Claim.assertion_store`), every call of the loader's unchecked push, and the limit check
itself: (file, function, what, the `MAX_ASSERTIONS` check dominates it). -/
def limitSites : List (String × String × String × Bool) := [
{{LIMIT_ROWS}}
]

/-- review entries that no longer match any site (must be 0: a stale review is removed) -/
def staleReviews : Nat := {len(stale)}

end C2pa.C10.Gen
"""
    text = text.replace("{LIMIT_ROWS}", ("," + chr(10)).join(f'  ({lean_str(a)}, {lean_str(b)}, {lean_str(c)}, {"true" if d else "false"})' for a, b, c, d in limit_rows))
    old = open(OUT).read() if os.path.exists(OUT) else None
    if old != text and "--dump" not in sys.argv:
        os.makedirs(os.path.dirname(OUT), exist_ok=True)
        open(OUT, "w").write(text)
    none = [s for s in sites if s["cls"] == "none"]
    by = {}
    for s in sites:
        by[s["cls"]] = by.get(s["cls"], 0) + 1
    info = {"table": "C10AllocSites", "sites": len(sites), "by_class": by, "unguarded": [s["key"] for s in none],
            "stale_reviews": stale, "sha256": h.hexdigest()[:16], "changed": old != text,
            "oracle_failures": [
                {"class": f"unguarded-alloc-site:{s['file']}:{s['fn']}", "case": 0, "request": f"{s['file']}:{s['line']}",
                 "detail": f"sdk/src/{s['file']}:{s['line']} ({s['fn']}): {s['kind']} sized by `{s['expr']}` — no bound recognised ({s['why'] or 'not literal, not a length of data in memory, not min(_, const), not fallible, not reviewed'})"}
                for s in none] + [
                {"class": f"assertion-list-grows-unchecked:{a}:{b}", "case": 0, "request": f"{a}:{b}",
                 "detail": f"sdk/src/{a} ({b}): {c} is not dominated by the MAX_ASSERTIONS check"}
                for a, b, c, d in limit_rows if not d]}
    info["limit_sites"] = len(limit_rows)
    if "--dump" in sys.argv:
        for s in sites:
            print(f"{s['cls']:9} {s['file']}:{s['line']} {s['fn']} {s['kind']} [{s['expr']}]")
        print(json.dumps(s and by))
        return
    print("TABLE " + json.dumps(info))
    if stale:
        fail("stale review entries: " + "; ".join(stale))


if __name__ == "__main__":
    main()
