#!/usr/bin/env python3
"""Regenerate lean/C2paModel/Gen/C20Labels.lean from /repo/sdk/src (C20, C21).

Read from the sources, fail closed (exit 1) when a pattern is not found exactly once:

  assertions/labels.rs   the string constants ACTIONS, DATA_HASH, BOX_HASH, BMFF_HASH,
                         COLLECTION_HASH, CLAIM_THUMBNAIL, INGREDIENT and the array HASH_LABELS
                         (resolved to the strings its constant names stand for, in order)
  claim.rs               ALLOWED_UPDATE_MANIFEST_ACTIONS (string literals, in order);
                         in `Claim::redact_assertion` the two `label.starts_with(..)` guards
                         (`assertions::labels::ACTIONS` and the literal prefix);
                         in `Claim::verify_internal` the three redaction tests
                         (`r.contains(claim.label())`, `r.contains(labels::ACTIONS)`,
                         `labels::HASH_LABELS.iter().any(|label| r.contains(label))`) and the
                         thumbnail rule of the update branch (`.contains(CLAIM_THUMBNAIL)` … `> N`)

`Props/C20.lean` / `Props/C21.lean` prove `rfl`-equalities between the model's constants
(`Model/C20.lean`) and this table, so a change of a label, of the allowed-action list, of the
hash-label list or of the thumbnail limit breaks the Lean build of the property.
"""
import json
import os
import re
import sys

ROOT = os.path.dirname(os.path.dirname(os.path.abspath(__file__)))
SRC = "/repo/sdk/src"
OUT = os.path.join(ROOT, "lean/C2paModel/Gen/C20Labels.lean")


def fail(m):
    print("translator c20_labels: " + m)
    sys.exit(1)


def read(p):
    try:
        return open(os.path.join(SRC, p), encoding="utf-8").read()
    except OSError as e:
        fail(f"cannot read {p}: {e}")


def one(pattern, text, what, flags=0):
    ms = re.findall(pattern, text, flags)
    if len(ms) != 1:
        fail(f"{what}: expected exactly one match, found {len(ms)}")
    return ms[0]


def lean_str(s):
    if not all(32 <= ord(c) < 127 and c not in "\"\\" for c in s):
        fail(f"unexpected character in {s!r}")
    return f'"{s}".toList'


def fn_body(text, header_re, what):
    m = re.search(header_re, text)
    if not m:
        fail(f"{what}: function header not found")
    i = text.index("{", m.end())
    depth = 0
    for j in range(i, len(text)):
        if text[j] == "{":
            depth += 1
        elif text[j] == "}":
            depth -= 1
            if depth == 0:
                return text[i : j + 1]
    fail(f"{what}: unbalanced braces")


labels = read("assertions/labels.rs")
claim = read("claim.rs")

consts = {}
for name in ["ACTIONS", "DATA_HASH", "BOX_HASH", "BMFF_HASH", "COLLECTION_HASH", "CLAIM_THUMBNAIL", "INGREDIENT"]:
    consts[name] = one(r'pub const %s: &str = "([^"]*)";' % name, labels, f"labels::{name}")

arr = one(r"pub const HASH_LABELS: \[&str; (\d+)\] = \[([^\]]*)\];", labels, "labels::HASH_LABELS")
names = [x.strip() for x in arr[1].split(",") if x.strip()]
if len(names) != int(arr[0]):
    fail("HASH_LABELS: length does not match the declared size")
for n in names:
    if n not in consts:
        fail(f"HASH_LABELS: unknown constant {n}")
hash_labels = [consts[n] for n in names]

arr = one(r"const ALLOWED_UPDATE_MANIFEST_ACTIONS: \[&str; (\d+)\] = \[([^\]]*)\];", claim, "ALLOWED_UPDATE_MANIFEST_ACTIONS")
allowed = re.findall(r'"([^"]*)"', arr[1])
if len(allowed) != int(arr[0]):
    fail("ALLOWED_UPDATE_MANIFEST_ACTIONS: length does not match the declared size")

# Claim::redact_assertion: what the signer refuses
ra = fn_body(claim, r"\n    fn redact_assertion\(&mut self, assertion_uri: &str\) -> Result<\(\)> ", "redact_assertion")
guard = one(r"if label\.starts_with\(assertions::labels::ACTIONS\) \|\| label\.starts_with\(\"([^\"]*)\"\) \{\s*return Err\(Error::AssertionInvalidRedaction\);", ra, "redact_assertion guard")
signer_hash_prefix = guard

# Claim::verify_internal: what the validator flags
vi = fn_body(claim, r"\n    fn verify_internal\(", "verify_internal")
one(r"if r\.contains\(claim\.label\(\)\) \{", vi, "verify_internal self-redaction test")
one(r"if r\.contains\(labels::ACTIONS\) \{", vi, "verify_internal actions-redaction test")
one(r"if labels::HASH_LABELS\.iter\(\)\.any\(\|label\| r\.contains\(label\)\) \{", vi, "verify_internal hash-redaction test")
thumb = one(r"\.filter\(\|ca\| ca\.label_raw\(\)\.contains\(CLAIM_THUMBNAIL\)\)\s*\.count\(\)\s*> (\d+)", vi, "verify_internal thumbnail rule")
one(r"if labels::HASH_LABELS\s*\.iter\(\)\s*\.any\(\|label\| claim\.has_assertion_type\(label\)\)\s*\{", vi, "verify_internal update-manifest hard-binding rule (by label)")
one(r"if !ALLOWED_UPDATE_MANIFEST_ACTIONS\s*\.iter\(\)\s*\.any\(\|a\| \*a == action\.action\(\)\)", vi, "verify_internal allowed-action test")

lines = [
    "import C2paModel.Base",
    "/-",
    "GENERATED on every check run by translators/c20_labels.py — do not edit.",
    "Label constants, `HASH_LABELS`, `ALLOWED_UPDATE_MANIFEST_ACTIONS`, the literal hash prefix the",
    "signer's `redact_assertion` refuses and the thumbnail limit of the update-manifest rule, read",
    "from sdk/src/assertions/labels.rs and sdk/src/claim.rs.",
    "-/",
    "namespace C2pa.C20.Gen",
    "",
    f"def actions : List Char := {lean_str(consts['ACTIONS'])}",
    f"def claimThumbnail : List Char := {lean_str(consts['CLAIM_THUMBNAIL'])}",
    f"def ingredient : List Char := {lean_str(consts['INGREDIENT'])}",
    "def hashLabels : List (List Char) := [" + ", ".join(lean_str(x) for x in hash_labels) + "]",
    "def allowedUpdateActions : List (List Char) := [" + ", ".join(lean_str(x) for x in allowed) + "]",
    f"def signerHashPrefix : List Char := {lean_str(signer_hash_prefix)}",
    f"def updateThumbnailLimit : Nat := {int(thumb)}",
    "",
    "end C2pa.C20.Gen",
    "",
]
new = "\n".join(lines)
old = open(OUT, encoding="utf-8").read() if os.path.exists(OUT) else None
if old != new:
    with open(OUT, "w", encoding="utf-8") as f:
        f.write(new)
print("TABLE " + json.dumps({"hash_labels": hash_labels, "allowed_update_actions": allowed, "signer_hash_prefix": signer_hash_prefix, "update_thumbnail_limit": int(thumb), "actions": consts["ACTIONS"]}))
