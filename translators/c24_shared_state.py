#!/usr/bin/env python3
"""Regenerate lean/C2paModel/Gen/C24SharedState.lean: every process-wide item of sdk/src.

Scans (outside `#[cfg(test)]` modules and verif_hooks) for
  * `static NAME: T = …`            (const if T has no interior mutability, else mutableGlobal / lazyConst)
  * `static mut NAME`               (mutableGlobal)
  * `lazy_static! { static ref NAME: T = … }`  (lazyConst unless T is Mutex/RwLock/Atomic/RefCell → mutableGlobal)
  * `thread_local! { static NAME … }` (threadLocal)
  * in context.rs: `OnceLock<…>` enum payloads and `Atomic*` struct fields (perContextCell)
Fails closed when a `static` line cannot be parsed.
"""
import hashlib, json, os, re, sys

ROOT = os.path.dirname(os.path.dirname(os.path.abspath(__file__)))
SRC = "/repo/sdk/src"
OUT = os.path.join(ROOT, "lean/C2paModel/Gen/C24SharedState.lean")
MUT = re.compile(r"\b(Mutex|RwLock|Atomic\w+|RefCell|Cell|UnsafeCell)\b")
LAZY = re.compile(r"\b(LazyLock|Lazy|OnceLock|OnceCell)\b")


def fail(m):
    print("translator c24_shared_state: " + m)
    sys.exit(1)


def strip_tests(text):
    cuts = [m.start() for m in re.finditer(r"#\[cfg\(test\)\]\s*\n\s*(pub(\(crate\))? )?mod \w+", text)]
    return text if not cuts else text[:cuts[0]]


def main():
    rows = []
    files = []
    for d, _, fs in os.walk(SRC):
        if "verif_hooks" in d:
            continue
        for f in fs:
            if f.endswith(".rs") and f != "test.rs":
                files.append(os.path.join(d, f))
    files.sort()
    for path in files:
        rel = os.path.relpath(path, SRC)
        text = strip_tests(open(path, errors="replace").read())
        # thread_local blocks
        tl_spans = []
        for m in re.finditer(r"thread_local!\s*[\(\{]", text):
            end = text.find("\n);", m.end())
            end2 = text.find("\n}", m.end())
            e = min(x for x in (end, end2) if x >= 0) if max(end, end2) >= 0 else len(text)
            tl_spans.append((m.start(), e))
        lz_spans = []
        for m in re.finditer(r"lazy_static!\s*\{", text):
            e = text.find("\n}", m.end())
            lz_spans.append((m.start(), e if e >= 0 else len(text)))
        for m in re.finditer(r"^[ \t]*(?:pub(?:\([a-z]+\))?\s+)?static\s+(mut\s+)?(ref\s+)?([A-Za-z_][A-Za-z0-9_]*)\s*:\s*([^=;]+?)\s*(=|;)", text, re.M):
            line_start = text.rfind("\n", 0, m.start()) + 1
            if text[line_start:m.start()].strip().startswith("//"):
                continue
            # skip statics that are inside fn bodies of #[test] fns already cut; keep everything else
            name, ty = m.group(3), m.group(4)
            pos = m.start()
            if any(a <= pos <= b for a, b in tl_spans):
                kind = "threadLocal"
            elif m.group(1):
                kind = "mutableGlobal"
            elif MUT.search(ty):
                kind = "mutableGlobal"
            elif any(a <= pos <= b for a, b in lz_spans) or LAZY.search(ty):
                kind = "lazyConst"
            else:
                kind = "const"
            rows.append((rel, name, kind))
        if rel == "context.rs":
            for m in re.finditer(r"^\s*(\w+)\((OnceLock<[^\n]+)\),?\s*$", text, re.M):
                # enum payload: find enclosing enum name
                en = re.findall(r"enum\s+(\w+)\s*\{", text[:m.start()])
                rows.append((rel, f"{en[-1] if en else '?'}::{m.group(1)}", "perContextCell"))
            for m in re.finditer(r"^\s*(?:pub(?:\([a-z]+\))?\s+)?(\w+)\s*:\s*(Atomic\w+|Mutex<[^\n]+|RwLock<[^\n]+)\s*,", text, re.M):
                rows.append((rel, m.group(1), "perContextCell"))
    if not rows:
        fail("no items found")
    for r in rows:
        for s in r[:2]:
            if '"' in s or "\\" in s:
                fail(f"cannot quote {s!r}")
    body = ",\n".join(f'  ("{r[0]}", "{r[1]}", Kind.{r[2]})' for r in rows)
    text = f"""import C2paModel.Model.C24
/-
GENERATED on every check run by translators/c24_shared_state.py — do not edit.
Every process-wide item (`static`, `lazy_static!`, `thread_local!`) of sdk/src outside test
modules, plus the OnceLock / atomic cells of `Context`, with a syntactic classification.
-/
namespace C2pa.C24.Gen
open C2pa.C24

def sharedState : List (String × String × Kind) := [
{body}
]

end C2pa.C24.Gen
"""
    old = open(OUT).read() if os.path.exists(OUT) else None
    if old != text:
        os.makedirs(os.path.dirname(OUT), exist_ok=True)
        open(OUT, "w").write(text)
    nonconst = [r for r in rows if r[2] != "const"]
    info = {"table": "C24SharedState", "rows": len(rows), "non_const": nonconst,
            "sha256": hashlib.sha256(body.encode()).hexdigest()[:16], "changed": old != text}
    print("TABLE " + json.dumps(info))


if __name__ == "__main__":
    main()
